from functools import reduce
from itertools import takewhile
from typing import Dict

from parglare import Parser
from parglare import termui as t
from parglare.common import dot_escape, position_context
from parglare.common import replace_newlines as _
from parglare.parser import REDUCE, SHIFT, Token, pos_to_line_col
from parglare.tables import LRState
from parglare.termui import a_print, h_print, prints
from parglare.trees import (
    Forest,
    NodeNonTerm,
    NodeTerm,
    to_dot,
    to_str,
    visitor,
)


def no_colors(f):
    """
    Decorator for trace methods to prevent ANSI COLOR codes appearing in
    the trace dot output.
    """

    def nc_f(*args, **kwargs):
        self = args[0]
        t.colors = False
        r = f(*args, **kwargs)
        t.colors = self.debug_colors
        return r

    return nc_f


class GLRParser(Parser):
    """
    A Tomita-style GLR parser.
    """

    def __init__(self, *args, **kwargs):
        table = kwargs.get("table")
        lexical_disambiguation = kwargs.get("lexical_disambiguation")
        if table is None:
            # The default for GLR is not to use any strategy preferring shifts
            # over reduce thus investigating all possibilities.
            # These settings are only applicable if parse table is not computed
            # yet. If it is, then leave None values to avoid
            # "parameter overriden" warnings.
            prefer_shifts = kwargs.get("prefer_shifts")
            prefer_shifts_over_empty = kwargs.get("prefer_shifts_over_empty")

            prefer_shifts = False if prefer_shifts is None else prefer_shifts
            prefer_shifts_over_empty = (
                False if prefer_shifts_over_empty is None else prefer_shifts_over_empty
            )
            if lexical_disambiguation is None:
                lexical_disambiguation = False

            kwargs["prefer_shifts"] = prefer_shifts
            kwargs["prefer_shifts_over_empty"] = prefer_shifts_over_empty

        kwargs["lexical_disambiguation"] = lexical_disambiguation
        self.debug_trace_frontiers = kwargs.pop("debug_trace_frontiers", False)

        super().__init__(*args, **kwargs)

    def _check_parser(self):
        """
        Conflicts in table are allowed with GLR.
        """
        pass

    def parse(self, input_str, position=0, file_name=None, extra=None):
        """
        Parses the given input string.
        Args:
            input_str(str): A string to parse.
            position(int): Position to start from.
            file_name(str): File name if applicable. Used in error reporting.
            extra: An object that keeps custom parsing state. If not given
                initialized to dict.
        """

        if self.debug:
            a_print("*** PARSING STARTED\n")
            self.debug_frontier = 0
            self.debug_step = 0
            if self.debug_trace:
                self._dot_trace = ""
                self._dot_trace_ranks = ""
                self._trace_frontier_heads = []
                self._trace_frontier_steps = []

        self.file_name = file_name
        extra = {} if extra is None else extra

        # Error reporting and recovery
        self.errors = []
        self._in_error_reporting = False
        self._expected = set()
        self._tokens_ahead = []
        self._last_shifted_heads = []
        self._for_shifter = []

        # We start with a single parser head in state 0.
        start_head = GSSNode(
            file_name,
            input_str,
            self.table.states[0],
            position,
            0,
            extra,
            ambiguity=1,
            debug=self.debug,
        )
        self._init_dynamic_disambiguation(start_head)

        # Accepted (finished) heads
        self._accepted_heads = []

        if self.debug and self.debug_trace:
            self._trace_head(start_head)

        # The main loop
        self._active_heads = {0: start_head}
        while self._active_heads or self._in_error_reporting:
            if self.debug:
                a_print(
                    f"** REDUCING - frontier {self.debug_frontier}",
                    new_line=True,
                )
                self._debug__active_heads(self._active_heads.values())
            if not self._in_error_reporting:
                self._last_shifted_heads = list(self._active_heads.values())
                self._find_lookaheads()
            while self._active_heads_per_symbol:
                _, self._active_heads = self._active_heads_per_symbol.popitem()
                self._for_actor = list(self._active_heads.values())
                # Used to optimize revisiting only heads that will
                # traverse newly added paths.
                # state_id -> set(state_id)
                self._states_traversed = {}
                while self._for_actor:
                    head = self._for_actor.pop()
                    self._actor(head)
            if self._in_error_reporting:
                self._finish_error_reporting(input_str)
                if self.error_recovery:
                    self._do_error_recovery()
                    self._for_shifter = []
                    continue
                break
            self._do_shifts()

            if not self._active_heads and not self._accepted_heads:
                if self.debug:
                    a_print("*** ENTERING ERROR REPORTING MODE.", new_line=True)
                self._enter_error_reporting()

        if self.debug and self.debug_trace:
            self._trace_finish()
            self._export__dot_trace()

        if self._accepted_heads:
            # Return results
            forest = Forest(self)
            if self.debug:
                a_print(f"*** {forest.solutions} successful parse(s).")

            if self.clear_transient:
                self._remove_transient_state()
            return forest
        else:
            # Report error
            if self.clear_transient:
                self._remove_transient_state()
            error = self.errors[-1]
            del self.errors
            raise error

    def _find_lookaheads(self):
        debug = self.debug
        # Make sub-frontiers per symbol of the token ahead thus handling lexical
        # ambiguity by the same GLR mechanics
        self._active_heads_per_symbol = {}
        while self._active_heads:
            _, head = self._active_heads.popitem()
            if head.token_ahead is not None:
                # May happen after error recovery
                self._active_heads_per_symbol.setdefault(head.token_ahead.symbol, {})[
                    head.state.state_id
                ] = head
                continue
            if debug:
                h_print(f"Finding lookaheads for head {head}", new_line=True)
            self._skipws(head, head.input_str)

            tokens = self._next_tokens(head)

            if debug:
                head._debug_context(
                    expected_symbols=head.state.actions.keys(),
                )

            if tokens:
                while tokens:
                    token = tokens.pop()
                    head = head.for_token(token)
                    self._active_heads_per_symbol.setdefault(token.symbol, {})[
                        head.state.state_id
                    ] = head
            else:
                # Can't find lookahead. This head can't progress
                if debug:
                    h_print("No lookaheads found. Killing head.")

    def _actor(self, head):
        debug = self.debug
        for action in head.state.actions.get(head.token_ahead.symbol, []):
            if action.action == SHIFT:
                self._for_shifter.append((head, action.state))
            elif action.action == REDUCE:
                self._do_reductions(head, action.prod)
            else:
                if not self._in_error_reporting:
                    self._accepted_heads.append(head)
                    if debug:
                        a_print("**ACCEPTING HEAD: ", str(head))
                        if self.debug_trace:
                            self._trace_step_finish(head)

    def _do_reductions(self, head, production, update_parent=None):
        """
        Reduce the given head by the given production. If update_parent is given
        this is update/limited reduction so just traverse the given parent instead of
        all parents of the parent's head.
        """
        debug = self.debug
        if debug:
            h_print(f"\tFinding reduction paths for head: {head}")
            h_print(f"\tand production: {production}")
            if update_parent:
                h_print("\tLimited/update reduction due to new path addition.")

        states_traversed = self._states_traversed
        prod_len = len(production.rhs)
        if prod_len == 0:
            # Special case, empty reduction
            self._reduce(
                head,
                head,
                production,
                NodeNonTerm(None, [], production=production),
                head.position,
                head.position,
            )
        else:
            # Find roots of possible reductions by going backwards for
            # prod_len steps following all possible paths. Collect
            # subresults along the way to be used with semantic actions
            to_process = [(head, [], prod_len, None, update_parent is None)]
            if debug:
                h_print(f"Calculate reduction paths of length {prod_len}:", level=1)
                h_print(f"start node= {head}", level=2)
            while to_process:
                (node, results, length, last_parent, traversed) = to_process.pop()
                length = length - 1
                if debug:
                    h_print(f"node = {node}", level=2, new_line=True)
                    h_print(
                        "backpath length = {}{}".format(
                            prod_len - length, " - ROOT" if not length else ""
                        ),
                        level=2,
                    )

                if node.frontier == head.frontier:
                    # Cache traversed states for revisit optimization
                    states_traversed.setdefault(node.state.state_id, set()).add(
                        head.state.state_id
                    )

                for parent in (
                    [update_parent]
                    if update_parent and update_parent.head == node
                    else list(node.parents.values())
                ):
                    if debug:
                        h_print("", str(parent.head), level=3)

                    new_results = [parent] + results

                    # The last parent of this path, i.e. the first link
                    # traversed from the head. Must be tracked per path.
                    path_last_parent = parent if last_parent is None else last_parent

                    traversed = traversed or (
                        update_parent and update_parent.head == node
                    )

                    if length:
                        to_process.append(
                            (
                                parent.root,
                                new_results,
                                length,
                                path_last_parent,
                                traversed,
                            )
                        )
                    elif traversed:
                        self._reduce(
                            head,
                            parent.root,
                            production,
                            NodeNonTerm(None, new_results, production=production),
                            parent.start_position,
                            path_last_parent.end_position,
                        )

    def _reduce(
        self,
        head,
        root_head,
        production,
        node_nonterm,
        start_position,
        end_position,
    ):
        """
        Executes the given reduction.
        """
        if start_position is None:
            start_position = end_position = root_head.position
        state = root_head.state.gotos[production.symbol]

        if self.debug:
            self.debug_step += 1
            a_print(
                f"{self._debug_step_str()} REDUCING head ",
                str(head),
                new_line=True,
            )
            a_print("by prod ", production, level=1)
            a_print(f"to state {state.state_id}:{state.symbol}", level=1)
            a_print("root is ", root_head, level=1)
            a_print(f"Position span: {start_position} - {end_position}", level=1)

        new_head = GSSNode(
            head.file_name,
            head.input_str,
            state,
            head.position,
            head.frontier,
            head.extra,
            token_ahead=head.token_ahead,
            layout_content=root_head.layout_content,
            layout_content_ahead=head.layout_content_ahead,
            debug=self.debug,
        )
        parent = Parent(
            new_head,
            root_head,
            start_position,
            end_position,
            production=production,
            possibilities=[node_nonterm],
        )

        if self.dynamic_filter and not self._call_dynamic_filter(
            parent, head.state, state, REDUCE, production, list(node_nonterm)
        ):
            # Action rejected by dynamic filter
            return

        active_head = self._active_heads.get(state.state_id, None)
        if active_head:
            created = active_head.create_link(parent)
            if self.debug and self.debug_trace:
                self._trace_step(head, parent)

            # Calculate heads to revisit with the new path. Only those heads that
            # are already processed (not in _for_actor) and are traversing this
            # new head state on the current frontier should be considered.
            if created and state.state_id in self._states_traversed:
                to_revisit = self._states_traversed[state.state_id].intersection(
                    self._active_heads.keys()
                ) - set(h.state.state_id for h in self._for_actor)
                if to_revisit:
                    if self.debug:
                        h_print(
                            "Revisiting reductions for processed "
                            f"active heads in states {to_revisit}",
                            level=1,
                        )
                    for r_head_state in to_revisit:
                        r_head = self._active_heads[r_head_state]
                        for action in [
                            a
                            for a in r_head.state.actions.get(head.token_ahead.symbol, [])
                            if a.action == REDUCE
                        ]:
                            self._do_reductions(r_head, action.prod, parent)
        else:
            # No cycles. Do the reduction.
            new_head.create_link(parent)
            if self.debug and self.debug_trace:
                self._trace_step(head, parent)
            self._for_actor.append(new_head)
            self._active_heads[new_head.state.state_id] = new_head

            if self.debug:
                a_print("New head: ", new_head, level=1, new_line=True)
                if self.debug_trace:
                    self._trace_head(new_head)

    def _do_shifts(self):
        debug = self.debug
        if debug:
            self.debug_frontier += 1
            self.debug_step = 0
            a_print(f"** SHIFTING - frontier {self.debug_frontier}", new_line=True)
            self._debug__active_heads(self._active_heads.values())
            if self.debug_trace:
                self._trace_frontier()

        self._active_heads = {}

        # Due to lexical ambiguity heads might be at different positions.
        # We must order heads by position before shift to process them in
        # the right order. Only shift heads with minimal position during
        # a single frontier processing.
        self._for_shifter.sort(key=lambda x: x[0].token_ahead.end_position, reverse=True)
        end_position = None
        while self._for_shifter:
            head, to_state = self._for_shifter.pop()
            if end_position is not None and head.token_ahead.end_position > end_position:
                self._for_shifter.append((head, to_state))
                break
            end_position = head.token_ahead.end_position
            if debug:
                self.debug_step += 1
                a_print(
                    f"{self._debug_step_str()}. SHIFTING head: ",
                    head,
                    new_line=True,
                )
            shifted_head = self._active_heads.get(to_state.state_id, None)
            if shifted_head:
                # If this token has already been shifted connect shifted head to
                # this head.
                parent = Parent(
                    shifted_head,
                    head,
                    head.position,
                    head.position + len(head.token_ahead),
                    token=head.token_ahead,
                    layout_content=head.layout_content_ahead,
                )
                if self.dynamic_filter and not self._call_dynamic_filter(
                    parent, head.state, to_state, SHIFT
                ):
                    continue
            else:
                # We need to create new shifted head
                if debug:
                    head._debug_context(
                        expected_symbols=None,
                    )

                end_position = head.position + len(head.token_ahead)
                shifted_head = GSSNode(
                    head.file_name,
                    head.input_str,
                    to_state,
                    end_position,
                    head.frontier + 1,
                    head.extra,
                    ambiguity=1,
                    layout_content=head.layout_content_ahead,
                    debug=self.debug,
                )
                parent = Parent(
                    shifted_head,
                    head,
                    head.position,
                    end_position,
                    token=head.token_ahead,
                    layout_content=head.layout_content_ahead,
                )

                if self.dynamic_filter and not self._call_dynamic_filter(
                    parent, head.state, to_state, SHIFT
                ):
                    continue

                if self.debug:
                    a_print("New shifted head ", shifted_head, level=1)
                    if self.debug_trace:
                        self._trace_head(shifted_head)

                self._active_heads[to_state.state_id] = shifted_head

            shifted_head.create_link(parent)
            if self.debug and self.debug_trace:
                self._trace_step(head, parent)

    def _enter_error_reporting(self):
        """
        To correctly report what is found ahead and what is expected we shall:

            - execute all grammar recognizers at the farther position reached
              in the input by the active heads.  This will be part of the error
              report (what is found ahead if anything can be recognized).

            - for all last reducing heads, simulate parsing for each of
              possible lookaheads in the head's state until either SHIFT or
              ACCEPT is successfuly executed.  Collect each possible lookahead
              where this is achieved for reporting.  This will be another part
              of the error report (what is expected).

        """

        self._in_error_reporting = True

        # Start with the last shifted heads sorted by position.
        self._last_shifted_heads.sort(key=lambda h: h.position, reverse=True)
        last_head = self._last_shifted_heads[0]
        farthest_heads = takewhile(
            lambda h: h.position == last_head.position, self._last_shifted_heads
        )

        self._tokens_ahead = self._get_all_possible_tokens_ahead(last_head)

        self._active_heads_per_symbol = {}
        for head in farthest_heads:
            for possible_lookahead in head.state.actions:
                h = head.for_token(Token(possible_lookahead, [], position=head.position))
                self._active_heads_per_symbol.setdefault(possible_lookahead, {})[
                    h.state.state_id
                ] = h

    def _finish_error_reporting(self, input_str):
        # Expected symbols are only those that can cause active heads
        # to shift.
        self._expected = set(h.token_ahead.symbol for h, _ in self._for_shifter)
        if self.debug:
            a_print("*** LEAVING ERROR REPORTING MODE.", new_line=True)
            h_print(
                "Tokens expected:",
                ", ".join([t.name for t in self._expected]),
                level=1,
            )
            h_print("Tokens found:", self._tokens_ahead, level=1)

        # After leaving error reporting mode, register error and try
        # recovery if enabled
        context = self._last_shifted_heads[0]
        self.errors.append(
            self._create_error(
                input_str,
                context,
                self._expected,
                tokens_ahead=self._tokens_ahead,
                symbols_before=list({h.state.symbol for h in self._last_shifted_heads}),
                last_heads=self._last_shifted_heads,
            )
        )

        self.for_shifter = []
        self._in_error_reporting = False

    def _do_error_recovery(self):
        """
        If recovery is enabled, does error recovery for the heads in
        _last_shifted_heads.

        """
        if self.debug:
            a_print("*** STARTING ERROR RECOVERY.", new_line=True)
        error = self.errors[-1]
        debug = self.debug
        self._active_heads = {}
        for head in self._last_shifted_heads:
            if debug:
                input_str = head.input_str
                symbols = head.state.actions.keys()
                h_print(
                    f"Recovery initiated for head {head}.",
                    level=1,
                    new_line=True,
                )
                h_print("Symbols expected: ", [s.name for s in symbols], level=1)
            if isinstance(self.error_recovery, bool):
                # Default recovery
                if debug:
                    prints("\tDoing default error recovery.")
                successful = self.default_error_recovery(head)
            else:
                # Custom recovery provided during parser construction
                if debug:
                    prints("\tDoing custom error recovery.")
                successful = self.error_recovery(head, error, self.default_error_recovery)

            if successful:
                error.location.end_position = head.position
                if debug:
                    a_print(
                        "New position is ",
                        pos_to_line_col(input_str, head.position),
                        level=1,
                    )
                    a_print("New lookahead token is ", head.token_ahead, level=1)
                self._active_heads[head.state.state_id] = head
                if self.debug:
                    a_print(
                        "*** ERROR RECOVERY SUCCEEDED. CONTINUING.",
                        new_line=True,
                    )
            else:
                if debug:
                    a_print("Killing head: ", head, level=1)
                    if self.debug_trace:
                        self._trace_step_kill(head)

    def _remove_transient_state(self):
        """
        Delete references to transient parser objects to lower memory
        consumption.
        """
        del self._for_actor
        del self._for_shifter
        del self._last_shifted_heads
        del self._accepted_heads
        del self._active_heads
        del self._states_traversed
        del self._expected
        del self._tokens_ahead
        if self.debug_trace:
            del self._dot_trace
            del self._dot_trace_ranks
            del self._trace_frontier_heads
            del self._trace_frontier_steps

    def _debug_step_str(self):
        return f"{self.debug_frontier}.{self.debug_step}"

    def _debug__active_heads(self, heads):
        if not heads:
            h_print("No active heads.")
        else:
            h_print("Active heads = ", len(heads))
            for head in heads:
                prints(f"\t{head}")
            h_print(f"Number of trees = {sum([len(h.parents) for h in heads])}")

    @no_colors
    def _trace_head(self, head):
        self._trace_frontier_heads.append(head)

    @no_colors
    def _trace_step(self, from_head, parent):
        self._trace_frontier_steps.append((from_head, parent))

    @no_colors
    def _trace_step_finish(self, from_head):
        self._dot_trace += f"\n{from_head.key} -> ACCEPT;\n"

    @no_colors
    def _trace_frontier(self):
        parents_processed = set()

        for head in self._trace_frontier_heads:
            self._dot_trace += (
                f'{head.key} [label="{head.frontier}. '
                f'{head.state.state_id}:{dot_escape(head.state.symbol.name)}"];\n'
            )

        for step_no, step in enumerate(self._trace_frontier_steps):
            step_no += 1
            from_head, parent = step
            if parent not in parents_processed:
                self._dot_trace += (
                    f"{parent.head.key} -> {parent.root.key} "
                    f'[label="{parent.ambiguity}"];\n'
                )
                parents_processed.add(parent)
            if parent.production:
                # Reduce step
                label = f"R:{dot_escape(parent.production)}"
            else:
                # Shift step
                label = (
                    f"S:{dot_escape(parent.token.symbol.name)}"
                    f"({dot_escape(parent.token.value)})"
                )
            self._dot_trace += (
                f"{from_head.key} -> {parent.head.key} "
                f'[label="{parent.head.frontier}.{step_no} '
                f'{label}" {TRACE_DOT_STEP_STYLE}];\n'
            )

        self._dot_trace_ranks += "{{rank=same; {}; {}}}\n".format(
            self.debug_frontier - 1,
            "".join([f" {x.key};" for x in self._trace_frontier_heads]),
        )
        self._trace_frontier_heads = []
        self._trace_frontier_steps = []

    @no_colors
    def _trace_step_kill(self, from_head):
        self._dot_trace += (
            f'{from_head.key}_killed [shape="diamond" fillcolor="red" label="killed"];\n'
        )
        self._dot_trace += (
            f"{from_head.key} -> {from_head.key}_killed "
            f'[label="{self._debug_step_str()}." {TRACE_DOT_STEP_STYLE}];\n'
        )

    @no_colors
    def _trace_step_drop(self, from_head, to_head):
        self._dot_trace += (
            f"{from_head.key} -> {to_head.key} "
            f'[label="drop empty" {TRACE_DOT_DROP_STYLE}];\n'
        )

    @no_colors
    def _trace_finish(self):
        if self.debug_trace and self.debug_trace_frontiers:
            self._dot_trace += '\nnode [shape=none, style=""]\n'
            self._dot_trace += self._dot_trace_ranks
            self._dot_trace += "->".join(str(i) for i in range(self.debug_frontier))
            self._dot_trace += "[arrowhead=none];\n"

    def _export__dot_trace(self):
        file_name = (
            f"{self.file_name}_trace.dot" if self.file_name else "parglare_trace.dot"
        )
        with open(file_name, "w", encoding="utf-8") as f:
            f.write(DOT_HEADER)
            f.write(self._dot_trace)
            f.write("}\n")

        prints(f"Generated file {file_name}.")
        prints("You can use dot viewer or generate pdf with the following command:")
        h_print(f"dot -Tpdf -O {file_name}")


class Parent:
    """
    Represent a backlink in the GSS stack with all possibilities in
    case of ambiguity.
    """

    __slots__ = [
        "head",
        "root",
        "start_position",
        "end_position",
        "possibilities",
        "_solutions",
        "_ambiguities",
        "production",
        "token",
        "_layout_content",
    ]

    def __init__(
        self,
        head,
        root,
        start_position,
        end_position=None,
        possibilities=None,
        production=None,
        token=None,
        layout_content=None,
    ):
        self.root = root
        self.head = head
        # Layout before a shifted token belongs to this link: a head may be
        # shared by tokens that are preceded by different layout.
        self._layout_content = layout_content
        self.start_position = start_position
        self.end_position = end_position if end_position is not None else start_position

        self.production = production
        self.token = token
        self._solutions = None
        self._ambiguities = None

        # A list of NodeNonTerm or NodeTerm objects representing alternative
        # interpretations of what is seen between root and head GSS nodes.
        self.possibilities = []
        if possibilities:
            self.possibilities = possibilities
            for p in possibilities:
                p.context = self
        elif token:
            self.possibilities.append(NodeTerm(self, token))

    def merge(self, other):
        self.possibilities.extend(other.possibilities)
        self._solutions = None

    def clone_with_root(self, root):
        return Parent(
            self.head,
            root,
            self.start_position,
            self.end_position,
            list(self.possibilities),
            token=self.token,
        )

    @property
    def ambiguity(self):
        return len(self.possibilities)

    @property
    def ambiguities(self):
        """
        Total ambiguities in the sub-tree.
        Keep cache of visited nodes to prevent double counting.
        """
        if self._ambiguities is None:
            visited = set()

            def iterator(node):
                def iter_non_visited(n, collection):
                    for i in collection:
                        if id(i) not in visited:
                            visited.add(id(i))
                            yield i

                if isinstance(node, Parent):
                    return iter_non_visited(node, node.possibilities)
                elif isinstance(node, NodeNonTerm):
                    return iter_non_visited(node, node.children)
                else:
                    return iter([])

            def calculate(node, subresults, _):
                amb = 0
                if isinstance(node, Parent) and len(node.possibilities) > 1:
                    amb = 1
                return sum(subresults) + amb

            self._ambiguities = visitor(
                self, iterator, calculate, memoize=True, check_cycle=True
            )
            del visited

        return self._ambiguities

    @property
    def solutions(self):
        "Total number of trees/solutions."
        if self._solutions is None:

            def iterator(node):
                if isinstance(node, Parent):
                    return iter(node.possibilities)
                elif isinstance(node, NodeNonTerm):
                    return iter(node.children)
                else:
                    return iter([])

            def calculate(node, subresults, _):
                if isinstance(node, Parent):
                    return sum(subresults)
                else:
                    return reduce(lambda x, y: x * y, subresults, 1)

            self._solutions = visitor(
                self, iterator, calculate, memoize=True, check_cycle=True
            )

        return self._solutions

    @property
    def id(self):
        return f"{self.head.id}->{self.root.id}"

    @property
    def layout_content(self):
        if self._layout_content is not None:
            return self._layout_content
        return self.head.layout_content

    @property
    def layout_content_ahead(self):
        return self.head.layout_content_ahead

    @property
    def token_ahead(self):
        return self.head.token_ahead

    def __eq__(self, other):
        return self.id == other.id

    def __hash__(self):
        return hash(self.id)

    def __str__(self):
        return (
            f"{self.root.id}({self.root.symbol})<-{self.head.id}"
            f"({self.head.symbol}) [{self.ambiguity}]"
        )

    def __repr__(self):
        return str(self)

    def __getattr__(self, attr):
        return getattr(self.head, attr)

    def __iter__(self):
        return iter(self.possibilities)

    def to_str(self):
        if len(self.possibilities) == 1:
            return to_str(self.possibilities[0])
        else:
            return to_str(self)

    def to_dot(self, positions=True):
        if len(self.possibilities) == 1:
            return to_dot(self.possibilities[0], positions)
        else:
            return to_dot(self, positions)


class GSSNode:
    """
    Graph Structured Stack node.

    A node in the Graph Structured Stack (GSS) used by the GLR parser to
    handle non-determinism. Multiple parse paths can share common prefixes
    through this structure, enabling efficient handling of ambiguous grammars.

    Attributes:
        file_name (str): Name of the file being parsed, used for error reporting.
        input_str (str): The input string being parsed.
        state (LRState): The LR automaton state this node represents.
        position (int): Current position in the input string.
        frontier (int): The frontier (shift level) when this node was created.
        extra: User-defined object for maintaining custom parsing state.
        parents (dict): Mapping of root node IDs to Parent objects, representing
            multiple paths the parser took to reach this state.
        id (str): Unique node identifier, created from frontier and state ID.
        token_ahead (Token): The lookahead token for this head, if determined.
        layout_content (str): Layout (whitespace/comments) content before this node.
        layout_content_ahead (str): Layout content after current position.
    """

    __slots__ = [
        "file_name",
        "input_str",
        "id",
        "state",
        "extra",
        "position",
        "frontier",
        "parents",
        "_ambiguity",
        "token_ahead",
        "layout_content",
        "layout_content_ahead",
        "debug",
        "_hash",
    ]

    def __init__(
        self,
        file_name: str,
        input_str,
        state: LRState,
        position: int,
        frontier: int,
        extra,
        ambiguity=None,
        token_ahead=None,
        layout_content="",
        layout_content_ahead="",
        debug=False,
    ):
        self.state = state
        self.position = position
        self.frontier = frontier
        self.input_str = input_str
        self.file_name = file_name
        self.extra = extra
        self.id = f"{frontier}_{state.state_id}"

        self._ambiguity = ambiguity

        self.token_ahead = token_ahead
        self.layout_content = layout_content
        self.layout_content_ahead = layout_content_ahead
        self.debug = debug

        # Parents keyed by root node id
        self.parents: Dict[int, Parent] = {}

    def create_link(self, parent):
        parent.head = self
        existing_parent = self.parents.get(parent.root.id)
        created = False
        if existing_parent:
            existing_parent.merge(parent)
            if self.debug:
                h_print("Extending possibilities \tof head:", self, level=1)
                h_print("  parent head:", parent.root, level=3)
        else:
            self.parents[parent.root.id] = parent
            created = True
            if self.debug:
                h_print("Creating link \tfrom head:", self, level=1)
                h_print("  to head:", parent.root, level=3)

        return created

    @property
    def ambiguity(self):
        return self._ambiguity or sum(p.ambiguity for p in self.parents.values())

    def for_token(self, token):
        """
        Create head for the given token either by returning this head if the
        token is appropriate or making a clone.

        This is used to support lexical ambiguity. Multiple tokens might be
        matched at the same state and position. In this case parser should
        fork and this is done by cloning stack head.
        """
        if self.token_ahead is None:
            self.token_ahead = token
            return self
        elif self.token_ahead == token:
            return self
        else:
            new_head = GSSNode(
                self.file_name,
                self.input_str,
                self.state,
                self.position,
                self.frontier,
                self.extra,
                token_ahead=token,
                layout_content=self.layout_content,
                layout_content_ahead=self.layout_content_ahead,
                debug=self.debug,
            )
            new_head.parents = dict(self.parents)
            return new_head

    def __eq__(self, other):
        """
        Stack nodes are equal if they are on the same position in the same
        state for the same lookahead token.
        """
        return self.id == other.id and self.token_ahead == other.token_ahead

    def __ne__(self, other):
        return not self == other

    def __str__(self):
        return _(
            "<{}:{}, id={}{}, position={}, ambiguity={}>".format(
                self.state.state_id,
                self.state.symbol,
                self.id,
                f", token ahead={self.token_ahead}"
                if self.token_ahead is not None
                else "",
                self.position,
                self.ambiguity,
            )
        )

    def __repr__(self):
        return str(self)

    def __hash__(self):
        return hash((self.id, self.token_ahead.symbol))

    @property
    def key(self):
        """Head unique identifier used for dot trace."""
        return f"head_{self.id}"

    @property
    def symbol(self):
        return self.state.symbol

    def _debug_context(
        self,
        expected_symbols=None,
    ):
        h_print("Position:", pos_to_line_col(self.input_str, self.position))
        h_print("Context:", _(position_context(self.input_str, self.position)))
        if self.layout_content:
            h_print("Layout: ", f"'{_(self.layout_content)}'", level=1)
        if expected_symbols:
            h_print("Symbols expected: ", [s.name for s in expected_symbols])
        if self.token_ahead:
            h_print("Token(s) ahead:", _(str(self.token_ahead)))


DOT_HEADER = """
    digraph parglare_trace {
    rankdir=LR
    fontname = "Bitstream Vera Sans"
    fontsize = 8
    node[
        style=filled,
        fillcolor=aliceblue
    ]
    nodesep = 0.3
    edge[dir=black,arrowtail=empty]

"""

TRACE_DOT_STEP_STYLE = 'color="red" style="dashed"'
TRACE_DOT_DROP_STYLE = 'color="orange" style="dotted"'
