from parglare.grammar import EMPTY, NonTerminal

LR_0 = 0
LR_1 = 1


def closure(state, itemset_type, first_sets=None):
    """
    For the given LRState calculates its LR(0)/LR(1) itemset closure.

    Args:
    state(LRState):
    itemset_type(int): LR_0 or LR_1
    first_sets(dict of sets): Used in LR_1 itemsets calculation.
    """
    from parglare.tables import LRItem

    items_to_process = list(state.items)
    while items_to_process:
        item = items_to_process.pop()
        symbol = item.symbol_at_position
        if not isinstance(symbol, NonTerminal):
            continue

        # Calculate follow set that is possible after the
        # non-terminal at the given position of the current
        # item.
        if itemset_type is LR_1:
            follow = _new_item_follow(item, first_sets)
        for prod in [p for p in state.grammar.productions if p.symbol == symbol]:
            new_item = LRItem(prod, 0, set(follow) if itemset_type is LR_1 else None)
            if new_item not in state.items:
                # If the item doesn't exists yet add it and reprocess it.
                state.items.append(new_item)
                items_to_process.append(new_item)
            elif itemset_type is LR_1:
                # If the item already exists, this newly created item might
                # still have a wider follows set. If so, update with the
                # current new item follows set if we are building LR_1 items
                # set.
                existing_item = next(i for i in state.items if i == new_item)
                if not follow.issubset(existing_item.follow):
                    existing_item.follow.update(follow)
                    # If there was an update in the follow set of the existing
                    # item we have to process it again as we have to update
                    # follows of all items that were created from it.
                    items_to_process.append(existing_item)


def _new_item_follow(item, first_sets):
    """
    Returns follow set of possible terminals after the item's current
    non-terminal.

    Args:
    item (LRItem): The source item which is causing the creation of the
        new item.
    first_sets(dict of sets): The dict of set of first items keyed by
        a grammar symbol.
    """

    new_follow = set()
    for s in item.production.rhs[item.position + 1 :]:
        new_follow.update(first_sets[s])
        if EMPTY not in new_follow:
            # If EMPTY can't be derived at current position then we have found
            # the whole follow set.
            break
        else:
            # If the EMPTY is possible at current position in this loop we must
            # continue to include firsts of the next grammar symbol. EMPTY
            # can't be a member of the follow set.
            new_follow.remove(EMPTY)
    else:
        # If the rest of production can be EMPTY we shall inherit all elements
        # of the source item follow set.
        new_follow.update(item.follow)

    return new_follow
