#!/bin/bash
# Freeze a copy of /repo's parglare package (HEAD, i.e. pinned commit + fix: commits) as the
# baseline implementation used ONLY to decide whether a failure seen on /repo is an instance
# of a listed known finding (same failure on the same case with the baseline code).
set -e
cd "$(dirname "$0")"
rm -rf parglare
mkdir parglare
git -C /repo archive HEAD parglare | tar -x -C .
git -C /repo rev-parse HEAD > COMMIT
find parglare -name "*.pyc" -delete
echo "baseline = $(cat COMMIT)"
