"""Regenerates MANIFEST.json from the table below (kept valid at all times)."""
import json
import os

V = os.path.dirname(os.path.dirname(os.path.abspath(__file__)))
BASE = json.load(open("/root/.vp/BASELINE.json"))["cmd"].replace("--junitxml=<file>", "").strip()

CLAIMED = {
    "C03": {
        "text": "Unbounded Coq theorems over every topologically ordered packed forest: len = number of represented trees, "
                "forest[i] = i-th tree of the enumeration (one decoder for lazy/non-lazy), IndexError exactly out of range; "
                "model tied to /repo by running it on the forests the impl returns (counts, ambiguities, every sampled index, "
                "first tree, out-of-range indices) plus an extraction-vs-vm_compute cross-check.",
        "note": "Trusted: Coq kernel, extraction (ExtrOcamlBasic), OCaml driver, forest dump and generators. Cyclic forests "
                "(LoopError clause) and duplicate alternatives are decided by the harness on impl forests, not by a theorem. "
                "Known finding KF-C03-duplicate-packing.",
        "technique": "Coq proof over a Gallina model of forest counting/indexing + differential correspondence on impl forests",
        "design": "DESIGN.md section 7, C03",
    },
    "C04": {
        "text": "Unbounded Coq theorems: table_struct (a boolean validator run on the impl's real table with the impl's own "
                "LR(0) item sets) implies that every accepting run of the nondeterministic LR machine N(T) -- hence of the LR "
                "driver model under every scanner, layout function and strategy -- returns a derivation tree rooted in the start "
                "symbol whose leaves are the shifted tokens; tree_ok is an exact derivation checker. Driver, scanner and layout "
                "models are tied to /repo by differential runs (8 option combinations, trees with positions/layout, error kind "
                "and position); exactness for deterministic tables is decided against a reference parser whose derivations are "
                "certified by tree_ok, and GLR is compared on those tables.",
        "note": "Partial: no completeness theorem for deterministic tables yet (that half is differential + certified oracle). "
                "Trusted: Coq kernel, extraction, OCaml driver, table/grammar/forest dumps, match matrix from the impl's recognizers.",
        "technique": "Coq-verified table validator + N(T) soundness theorem + LR driver simulation proof; differential correspondence",
        "design": "DESIGN.md section 7, C04",
    },
    "C01": {
        "text": "Unbounded Coq theorem C01_forest_valid: the local boolean check forest_ok, run on every forest the impl "
                "returns, implies that EVERY tree of that forest (any number, any sharing) is a derivation tree of the input "
                "(productions applied in order, root = start symbol, leaves = a tokenisation of the input with layout only "
                "between/after tokens); C01_nlr_sound: any accepting run over a table passing table_struct yields a derivation. "
                "The 'sentence => accepted' direction is decided per case against a reference recognizer whose derivations are "
                "certified by the proved-exact checker tree_ok.",
        "note": "Partial: no model of the GLR driver and no completeness theorem; cyclic forests are not validated by forest_ok. "
                "Trusted: Coq kernel, extraction, OCaml driver, forest/table dumps, match matrix from the impl's recognizers.",
        "technique": "Coq-verified forest validator on impl artefacts + N(T) soundness theorem; certified reference recognizer",
        "design": "DESIGN.md section 7, C01",
    },
    "C02": {
        "text": "The universal claim is refuted on the unchanged tree: theorem C02_refuted exhibits a certified derivation absent "
                "from the forest the impl returns (known finding KF-C02-lost-derivations). The check enumerates reference "
                "derivations, certifies each with tree_ok (proved exact) and searches it in root_trees of the impl forest (the "
                "specification tied to len/forest[i] by the C03 theorems); an absent derivation is a certified counterexample, "
                "attributed to the known finding only when the frozen baseline implementation loses exactly the same derivations.",
        "note": "No theorem about the GLR driver (not modelled); completeness of the reference enumerator is not proved. "
                "Trusted: Coq kernel, extraction, harness dumps, baseline snapshot used only to classify known-finding instances.",
        "technique": "Coq refutation witness + verified derivation checker and forest enumeration; certified differential oracle",
        "design": "DESIGN.md section 7, C02",
    },
    "C19": {
        "text": "Unbounded Coq theorems over a Gallina model of parglare's string terminals: StringRecognizer matches at p iff the "
                "text of the input at p is the terminal's text (up to case with ignore_case), for every text; the keyword "
                "recognizer \\b<text>\\b equals whole-word literal matching for every text that begins and ends with a word "
                "character; the two un-escape passes equal the conventional single-pass reading for every body without an "
                "escaped backslash; the front end (inline string -> terminal named by its text, symbol table, override check, "
                "reference resolution, keyword rewrite) succeeds and yields exactly the declarative reading (one literal "
                "terminal per distinct text, as if declared) for every grammar whose inline texts avoid '.', newline/tab and "
                "symbol names; keyword terminals sort and get finish flags exactly like string terminals. Refutation witnesses "
                "for the excluded classes. Model tied to /repo by differential runs: un-escaped values, Grammar.from_string "
                "outcome and terminals/productions, recognizer match matrices at every position, per-state action order and "
                "finish flags; plus a property-level oracle (inline vs declared twin, literal/whole-word reference scanner vs "
                "the parser's token stream).",
        "note": "Partial: the renaming step (declared twin with fresh names ~ inline form) is checked differentially, not proved; "
                "keyword texts with regex metacharacters are outside the recognizer model (regex engine not modelled). ASCII only. "
                "Known findings: KF-C19-inline-named-by-text, KF-C19-keyword-raw-regex, KF-C19-keyword-boundary-nonword-edge, "
                "KF-C19-double-unescape. Trusted: Coq kernel, extraction, OCaml driver, Python re as oracle for KEYWORD/ID regexes, "
                "generators and dumps.",
        "technique": "Coq proofs over a Gallina model of recognizers/un-escaping/front end/sort key + differential correspondence "
                     "and reference scanner",
        "design": "DESIGN.md section 7, C19",
    },
}

NOT_YET = "machinery for this property is not built yet in this commit (planned, see DESIGN.md section 12)"


def main():
    props = [json.loads(l) for l in open(os.path.join(V, "properties.jsonl"))]
    checks = []
    na = []
    for p in props:
        pid = p["id"]
        if pid in CLAIMED:
            c = CLAIMED[pid]
            checks.append({
                "property_id": pid,
                "quick_cmd": "./check %s --tier quick" % pid,
                "thorough_cmd": "./check %s --tier thorough" % pid,
                "evidence_file": "/verif/evidence/%s.json" % pid,
                "replay_cmd_template": "./check %s --replay {path}" % pid,
                "engine": "coq-model-correspondence",
                "level_claimed": {"category": "proof", "text": c["text"], "design_ref": c["design"]},
                "level_note": c["note"],
                "technique": c["technique"],
            })
        else:
            na.append({"property_id": pid, "reason": NOT_YET})
    m = {
        "version": 1,
        "setup_cmd": "./setup.sh",
        "hooks": {
            "guard": "PARGLARE_VERIF",
            "enable": "PARGLARE_VERIF=1 (and PARGLARE_VERIF_MAX_STATES=<n>) in the environment of the impl process; "
                      "no build step, the package is imported from /repo (PYTHONPATH=/repo)",
            "baseline_off_cmd": "env -u PARGLARE_VERIF -u PARGLARE_VERIF_MAX_STATES " + BASE,
            "source_commits": [],
            "add_only": True,
        },
        "engines": [{
            "name": "coq-model-correspondence",
            "path": "/verif/check",
            "serves_properties": sorted(CLAIMED),
            "kind_free_text": "Coq 8.16 development (coq/theories: Gallina models, verified validators, theorems in "
                              "Properties/Cxx.v) + extracted OCaml model run against /repo by the Python harness",
        }],
        "checks": checks,
        "not_applicable": na,
        "notes": "Every check rebuilds Gen/Consts.v from /repo, re-makes the Coq project, re-checks Properties/<id>.v "
                 "(Print Assumptions), then runs the correspondence/validators against /repo. VERIF_SEED and VERIF_TIER are honoured.",
    }
    open(os.path.join(V, "MANIFEST.json"), "w").write(json.dumps(m, indent=1) + "\n")


if __name__ == "__main__":
    main()
