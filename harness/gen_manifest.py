"""Regenerates MANIFEST.json from the table below (kept valid at all times)."""
import json
import os

V = os.path.dirname(os.path.dirname(os.path.abspath(__file__)))
BASE = json.load(open("/root/.vp/BASELINE.json"))["cmd"].replace("--junitxml=<file>", "").strip()

CLAIMED = {
    "C03": {
        "text": "Unbounded Coq theorems over every topologically ordered packed forest: len = number of represented trees, "
                "forest[i] = i-th tree of the enumeration (one decoder for lazy/non-lazy), IndexError exactly out of range; "
                "model tied to /repo by running it on the forests the impl returns (counts, ambiguities, every sampled index, "
                "first tree, out-of-range indices) plus an extraction-vs-vm_compute cross-check.",
        "note": "Trusted: Coq kernel, extraction (ExtrOcamlBasic), OCaml driver, forest dump and generators. Cyclic forests "
                "(LoopError clause) and duplicate alternatives are decided by the harness on impl forests, not by a theorem. "
                "Known finding KF-C03-duplicate-packing.",
        "technique": "Coq proof over a Gallina model of forest counting/indexing + differential correspondence on impl forests",
        "design": "DESIGN.md section 7, C03",
    },
    "C04": {
        "text": "Unbounded Coq theorems: table_struct (a boolean validator run on the impl's real table with the impl's own "
                "LR(0) item sets) implies that every accepting run of the nondeterministic LR machine N(T) -- hence of the LR "
                "driver model under every scanner, layout function and strategy -- returns a derivation tree rooted in the start "
                "symbol whose leaves are the shifted tokens; tree_ok is an exact derivation checker. Driver, scanner and layout "
                "models are tied to /repo by differential runs (8 option combinations, trees with positions/layout, error kind "
                "and position); exactness for deterministic tables is decided against a reference parser whose derivations are "
                "certified by tree_ok, and GLR is compared on those tables.",
        "note": "Partial: no completeness theorem for deterministic tables yet (that half is differential + certified oracle). "
                "Trusted: Coq kernel, extraction, OCaml driver, table/grammar/forest dumps, match matrix from the impl's recognizers.",
        "technique": "Coq-verified table validator + N(T) soundness theorem + LR driver simulation proof; differential correspondence",
        "design": "DESIGN.md section 7, C04",
    },
    "C09": {
        "text": "Unbounded Coq theorems over a Gallina model of the action machinery (on-the-fly shift/reduce calls inside the LR "
                "driver, Parser.call_actions, built-in actions, prod_symbol_id enumeration, assignment dicts, action resolution): "
                "for every grammar, table, scanner, action environment, pure user actions, input and fuel the on-the-fly run is the "
                "homomorphic image of the build_tree run (same acceptance/error/position, result = evaluation of the returned tree) "
                "and that evaluation equals call_actions on the tree (same value or both raise); a user action is called with the "
                "sub-results of exactly its production's right-hand side in order, the entry of a per-alternative list at the "
                "production's position among the rule's alternatives, and every named match bound to the sub-result where it is "
                "written; no actions => nested list; + * ? and separator helper rules => flat list / [] / None for every derivation "
                "of the helper rule. Tied to /repo by differential runs of the extracted model: three routes on generated grammars "
                "x action tables x inputs, resolved actions, prod_symbol_id, assignment dicts, every built-in callable on random "
                "arguments; plus property oracles on the impl alone (route equality, recorded arguments vs the written grammar, "
                "sugar results vs element results).",
        "note": "Partial: the GLR route has a theorem only for decoding forest[0] of a single-tree forest that contains the LR "
                "derivation (no GLR driver model); GLR results are compared differentially. Exceptions of actions are modelled as "
                "poisoned results (exact for accepted sentences). Refuted as written: collect drops None elements "
                "(KF-C09-collect-drops-none); GLR/LR give different spans to empty reductions before layout "
                "(KF-C09-glr-empty-span). Trusted: Coq kernel, extraction, OCaml driver, dumps and generators.",
        "technique": "Coq simulation proof (value stack = image of tree stack) + evaluator equivalence + differential correspondence",
        "design": "DESIGN.md section 7, C09",
    },
}

NOT_YET = "machinery for this property is not built yet in this commit (planned, see DESIGN.md section 12)"


def main():
    props = [json.loads(l) for l in open(os.path.join(V, "properties.jsonl"))]
    checks = []
    na = []
    for p in props:
        pid = p["id"]
        if pid in CLAIMED:
            c = CLAIMED[pid]
            checks.append({
                "property_id": pid,
                "quick_cmd": "./check %s --tier quick" % pid,
                "thorough_cmd": "./check %s --tier thorough" % pid,
                "evidence_file": "/verif/evidence/%s.json" % pid,
                "replay_cmd_template": "./check %s --replay {path}" % pid,
                "engine": "coq-model-correspondence",
                "level_claimed": {"category": "proof", "text": c["text"], "design_ref": c["design"]},
                "level_note": c["note"],
                "technique": c["technique"],
            })
        else:
            na.append({"property_id": pid, "reason": NOT_YET})
    m = {
        "version": 1,
        "setup_cmd": "./setup.sh",
        "hooks": {
            "guard": "PARGLARE_VERIF",
            "enable": "PARGLARE_VERIF=1 (and PARGLARE_VERIF_MAX_STATES=<n>) in the environment of the impl process; "
                      "no build step, the package is imported from /repo (PYTHONPATH=/repo)",
            "baseline_off_cmd": "env -u PARGLARE_VERIF -u PARGLARE_VERIF_MAX_STATES " + BASE,
            "source_commits": [],
            "add_only": True,
        },
        "engines": [{
            "name": "coq-model-correspondence",
            "path": "/verif/check",
            "serves_properties": sorted(CLAIMED),
            "kind_free_text": "Coq 8.16 development (coq/theories: Gallina models, verified validators, theorems in "
                              "Properties/Cxx.v) + extracted OCaml model run against /repo by the Python harness",
        }],
        "checks": checks,
        "not_applicable": na,
        "notes": "Every check rebuilds Gen/Consts.v from /repo, re-makes the Coq project, re-checks Properties/<id>.v "
                 "(Print Assumptions), then runs the correspondence/validators against /repo. VERIF_SEED and VERIF_TIER are honoured.",
    }
    open(os.path.join(V, "MANIFEST.json"), "w").write(json.dumps(m, indent=1) + "\n")


if __name__ == "__main__":
    main()
