"""Regenerates MANIFEST.json from the table below (kept valid at all times)."""
import json
import os

V = os.path.dirname(os.path.dirname(os.path.abspath(__file__)))
BASE = json.load(open("/root/.vp/BASELINE.json"))["cmd"].replace("--junitxml=<file>", "").strip()

CLAIMED = {
    "C03": {
        "text": "Unbounded Coq theorems over every topologically ordered packed forest: len = number of represented trees, "
                "forest[i] = i-th tree of the enumeration (one decoder for lazy/non-lazy), IndexError exactly out of range; "
                "model tied to /repo by running it on the forests the impl returns (counts, ambiguities, every sampled index, "
                "first tree, out-of-range indices) plus an extraction-vs-vm_compute cross-check.",
        "note": "Trusted: Coq kernel, extraction (ExtrOcamlBasic), OCaml driver, forest dump and generators. Cyclic forests "
                "(LoopError clause) and duplicate alternatives are decided by the harness on impl forests, not by a theorem. "
                "Known finding KF-C03-duplicate-packing.",
        "technique": "Coq proof over a Gallina model of forest counting/indexing + differential correspondence on impl forests",
        "design": "DESIGN.md section 7, C03",
    },
    "C04": {
        "text": "Unbounded Coq theorems: table_struct (a boolean validator run on the impl's real table with the impl's own "
                "LR(0) item sets) implies that every accepting run of the nondeterministic LR machine N(T) -- hence of the LR "
                "driver model under every scanner, layout function and strategy -- returns a derivation tree rooted in the start "
                "symbol whose leaves are the shifted tokens; tree_ok is an exact derivation checker. Driver, scanner and layout "
                "models are tied to /repo by differential runs (8 option combinations, trees with positions/layout, error kind "
                "and position); exactness for deterministic tables is decided against a reference parser whose derivations are "
                "certified by tree_ok, and GLR is compared on those tables.",
        "note": "Partial: no completeness theorem for deterministic tables yet (that half is differential + certified oracle). "
                "Trusted: Coq kernel, extraction, OCaml driver, table/grammar/forest dumps, match matrix from the impl's recognizers.",
        "technique": "Coq-verified table validator + N(T) soundness theorem + LR driver simulation proof; differential correspondence",
        "design": "DESIGN.md section 7, C04",
    },
    "C20": {
        "text": "Unbounded Coq theorems over a Gallina model of the import machinery (registry, first-import-path names, "
                "root-relative local-first resolution, override validation, collection): for every directory (any number of "
                "files, diamonds, cycles, aliases) a successful load registers each file once under a path that leads to it, "
                "and -- without override rules -- the impl's resolution of a reference written in any loaded file finds exactly "
                "the symbol the reference denotes from that file; overrides in the root reach every user for tree-shaped imports "
                "and are refuted for diamonds (orphan non-terminal, partial replacement), plus two more refutations (inline "
                "terminals are unqualified; override validation through a cycle crashes). The model is tied to /repo by "
                "differential runs of Grammar.from_file on generated directories (outcome, registry, nonterminals/terminals keys "
                "and order, productions with resolved right-hand sides); the property itself is checked by an independent "
                "denotation/flatten oracle: every right-hand-side element is the denoted symbol, and modular vs flattened "
                "grammar agree on acceptance and trees for generated inputs.",
        "note": "Partial: equality of the collected grammar with the flattened grammar (C20_iso) is not a theorem, it is the "
                "flatten oracle (tests). Known findings KF-C20-override-misses-users, KF-C20-inline-terminal-unqualified, "
                "KF-C20-cycle-override-crash. Trusted: Coq kernel, extraction, OCaml driver, generator/printer of .pg files, "
                "Python specification of denotation and flattening, grammar dump.",
        "technique": "Coq proof over a Gallina model of import resolution + differential correspondence + flatten oracle",
        "design": "DESIGN.md section 7, C20",
    },
}

NOT_YET = "machinery for this property is not built yet in this commit (planned, see DESIGN.md section 12)"


def main():
    props = [json.loads(l) for l in open(os.path.join(V, "properties.jsonl"))]
    checks = []
    na = []
    for p in props:
        pid = p["id"]
        if pid in CLAIMED:
            c = CLAIMED[pid]
            checks.append({
                "property_id": pid,
                "quick_cmd": "./check %s --tier quick" % pid,
                "thorough_cmd": "./check %s --tier thorough" % pid,
                "evidence_file": "/verif/evidence/%s.json" % pid,
                "replay_cmd_template": "./check %s --replay {path}" % pid,
                "engine": "coq-model-correspondence",
                "level_claimed": {"category": "proof", "text": c["text"], "design_ref": c["design"]},
                "level_note": c["note"],
                "technique": c["technique"],
            })
        else:
            na.append({"property_id": pid, "reason": NOT_YET})
    m = {
        "version": 1,
        "setup_cmd": "./setup.sh",
        "hooks": {
            "guard": "PARGLARE_VERIF",
            "enable": "PARGLARE_VERIF=1 (and PARGLARE_VERIF_MAX_STATES=<n>) in the environment of the impl process; "
                      "no build step, the package is imported from /repo (PYTHONPATH=/repo)",
            "baseline_off_cmd": "env -u PARGLARE_VERIF -u PARGLARE_VERIF_MAX_STATES " + BASE,
            "source_commits": [],
            "add_only": True,
        },
        "engines": [{
            "name": "coq-model-correspondence",
            "path": "/verif/check",
            "serves_properties": sorted(CLAIMED),
            "kind_free_text": "Coq 8.16 development (coq/theories: Gallina models, verified validators, theorems in "
                              "Properties/Cxx.v) + extracted OCaml model run against /repo by the Python harness",
        }],
        "checks": checks,
        "not_applicable": na,
        "notes": "Every check rebuilds Gen/Consts.v from /repo, re-makes the Coq project, re-checks Properties/<id>.v "
                 "(Print Assumptions), then runs the correspondence/validators against /repo. VERIF_SEED and VERIF_TIER are honoured.",
    }
    open(os.path.join(V, "MANIFEST.json"), "w").write(json.dumps(m, indent=1) + "\n")


if __name__ == "__main__":
    main()
