"""Regenerates MANIFEST.json from the table below (kept valid at all times)."""
import json
import os

V = os.path.dirname(os.path.dirname(os.path.abspath(__file__)))
BASE = json.load(open("/root/.vp/BASELINE.json"))["cmd"].replace("--junitxml=<file>", "").strip()

CLAIMED = {}
for _f in sorted(os.listdir(os.path.join(V, "harness", "manifest"))):
    if _f.endswith(".json"):
        CLAIMED[_f[:-5]] = json.load(open(os.path.join(V, "harness", "manifest", _f)))

NOT_YET = "machinery for this property is not built yet in this commit (planned, see DESIGN.md section 12)"


def main():
    props = [json.loads(l) for l in open(os.path.join(V, "properties.jsonl"))]
    checks = []
    na = []
    for p in props:
        pid = p["id"]
        if pid in CLAIMED:
            c = CLAIMED[pid]
            checks.append({
                "property_id": pid,
                "quick_cmd": "./check %s --tier quick" % pid,
                "thorough_cmd": "./check %s --tier thorough" % pid,
                "evidence_file": "/verif/evidence/%s.json" % pid,
                "replay_cmd_template": "./check %s --replay {path}" % pid,
                "engine": "coq-model-correspondence",
                "level_claimed": {"category": "proof", "text": c["text"], "design_ref": c["design"]},
                "level_note": c["note"],
                "technique": c["technique"],
            })
        else:
            na.append({"property_id": pid, "reason": NOT_YET})
    m = {
        "version": 1,
        "setup_cmd": "./setup.sh",
        "hooks": {
            "guard": "PARGLARE_VERIF",
            "enable": "PARGLARE_VERIF=1 (and PARGLARE_VERIF_MAX_STATES=<n>) in the environment of the impl process; "
                      "no build step, the package is imported from /repo (PYTHONPATH=/repo)",
            "baseline_off_cmd": BASE.replace("cd /repo && ", "cd /repo && env -u PARGLARE_VERIF -u PARGLARE_VERIF_MAX_STATES "),
            "source_commits": ["1024b290d2f70b05b8beabc80f541f2bb5ddb6be"],
            "add_only": True,
        },
        "engines": [{
            "name": "coq-model-correspondence",
            "path": "/verif/check",
            "serves_properties": sorted(CLAIMED),
            "kind_free_text": "Coq 8.16 development (coq/theories: Gallina models, verified validators, theorems in "
                              "Properties/Cxx.v) + extracted OCaml model run against /repo by the Python harness",
        }],
        "checks": checks,
        "not_applicable": na,
        "notes": "Every check rebuilds Gen/Consts.v from /repo, re-makes the Coq project, re-checks Properties/<id>.v "
                 "(Print Assumptions), then runs the correspondence/validators against /repo. VERIF_SEED and VERIF_TIER are honoured.",
    }
    open(os.path.join(V, "MANIFEST.json"), "w").write(json.dumps(m, indent=1) + "\n")


if __name__ == "__main__":
    main()
