"""C13 -- Repetition, optional, separator, group and greedy syntax mean what the docs say.

Pipeline per generated PG AST (rules with ?, *, +, !, [sep], nested groups):
  1. model (extracted Coq): model_expand (what the impl builds), doc_expand (documented
     expansion, fresh helper per distinct use), no_collision, collision_kind
  2. impl: text -> Grammar.from_string -> dump of the live Grammar (productions, flags,
     resolved actions) ; compared with model_expand (correspondence, exact) and validated
     against doc_expand with the Coq-verified iso_check (validator)
  3. property oracle on the impl: sugared grammar vs the documented plain-BNF expansion
     (printed from doc_expand with fresh names), LR (prefer_shifts off/on) and GLR, all
     short inputs + sampled sentences: construction outcome, accept/reject and results
     (the expansion's trees are valued by the Coq [eval] with the built-in actions).
"""
import itertools
import json
import multiprocessing as mp

from lib import common

LEVEL = "proof"
ASSUMPTIONS = [
    "theorems (Properties/C13.v) are about the Gallina model Model/Sugar.v: expand in name mode (the impl) equals "
    "expand in struct mode (documented expansion, fresh helper per distinct use) for every AST satisfying "
    "no_collision; iso_check is a sound validator (isomorphic grammars have the same derivation trees and values); "
    "helper rules x_1 / x_0 / x_opt / separator variants have exactly the documented language and list/None values",
    "the model is tied to /repo by comparing model_expand with the dump of the live Grammar object (exact, in order) "
    "and by running iso_check on the impl's own dump; the PG-language concrete parser is exercised, not modelled",
    "the sugared-vs-expanded comparison runs both grammars through the impl's own Parser/GLRParser: it is relative "
    "to the parser (C01/C04) and covers inputs up to a length bound plus sampled sentences",
    "greedy: no theorem (T3); language and maximal-munch are decided on the impl against the expansion's forest",
    "imports, assignments (name=, name?=) and rule-level meta-data are not generated",
]

M_ONE, M_OPT, M_STAR, M_PLUS = 0, 1, 2, 3
OPS = {0: "", 1: "?", 2: "*", 3: "+"}
DEFMETA = (0, 10, False, False)
GLR_CAP = 40


# ------------------------------------------------------------------ AST helpers
def R(name, m=0, g=False, sep=None):
    return ("ref", name, m, g, sep)


def G(alts, m=0, g=False, sep=None):
    return ("grp", [(a, DEFMETA) if not (isinstance(a, tuple) and len(a) == 2 and isinstance(a[1], tuple)
                                         and len(a[1]) == 4) else a for a in alts], m, g, sep)


def rule(name, *alts):
    return (name, [(a, DEFMETA) if not (isinstance(a, tuple) and len(a) == 2 and isinstance(a[1], tuple)
                                        and len(a[1]) == 4) else a for a in alts])


def mk_ast(rules, decl, inline=()):
    """decl: [(terminal name, char)], inline: [char]"""
    return {"rules": list(rules), "decl": list(decl), "inline": list(inline)}


def name_sx(n):
    return [ord(c) for c in n]


def elem_sx(e):
    sep = [name_sx(e[4])] if e[4] else []
    if e[0] == "ref":
        return [0, name_sx(e[1]), e[2], e[3], sep]
    return [1, alts_sx(e[1]), e[2], e[3], sep]


def alts_sx(alts):
    return [[[elem_sx(e) for e in es], [m[0], m[1], m[2], m[3]]] for es, m in alts]


def ast_sx(a):
    terms = [n for n, _ in a["decl"]] + list(a["inline"])
    return [[[name_sx(n), alts_sx(al)] for n, al in a["rules"]], [name_sx(t) for t in terms]]


def meta_text(m):
    parts = []
    if m[0] == 1:
        parts.append("left")
    elif m[0] == 2:
        parts.append("right")
    if m[1] != 10:
        parts.append(str(m[1]))
    if m[2]:
        parts.append("nops")
    if m[3]:
        parts.append("nopse")
    return (" {%s}" % ", ".join(parts)) if parts else ""


def elem_text(e, inline, greedy=True):
    if e[0] == "ref":
        base = ("'%s'" % e[1]) if e[1] in inline else e[1]
    else:
        base = "(" + alts_text(e[1], inline, greedy) + ")"
    op = OPS[e[2]]
    if op and e[3] and greedy:
        op += "!"
    if e[4]:
        op += "[%s]" % e[4]
    return base + op


def alts_text(alts, inline, greedy=True):
    return " | ".join((" ".join(elem_text(e, inline, greedy) for e in es) if es else "EMPTY") + meta_text(m)
                      for es, m in alts)


def terms_text(a):
    if not a["decl"]:
        return ""
    return "\nterminals\n" + "\n".join("%s: '%s';" % (n, c) for n, c in a["decl"]) + "\n"


def ast_text(a, greedy=True):
    inline = set(a["inline"])
    return "\n".join("%s: %s;" % (n, alts_text(al, inline, greedy)) for n, al in a["rules"]) + terms_text(a)


def has_greedy(a):
    def ge(e):
        if e[2] and e[3]:
            return True
        return e[0] == "grp" and any(ge(x) for es, _ in e[1] for x in es)
    return any(ge(e) for _, al in a["rules"] for es, _ in al for e in es)


def greedy_elem_starts_empty(a):
    """some greedy repetition (x*! / x+!) has a group element one of whose alternatives begins with an
    optional or starred item: the element can start with an empty match"""
    def ge(e):
        if e[0] == "grp":
            if e[2] in (2, 3) and e[3]:
                for es, _ in e[1]:
                    if es and es[0][2] in (1, 2):
                        return True
            return any(ge(x) for es, _ in e[1] for x in es)
        return False
    return any(ge(e) for _, al in a["rules"] for es, _ in al for e in es)


def has_assoc_meta(a):
    """an explicit associativity or priority on some alternative (group alternatives included)"""
    def gm(alts):
        for es, m in alts:
            if m[0] != 0 or m[1] != 10:
                return True
            for e in es:
                if e[0] == "grp" and gm(e[1]):
                    return True
        return False
    return any(gm(al) for _, al in a["rules"])


def count_ops(a):
    c = {"opt": 0, "star": 0, "plus": 0, "sep": 0, "greedy": 0, "group": 0, "nested_group": 0}

    def ge(e, depth):
        if e[2] == 1:
            c["opt"] += 1
        elif e[2] == 2:
            c["star"] += 1
        elif e[2] == 3:
            c["plus"] += 1
        if e[4]:
            c["sep"] += 1
        if e[2] and e[3]:
            c["greedy"] += 1
        if e[0] == "grp":
            c["group"] += 1
            if depth:
                c["nested_group"] += 1
            for es, _ in e[1]:
                for x in es:
                    ge(x, depth + 1)
    for _, al in a["rules"]:
        for es, _ in al:
            for e in es:
                ge(e, 0)
    return c


# ------------------------------------------------------------------ generators
CURATED = [
    ("collide_a_1", mk_ast([rule("S", [R("a", 3), R("a_1")]), rule("a_1", [R("x")])], [("a", "a")], ["x"])),
    ("collide_group", mk_ast([rule("S", [G([[R("a"), R("b")]]), R("S_g1")]), rule("S_g1", [R("q")])],
                             [("a", "a"), ("b", "b")], ["q"])),
    ("share_star_ng_g", mk_ast([rule("S", [R("a", 2), R("a", 2, True)])], [("a", "a")])),
    ("share_star_g_ng", mk_ast([rule("S", [R("a", 2, True), R("a", 2)])], [("a", "a")])),
    ("plus_g_twice", mk_ast([rule("S", [R("a", 3, True), R("b"), R("a", 3, True)])], [("a", "a"), ("b", "b")])),
    ("plus_g_once", mk_ast([rule("S", [R("a", 3, True), R("b")])], [("a", "a"), ("b", "b")])),
    ("opt_g", mk_ast([rule("S", [R("a", 1, True), R("a", 1)])], [("a", "a")])),
    ("possessive", mk_ast([rule("S", [R("a", 2, True), R("a")])], [("a", "a")])),
    ("possessive_grp", mk_ast([rule("S", [G([[R("a"), R("b")]], 2, True), R("a"), R("b"), R("c")])],
                              [("a", "a"), ("b", "b"), ("c", "c")])),
    ("helper_helper", mk_ast([rule("S", [R("a_1", 1), R("a", 3, False, "opt")]), rule("a_1", [R("q")])],
                             [("a", "a"), ("opt", "o")], ["q"])),
    ("doc_groups", mk_ast([rule("S", [R("a"), G([([R("b", 2), R("a")], (1, 10, False, False)), [R("b")]])])],
                          [("a", "a"), ("b", "b")])),
    ("doc_complex", mk_ast([rule("S", [G([[R("b"), R("c")]], 2, False, "comma"),
                                       G([[R("a", 3), G([[R("b")], [R("c")]], 2)]], 3, False, "comma")])],
                           [("a", "a"), ("b", "b"), ("c", "c"), ("comma", ",")])),
    ("doc_star", mk_ast([rule("S", [R("2"), R("c", 2)])], [("c", "c")], ["2"])),
    ("doc_plus_sep", mk_ast([rule("S", [R("a", 3, False, "comma")])], [("a", "a"), ("comma", ",")])),
    ("star_then_plus", mk_ast([rule("S", [R("a", 2), R("b"), R("a", 3)])], [("a", "a"), ("b", "b")])),
    ("plus_then_star", mk_ast([rule("S", [R("a", 3), R("b"), R("a", 2)])], [("a", "a"), ("b", "b")])),
    ("two_rules_same_name", mk_ast([rule("S", [G([[R("a")]]), R("A")]), rule("A", [G([[R("b")]], 3)]),
                                    rule("S", [G([[R("b"), R("a")]], 1)])], [("a", "a"), ("b", "b")])),
    ("sep_is_rule", mk_ast([rule("S", [R("a", 3, False, "Sep")]), rule("Sep", [R("b")], [R("c")])],
                           [("a", "a"), ("b", "b"), ("c", "c")])),
    ("inline_ops", mk_ast([rule("S", [R("x", 3), R("y", 1), R("x", 2)])], [], ["x", "y"])),
    ("unknown_sym", mk_ast([rule("S", [R("zz", 3)])], [("a", "a")])),
    ("opt_with_sep", mk_ast([rule("S", [R("a", 1, False, "b")])], [("a", "a"), ("b", "b")])),
    ("rule_is_terminal", mk_ast([rule("S", [R("a")]), rule("a", [R("b")])], [("a", "a"), ("b", "b")])),
    ("greedy_rr", mk_ast([rule("S", [G([[R("a", 1, True), R("x", 3)]], 2, True), R("x", 1), R("x")])],
                         [("a", "a")], ["x"])),
    ("shadow_g", mk_ast([rule("S", [R("a", 3, True), R("a_1_g")]), rule("a_1_g", [R("b")])],
                        [("a", "a"), ("b", "b")])),
]


def helper_names(a):
    """generated names a grammar will use (python mirror used only to AIM the collision
    family; the verdicts use the model)"""
    out = []

    def ge(e, rname, gi):
        base = e[1] if e[0] == "ref" else None
        if e[0] == "grp":
            for es, _ in e[1]:
                for x in es:
                    ge(x, rname, gi)
            gi[0] += 1
            out.append("%s_g%d" % (rname, gi[0]))
            base = "%s_g%d" % (rname, gi[0])   # approximate numbering
        if e[2]:
            suf = {1: "opt", 2: "0", 3: "1"}[e[2]]
            out.append("%s_%s%s" % (base, suf, ("_" + e[4]) if e[4] else ""))
            if e[2] == 2:
                out.append("%s_1%s" % (base, ("_" + e[4]) if e[4] else ""))
    for n, al in a["rules"]:
        gi = [0]
        for es, _ in al:
            for e in es:
                ge(e, n, gi)
    return out


def gen_clean(rng, greedy=False, p_group=0.22, p_op=0.55):
    n_nt = rng.randint(1, 3)
    nts = ["S", "A", "B"][:n_nt]
    decl = [("a", "a"), ("b", "b"), ("c", ",")]
    inline = ["x"] if rng.random() < 0.4 else []
    use_sep_rule = rng.random() < 0.2
    seps = ["c"]
    rules = []
    tnames = ["a", "b"] + inline
    nullable_nt = {}

    def gen_elem(i, depth):
        """returns (elem, nullable)"""
        if depth < 2 and rng.random() < p_group:
            n_alt = rng.choice([1, 1, 2])
            alts = []
            nul = False
            for _ in range(n_alt):
                es, nl = gen_seq(i, depth + 1, rng.randint(1, 2))
                meta = DEFMETA if rng.random() < 0.9 else rng.choice([(1, 10, False, False), (0, 11, False, False),
                                                                       (2, 10, False, False)])
                alts.append((es, meta))
                nul = nul or nl
            base = ("grp", alts)
            base_null = nul
        else:
            later = nts[i + 1:]
            if later and rng.random() < 0.35:
                n = rng.choice(later)
                base = ("ref", n)
                base_null = None      # resolved later: treat as unknown -> conservative
            else:
                base = ("ref", rng.choice(tnames))
                base_null = False
        m = 0
        if rng.random() < p_op:
            m = rng.choice([1, 2, 3])
        if base_null is None:
            # a reference to a later rule: only '?' or no operator unless we know it is not nullable
            if m in (2, 3):
                m = rng.choice([0, 1])
            base_null = True
        force_sep = False
        if base_null and m in (2, 3):
            # a nullable element repeated: unambiguous only as one-or-more with a separator
            # (every empty match is then a separate element of the resulting list)
            if base[0] == "grp" and rng.random() < 0.6:
                m = M_PLUS
                force_sep = True
            else:
                m = 1
        g = bool(m) and greedy and rng.random() < 0.5
        sep = None
        if m in (2, 3) and (force_sep or rng.random() < 0.3):
            sep = rng.choice(seps)
        nul = base_null or m in (1, 2)
        return (base[0], base[1], m, g, sep), nul

    def gen_seq(i, depth, k):
        es = []
        nul = True
        for _ in range(k):
            e, nl = gen_elem(i, depth)
            es.append(e)
            nul = nul and nl
        return es, nul

    if use_sep_rule:
        seps.append("Sep")
    for i, n in enumerate(nts):
        alts = []
        for _ in range(rng.choice([1, 1, 2])):
            es, _ = gen_seq(i, 0, rng.randint(1, 3))
            meta = DEFMETA if rng.random() < 0.92 else rng.choice([(1, 10, False, False), (0, 12, False, False),
                                                                   (0, 10, True, False), (0, 10, False, True)])
            alts.append((es, meta))
        if rng.random() < 0.08:
            alts.append(([], DEFMETA))
        rules.append((n, alts))
    # every later rule is referenced
    for i in range(1, n_nt):
        txt = json.dumps(rules[:i])
        if '"%s"' % nts[i] not in txt:
            rules[i - 1][1][0][0].append(("ref", nts[i], 0, False, None))
    if use_sep_rule:
        rules.append(("Sep", [([("ref", "c", 0, False, None)], DEFMETA), ([("ref", "b", 0, False, None)], DEFMETA)]))
    if rng.random() < 0.1 and n_nt >= 1:
        # a second rule with the name of the first (group counter continues)
        rules.append(("S", [([("grp", [([("ref", "b", 0, False, None)], DEFMETA)], rng.choice([0, 1, 3]), False, None),
                              ("ref", "b", 0, False, None)], DEFMETA)]))
    return mk_ast(rules, decl, inline)


def gen_collision(rng):
    a = gen_clean(rng, greedy=False, p_op=0.7)
    names = helper_names(a)
    if not names:
        return a, False
    victim = rng.choice(names)
    kind = rng.random()
    existing = {n for n, _ in a["rules"]} | {n for n, _ in a["decl"]}
    if victim in existing:
        return a, False
    if kind < 0.6:
        a["rules"].append((victim, [([("ref", "q", 0, False, None)], DEFMETA)]))
        if "q" not in a["inline"]:
            a["inline"].append("q")
        if rng.random() < 0.6:
            a["rules"][0][1][0][0].append(("ref", victim, 0, False, None))
    else:
        a["decl"].append((victim, "q"))
        if rng.random() < 0.5:
            a["rules"][0][1][0][0].append(("ref", victim, 0, False, None))
    return a, True


def gen_malformed(rng):
    a = gen_clean(rng)
    k = rng.randrange(3)
    if k == 0:
        a["rules"][0][1][0][0].append(("ref", "zz", rng.choice([0, 1, 2, 3]), False, None))
    elif k == 1:
        a["rules"][0][1][0][0].append(("ref", "a", 1, False, "c"))
    else:
        a["rules"].append(("b", [([("ref", "a", 0, False, None)], DEFMETA)]))
    return a


def gen_cases(ctx):
    rng = ctx.rng
    quick = ctx.quick()
    cases = [(n, "curated", a) for n, a in CURATED]
    n_clean, n_coll, n_greedy, n_mal = (55, 25, 32, 8) if quick else (1400, 500, 700, 100)
    for i in range(n_clean):
        cases.append(("clean%d" % i, "clean", gen_clean(rng)))
    for i in range(n_coll):
        a, aimed = gen_collision(rng)
        cases.append(("coll%d" % i, "collision", a))
    for i in range(n_greedy):
        cases.append(("greedy%d" % i, "greedy", gen_clean(rng, greedy=True, p_op=0.7)))
    for i in range(n_mal):
        cases.append(("mal%d" % i, "malformed", gen_malformed(rng)))
    return cases


# ------------------------------------------------------------------ expansion -> text
def dsym_key(d):
    return json.dumps(d[0])


def dsym_name(d):
    return "".join(chr(c) for c in d[1])


def expansion_text(exp, a):
    """print a doc expansion (model output) as a plain BNF grammar with fresh helper names.
    Returns (text, names per production, acts, greedy_lhs flags)."""
    prods = exp[0]
    fresh = {}
    inline = set(a["inline"])

    def nm(d):
        s = d[0]
        if s[0] == 0:
            n = "".join(chr(c) for c in s[1])
            return ("'%s'" % n) if n in inline else n
        k = dsym_key(d)
        if k not in fresh:
            fresh[k] = "Z%s%d" % ("g" if s[0] == 1 else "h", len(fresh) + 1)
        return fresh[k]

    lines = []
    acts = [0]
    greedy = [False]
    lhs_names = [None]
    for p in prods:
        lhs, rhs, assoc, prior, nops, nopse, act = p
        lines.append("%s: %s%s;" % (nm(lhs), " ".join(nm(x) for x in rhs) if rhs else "EMPTY",
                                    meta_text((assoc, prior, bool(nops), bool(nopse)))))
        acts.append(act)
        greedy.append(lhs[0][0] == 2 and bool(lhs[0][4]))
        lhs_names.append(nm(lhs))
    return "\n".join(lines) + terms_text(a), acts, greedy, lhs_names


# ------------------------------------------------------------------ impl side
def _act_tags(symbol):
    import parglare.actions as A
    table = {id(A.collect_first): 1, id(A.pass_nochange): 2, id(A.collect_first_sep): 3,
             id(A.pass_single): 4, id(A.pass_none): 5}
    act = symbol.action

    def one(f):
        if f is None:
            return 0
        if id(f) in table:
            return table[id(f)]
        try:
            if f(None, []) == [] and f(None, ["q", "r"]) == "q":
                return 6
        except BaseException:  # noqa
            pass
        return 99
    if isinstance(act, list):
        return [one(f) for f in act]
    return one(act)


def dump_grammar(g):
    from parglare.grammar import EMPTY
    prods = []
    for p in g.productions[1:]:
        rhs = [s.name for s in list.__iter__(p.rhs) if s is not EMPTY and s.name != "EMPTY"]
        tags = _act_tags(p.symbol)
        if isinstance(tags, list):
            tag = tags[p.prod_symbol_id] if p.prod_symbol_id < len(tags) else 98
        else:
            tag = tags
        prods.append([p.symbol.name, rhs, p.assoc, p.prior, bool(p.nops), bool(p.nopse), tag])
    nts = [n for n in g.nonterminals if n != "S'"]
    return {"prods": prods, "nts": nts}


def _canon(v):
    if v is None or isinstance(v, str):
        return v
    if isinstance(v, (list, tuple)):
        return [_canon(x) for x in v]
    return "<%s>" % type(v).__name__


PARSERS = [("lr", False), ("lr_ps", True), ("glr", None)]


def _build(text, kind, ps, build_tree):
    """fresh Grammar object per parser (an interrupted construction may leave a Grammar half
    initialised); a Timeout under machine load is retried once with a generous budget"""
    from parglare import GLRParser, Grammar, Parser
    from lib import impl
    last = "Timeout"
    for limit in (30, 180):
        try:
            with impl.time_limit(limit), impl.quiet():
                g = Grammar.from_string(text)
                if kind == "glr":
                    return GLRParser(g, build_tree=build_tree), "ok", g
                return Parser(g, prefer_shifts=ps, prefer_shifts_over_empty=False,
                              build_tree=build_tree), "ok", g
        except BaseException as e:  # noqa
            last = impl.exc_kind(e)
            if last != "Timeout":
                break
    return None, last, None


def _retry(f, *args):
    """a Timeout under machine load is retried once with a generous budget"""
    r = f(*args, 10)
    if r[0] == "exc" and r[1] == "Timeout":
        r = f(*args, 60)
    return r


def _run_sugared(p, kind, w, limit=10):
    """value(s) through the grammar's own actions"""
    import parglare
    from lib import impl
    try:
        with impl.time_limit(limit):
            if kind == "glr":
                f = p.parse(w)
                n = len(f)
                if n > GLR_CAP:
                    return ["many", n]
                return ["ok", [_canon(p.call_actions(t)) for t in f]]
            return ["ok", [_canon(p.parse(w))]]
    except parglare.SyntaxError:
        return ["rej"]
    except BaseException as e:  # noqa
        return ["exc", impl.exc_kind(e)]


def _run_expanded(p, kind, w, gi, limit=10):
    """tree(s) of the plain grammar"""
    import parglare
    from lib import impl
    try:
        with impl.time_limit(limit):
            if kind == "glr":
                f = p.parse(w)
                n = len(f)
                if n > GLR_CAP:
                    return ["many", n]
                return ["ok", [impl.tree_sx(t, gi) for t in f]]
            return ["ok", [impl.node_sx(p.parse(w), gi)]]
    except parglare.SyntaxError:
        return ["rej"]
    except BaseException as e:  # noqa
        return ["exc", impl.exc_kind(e)]


def _worker(job):
    from parglare import Grammar
    from lib import impl
    out = {"name": job["name"]}
    texts = {"s": job["text_s"], "e": job.get("text_e"), "ng": job.get("text_ng")}
    gs = {}
    for k, t in texts.items():
        if t is None:
            continue
        try:
            with impl.time_limit(20):
                gs[k] = Grammar.from_string(t)
            out["g_" + k] = "ok"
        except BaseException as e:  # noqa
            out["g_" + k] = impl.exc_kind(e)
            out["g_" + k + "_msg"] = str(e)[:200]
    if "s" in gs:
        out["dump_s"] = dump_grammar(gs["s"])
    if "e" in gs:
        out["dump_e"] = dump_grammar(gs["e"])
    res = {}
    if "s" in gs and "e" in gs:
        for kind, ps in PARSERS:
            r = {}
            ps_p, r["cs"], _ = _build(texts["s"], "glr" if kind == "glr" else "lr", ps, False)
            pe_p, r["ce"], ge = _build(texts["e"], "glr" if kind == "glr" else "lr", ps, True)
            gi_e = impl.GInfo(ge) if ge is not None else None
            if kind == "glr" and ps_p is not None:
                # a greedy helper's EMPTY production takes part in a reduce/reduce conflict
                # (associativity only settles shift/reduce conflicts)
                try:
                    r["greedy_rr"] = any(any(pr.assoc == 2 and len(pr.rhs) == 0 for pr in c.productions)
                                         for c in ps_p.table.rr_conflicts)
                except BaseException:  # noqa
                    r["greedy_rr"] = False
            png_p = None
            if "ng" in gs and kind == "glr":
                png_p, r["cng"], _ = _build(texts["ng"], "glr", ps, False)
            k2 = "glr" if kind == "glr" else "lr"
            r["inputs"] = {}
            for w in job["inputs"]:
                x = {}
                if ps_p is not None:
                    x["s"] = _retry(_run_sugared, ps_p, k2, w)
                if pe_p is not None:
                    x["e"] = _retry(_run_expanded, pe_p, k2, w, gi_e)
                if png_p is not None:
                    x["ng"] = _retry(_run_sugared, png_p, k2, w)
                r["inputs"][w] = x
            res[kind] = r
    out["res"] = res
    return out


# ------------------------------------------------------------------ inputs
def gen_inputs(rng, a, exp, quick):
    alpha = sorted({c for _, c in a["decl"]} | set(a["inline"]))
    alpha = [c for c in alpha if any(True for _ in [0])]
    maxlen = 3 if len(alpha) > 3 else 4
    base = ["".join(t) for n in range(maxlen + 1) for t in itertools.product(alpha, repeat=n)]
    cap = 55 if quick else 160
    if len(base) > cap:
        short = [s for s in base if len(s) <= 2]
        rest = [s for s in base if len(s) > 2]
        rng.shuffle(rest)
        base = short + rest[:cap - len(short)]
    # sentences sampled from the documented expansion
    if exp:
        by = {}
        for p in exp[0]:
            by.setdefault(dsym_key(p[0]), []).append(p[1])
        tchar = {n: c for n, c in a["decl"]}
        for c in a["inline"]:
            tchar[c] = c
        start = dsym_key(exp[0][0][0])

        def go(d, depth):
            k = dsym_key(d)
            if k not in by:
                return tchar.get(dsym_name(d))
            alts = by[k]
            if depth <= 0:
                alts = sorted(alts, key=len)[:1]
            rhs = rng.choice(alts)
            outp = []
            for x in rhs:
                r = go(x, depth - 1)
                if r is None:
                    return None
                outp.append(r)
            return "".join(outp)
        for _ in range(14 if quick else 30):
            s = go(exp[0][0][0], rng.randint(3, 7))
            if s is not None and len(s) <= 10 and s not in base:
                base.append(s)
                # one corrupted neighbour
                if s and rng.random() < 0.5:
                    i = rng.randrange(len(s))
                    t = s[:i] + rng.choice(alpha) + s[i + 1:] if rng.random() < 0.5 else s[:i] + s[i + 1:]
                    if t not in base:
                        base.append(t)
    return base


# ------------------------------------------------------------------ values
def val_py(v, w):
    if v == 0:
        return None
    if v[0] == 0:
        return w[v[2]:v[3]]
    return [val_py(x, w) for x in v[1:]]


def greedy_extents(t, greedy):
    """(start, end) of the greedy repetition nodes of a tree, pre-order"""
    out = []

    def go(t):
        if t[0] == 1:
            if greedy[t[1]]:
                out.append((t[2], t[3]))
            for c in t[4]:
                go(c)
    go(t)
    return out


def skeleton(t, acts):
    """the tree outside its repetition/optional helper subtrees"""
    if t[0] == 0:
        return ["t", t[1]]
    if acts[t[1]] != 0:
        return "H"
    return [t[1], [skeleton(c, acts) for c in t[4]]]


def elements(t, acts):
    """element (and separator) subtrees of a helper node of the documented expansion"""
    tag = acts[t[1]]
    ch = t[4]
    if tag == 2:
        return [ch[0]]
    if tag == 1:
        return elements(ch[0], acts) + [ch[1]]
    if tag == 3:
        return elements(ch[0], acts) + [ch[1], ch[2]]
    if tag in (4, 6):
        if not ch:
            return []
        c = ch[0]
        if c[0] == 1 and acts[c[1]] in (1, 2, 3):
            return elements(c, acts)
        return [c]
    if tag == 5:
        return []
    return list(ch)


def first_diff(t1, t2, greedy, lhs_names, acts, inner_first=False):
    """None if equal; (end1, end2) if the trees first differ at two nodes of the same greedy
    helper rule that start at the same position and end differently, and whatever differs
    inside them is again only such a pair (outermost pair reported, or innermost with
    inner_first); "other" for every other kind of difference."""
    if t1[0] == 0 or t2[0] == 0:
        return None if t1 == t2 else "other"
    if greedy[t1[1]] and greedy[t2[1]] and lhs_names[t1[1]] == lhs_names[t2[1]] \
            and t1[2] == t2[2] and t1[3] != t2[3]:
        own = (t1[3], t2[3])
        for e1, e2 in zip(elements(t1, acts), elements(t2, acts)):
            d = first_diff(e1, e2, greedy, lhs_names, acts, inner_first)
            if d is None:
                continue
            if d == "other":
                return "other"
            return d if inner_first else own
        return own
    if t1[1] == t2[1] and t1[2] == t2[2]:
        if len(t1[4]) != len(t2[4]):
            return "other"
        for c1, c2 in zip(t1[4], t2[4]):
            d = first_diff(c1, c2, greedy, lhs_names, acts, inner_first)
            if d is not None:
                return d
        return None if t1[3] == t2[3] else "other"
    return "other"


def munch_winner(trees, greedy, lhs_names, acts, inner_first):
    n = len(trees)
    wins = [0] * n
    for i in range(n):
        for j in range(i + 1, n):
            d = first_diff(trees[i], trees[j], greedy, lhs_names, acts, inner_first)
            if not isinstance(d, tuple):
                return None
            wins[i if d[0] > d[1] else j] += 1
    return wins.index(n - 1) if max(wins) == n - 1 else None


def collapse_chain(ext):
    """a helper x_0 -> x_1 chain yields several nodes with the same span; keep one"""
    out = []
    for x in ext:
        if not out or out[-1] != x:
            out.append(x)
    return out


def msort(vals):
    return sorted(json.dumps(v) for v in vals)



# ------------------------------------------------------------------ probe: elements valued None
PROBES = [("S: A+;\nA: 'a' | 'b';", ""), ("S: A+[c];\nA: 'a' | 'b';\nterminals\nc: ',';", ","),
          ("S: A*;\nA: 'a' | 'b';", "")]


def probe_none(ctx, st):
    """x+ / x* / x+[sep] over elements whose user action returns None: impl vs Coq eval vs the
    documented 'list of matches'"""
    from parglare import Grammar, Parser
    from lib import impl
    cases = []
    meta = []
    for text, sep in PROBES:
        g = Grammar.from_string(text)
        acts_user = {"A": [lambda _, n: n[0], lambda _, n: None]}
        with impl.quiet():
            p = Parser(g, actions=acts_user)
        g2 = Grammar.from_string(text)
        with impl.quiet():
            pt = Parser(g2, build_tree=True)
        gi = impl.GInfo(g2)
        d = dump_grammar(g2)
        acts = [0] + [pr[6] for pr in d["prods"]]
        k = 0
        for i, pr in enumerate(d["prods"]):
            if pr[0] == "A":
                acts[i + 1] = 4 if k == 0 else 5
                k += 1
        for n in range(1, 5):
            for tup in itertools.product("ab", repeat=n):
                w = sep.join(tup)
                with impl.time_limit(10):
                    v = _canon(p.parse(w))
                    t = impl.node_sx(pt.parse(w), gi)
                cases.append((135, [acts, t]))
                meta.append((text, w, tup, v))
    outs = common.model_run(cases)
    for (text, w, tup, v), o in zip(meta, outs):
        st["probe_none_cases"] = st.get("probe_none_cases", 0) + 1
        mv = val_py(o, w)
        rep = {"grammar": text, "actions": "A = [lambda _, n: n[0], lambda _, n: None]", "input": w}
        if mv != v:
            ctx.violation("built-in collect actions: impl returns %s, model eval %s" % (json.dumps(v), json.dumps(mv)),
                          rep, no_input=True, key="probe-diff")
            continue
        want = [c if c == "a" else None for c in tup]
        if v != want:
            dropped = want[:1] + [x for x in want[1:] if x is not None]
            if v == dropped:
                st["finding_instances"]["KF-C13-collect-drops-none"] = \
                    st["finding_instances"].get("KF-C13-collect-drops-none", 0) + 1
                ctx.known_finding("KF-C13-collect-drops-none",
                                  "x+ returns fewer values than matches when an element's value is None "
                                  "(e.g. S: A+ on 'bbb' gives [None])")
            else:
                ctx.violation("x+/x* result %s is not the list of matches %s" % (json.dumps(v), json.dumps(want)),
                              rep, key="probe-list")


# ------------------------------------------------------------------ sugar inside an imported file
def _import_worker(job):
    """the same sugared rules read directly and through `import` (root.pg: Root: lib.S): same results"""
    import os
    import shutil
    import tempfile
    import parglare
    from parglare import Grammar, Parser
    from lib import impl
    out = {"name": job["name"], "res": {}}
    d = tempfile.mkdtemp(prefix="c13imp")
    try:
        with open(os.path.join(d, "lib.pg"), "w") as f:
            f.write(job["text_s"])
        with open(os.path.join(d, "root.pg"), "w") as f:
            f.write("import 'lib.pg' as lib;\nRoot: lib.%s;\n" % job["start"])
        ps = []
        for how in ("direct", "import"):
            try:
                with impl.time_limit(20), impl.quiet():
                    g = Grammar.from_string(job["text_s"]) if how == "direct" else \
                        Grammar.from_file(os.path.join(d, "root.pg"))
                    g.file_path = None
                    ps.append((Parser(g), "ok"))
            except BaseException as e:  # noqa
                ps.append((None, impl.exc_kind(e) + ": " + str(e)[:120]))
        out["construct"] = [x[1].split(":")[0] for x in ps]
        out["msgs"] = [x[1] for x in ps]
        if ps[0][0] is not None and ps[1][0] is not None:
            for w in job["inputs"]:
                r = []
                for p, _ in ps:
                    try:
                        with impl.time_limit(5):
                            r.append(["ok", _canon(p.parse(w))])
                    except parglare.SyntaxError as e:
                        r.append(["rej", e.location.start_position])
                    except BaseException as e:  # noqa
                        r.append(["exc", impl.exc_kind(e)])
                out["res"][w] = r
    finally:
        shutil.rmtree(d, ignore_errors=True)
    return out


def _rule_action_worker(job):
    """`@pass_single S: ...` must mean exactly actions={'S': pass_single}: the helper rules made for the
    groups and repetitions of the rule keep their own actions"""
    import parglare
    import parglare.actions as pa
    from parglare import Grammar, Parser
    from lib import impl
    out = {"name": job["name"], "res": {}}
    act = getattr(pa, job["action"])
    ps = []
    for how in ("prefix", "dict"):
        try:
            with impl.time_limit(20), impl.quiet():
                if how == "prefix":
                    p = Parser(Grammar.from_string("@%s %s" % (job["action"], job["text_s"])))
                else:
                    p = Parser(Grammar.from_string(job["text_s"]), actions={job["start"]: act})
            ps.append((p, "ok"))
        except BaseException as e:  # noqa
            ps.append((None, impl.exc_kind(e) + ": " + str(e)[:120]))
    out["construct"] = [x[1].split(":")[0] for x in ps]
    out["msgs"] = [x[1] for x in ps]
    if ps[0][0] is not None and ps[1][0] is not None:
        for w in job["inputs"]:
            r = []
            for p, _ in ps:
                try:
                    with impl.time_limit(5):
                        r.append(["ok", _canon(p.parse(w))])
                except parglare.SyntaxError as e:
                    r.append(["rej", e.location.start_position])
                except BaseException as e:  # noqa
                    r.append(["exc", impl.exc_kind(e)])
            out["res"][w] = r
    return out


def rule_level_action(ctx, st, info, results, quick):
    jobs = []
    for rec, r in zip(info, results):
        if rec["fam"] not in ("clean", "curated") or not rec.get("nc") or has_greedy(rec["ast"]) \
                or r.get("g_s") != "ok" or count_ops(rec["ast"])["group"] == 0:
            continue
        if [n for n, _ in rec["ast"]["rules"]].count(rec["ast"]["rules"][0][0]) != 1:
            continue        # a rule written in two parts must carry the same action on both
        ins = sorted((r.get("res", {}).get("lr", {}) or {}).get("inputs", {}).keys())[:30]
        jobs.append({"name": rec["name"], "text_s": rec["text_s"], "start": rec["ast"]["rules"][0][0],
                     "inputs": ins, "action": ["pass_single", "pass_none", "pass_inner"][len(jobs) % 3]})
        if len(jobs) >= (30 if quick else 300):
            break
    with mp.Pool(common.NPROC) as pool:
        outs = pool.map(_rule_action_worker, jobs, chunksize=1)
    st["rule_action_grammars"] = len(jobs)
    st["rule_action_inputs"] = 0
    for job, o in zip(jobs, outs):
        rep = {"grammar": "@%s %s" % (job["action"], job["text_s"]),
               "compared_with": "the same rules without the prefix and actions={%r: parglare.actions.%s}"
               % (job["start"], job["action"])}
        c = o["construct"]
        if c[0] != c[1]:
            if "Timeout" not in c:
                ctx.violation("rule with an @action prefix and groups: construction differs (%s vs %s)"
                              % (o["msgs"][0], o["msgs"][1]), rep, key="ruleact-load")
            continue
        for w, (a, b) in o["res"].items():
            st["rule_action_inputs"] += 1
            if "exc" in (a[0], b[0]) and "Timeout" in (a[1], b[1]):
                continue
            if a != b:
                ctx.violation("an @action prefix on a rule changes what its groups/repetitions return: prefix %s, "
                              "actions= %s" % (json.dumps(a)[:150], json.dumps(b)[:150]), dict(rep, input=w),
                              key="ruleact-result")
                break


def imported_sugar(ctx, st, info, results, quick):
    jobs = []
    for rec, r in zip(info, results):
        if rec["fam"] not in ("clean", "curated") or not rec.get("nc") or has_greedy(rec["ast"]) \
                or r.get("g_s") != "ok" or not rec.get("text_e"):
            continue
        ins = sorted((r.get("res", {}).get("lr", {}) or {}).get("inputs", {}).keys())[:40]
        jobs.append({"name": rec["name"], "text_s": rec["text_s"], "start": rec["ast"]["rules"][0][0],
                     "inputs": ins})
        if len(jobs) >= (40 if quick else 400):
            break
    with mp.Pool(common.NPROC) as pool:
        outs = pool.map(_import_worker, jobs, chunksize=1)
    st["imported_sugar_grammars"] = len(jobs)
    st["imported_sugar_inputs"] = 0
    for job, o in zip(jobs, outs):
        rep = {"grammar": job["text_s"], "how": "lib.pg holds the grammar; root.pg: import 'lib.pg' as lib; Root: lib.%s;"
               % job["start"]}
        c = o["construct"]
        if c[0] != c[1]:
            if "Timeout" in c:
                continue
            ctx.violation("sugared rules load directly (%s) but not through an import (%s)" % (o["msgs"][0], o["msgs"][1]),
                          rep, key="import-load")
            continue
        for w, (a, b) in o["res"].items():
            st["imported_sugar_inputs"] += 1
            want = a        # a production with one right-hand-side symbol passes its result through
            if "exc" in (a[0], b[0]) and "Timeout" in (a[1], b[1]):
                continue
            if b != want:
                ctx.violation("sugared rules mean something else inside an imported file: direct %s, imported %s"
                              % (json.dumps(a)[:150], json.dumps(b)[:150]), dict(rep, input=w), key="import-result")
                break


# ------------------------------------------------------------------ run
def run(ctx):
    cases = gen_cases(ctx)
    quick = ctx.quick()
    st = {"cases": len(cases), "by_family": {}, "grammar_errors_model": 0, "grammar_errors_impl": 0,
          "no_collision_true": 0, "no_collision_false": 0, "iso_true": 0, "iso_false": 0,
          "collision_kinds": {}, "ops": {}, "dump_compared": 0, "construct": {}, "parses_compared": 0,
          "accepted": 0, "rejected": 0, "glr_ambiguous_inputs": 0, "greedy_language_checked": 0,
          "greedy_maxmunch_checked": 0, "greedy_possessive_instances": 0, "values_evaluated": 0,
          "sentences": 0, "finding_instances": {}}
    # ---- model pass 1
    m1 = []
    for name, fam, a in cases:
        s = ast_sx(a)
        m1 += [(130, s), (131, s), (132, s), (133, s), (136, s)]
    o1 = common.model_run(m1)
    jobs = []
    info = []
    for i, (name, fam, a) in enumerate(cases):
        mexp, dexp, dng, nc, ck = o1[5 * i: 5 * i + 5]
        st["by_family"][fam] = st["by_family"].get(fam, 0) + 1
        for k, v in count_ops(a).items():
            st["ops"][k] = st["ops"].get(k, 0) + v
        rec = {"name": name, "fam": fam, "ast": a, "mexp": mexp, "dexp": dexp, "dng": dng,
               "nc": nc == 1, "ck": ck, "text_s": ast_text(a)}
        job = {"name": name, "text_s": rec["text_s"], "inputs": []}
        if dng:
            te, acts, greedy, lhs_names = expansion_text(dng, a)
            rec.update(text_e=te, acts=acts, greedy=greedy, lhs_names=lhs_names)
            job["text_e"] = te
            job["inputs"] = gen_inputs(ctx.rng, a, dng, quick)
            if has_greedy(a):
                job["text_ng"] = ast_text(a, greedy=False)
                rec["text_ng"] = job["text_ng"]
        jobs.append(job)
        info.append(rec)
    with mp.Pool(common.NPROC) as pool:
        results = pool.map(_worker, jobs, chunksize=1)

    # ---- model pass 2: validator on impl dumps + values of the expansion's trees
    m2 = []
    m2meta = []
    for rec, r in zip(info, results):
        if r.get("g_s") == "ok" and rec["dexp"]:
            nprods = [[name_sx(p[0]), [name_sx(x) for x in p[1]], p[2], p[3], p[4], p[5], p[6]]
                      for p in r["dump_s"]["prods"]]
            m2.append((134, [ast_sx(rec["ast"]), nprods]))
            m2meta.append(("iso", rec, r, None, None, None))
        for kind, rr in r.get("res", {}).items():
            for w, x in rr["inputs"].items():
                e = x.get("e")
                if e and e[0] == "ok":
                    for ti, t in enumerate(e[1]):
                        m2.append((135, [rec["acts"], t]))
                        m2meta.append(("val", rec, r, kind, w, ti))
    o2 = common.model_run(m2)
    nx, xok, xlog = common.coq_crosscheck("C13", m1 + m2, o1 + o2, ctx.rng, sample=40 if quick else 200)
    if not xok:
        ctx.violation("extraction cross-check failed: OCaml driver and vm_compute disagree",
                      {"log": xlog}, no_input=True)
    isores = {}
    evals = {}
    for (k, rec, r, kind, w, ti), o in zip(m2meta, o2):
        if k == "iso":
            isores[rec["name"]] = o
        else:
            evals[(rec["name"], kind, w, ti)] = o
            st["values_evaluated"] += 1

    distinct = set()
    samples = []

    def finding(kid, what):
        st["finding_instances"][kid] = st["finding_instances"].get(kid, 0) + 1
        ctx.known_finding(kid, what)

    for rec, r in zip(info, results):
        name = rec["name"]
        a = rec["ast"]
        rep = {"case": name, "family": rec["fam"], "grammar": rec["text_s"]}
        # ---------- 1. correspondence: model_expand vs live Grammar
        if not rec["mexp"]:
            st["grammar_errors_model"] += 1
        if r.get("g_s") != "ok":
            st["grammar_errors_impl"] += 1
        if (not rec["mexp"]) != (r.get("g_s") != "ok"):
            ctx.violation("model and impl disagree on whether the grammar is accepted (model %s, impl %s %s)"
                          % ("ok" if rec["mexp"] else "GrammarError", r.get("g_s"), r.get("g_s_msg", "")),
                          rep, no_input=True, key="diff-grammarerror")
            continue
        if not rec["mexp"]:
            if r.get("g_s") != "GrammarError":
                ctx.violation("grammar rejected with %s instead of GrammarError" % r.get("g_s"), rep,
                              no_input=True, key="diff-errkind")
            continue
        st["dump_compared"] += 1
        mprods = [[dsym_name(p[0]), [dsym_name(x) for x in p[1]], p[2], p[3], bool(p[4]), bool(p[5]), p[6]]
                  for p in rec["mexp"][0]]
        mnts = [dsym_name(d) for d in rec["mexp"][1]]
        model_eq = mprods == r["dump_s"]["prods"] and mnts == r["dump_s"]["nts"]
        if not model_eq:
            ctx.violation("desugared grammar differs from the model (productions/flags/actions/order)",
                          dict(rep, model={"prods": mprods, "nts": mnts}, impl=r["dump_s"]),
                          no_input=True, key="diff-dump")
        # ---------- 2. validator: impl dump isomorphic to the documented expansion?
        iso = isores.get(name) == 1
        if rec["nc"]:
            st["no_collision_true"] += 1
        else:
            st["no_collision_false"] += 1
            st["collision_kinds"][str(rec["ck"])] = st["collision_kinds"].get(str(rec["ck"]), 0) + 1
        st["iso_true" if iso else "iso_false"] += 1
        excused = None
        if not iso:
            if rec["nc"]:
                ctx.violation("no name collision, yet the impl's grammar is not the documented expansion "
                              "(iso_check fails on the live Grammar)", dict(rep, impl=r["dump_s"]),
                              no_input=True, key="iso-nc")
            elif not model_eq:
                pass      # already a violation above; no excuse
            else:
                ck = rec["ck"]
                if ck & 1:
                    excused = "KF-C13-name-collision"
                elif ck & 2:
                    excused = "KF-C13-greedy-sharing"
                elif ck & 4:
                    excused = "KF-C13-greedy-sharing"
                if excused:
                    finding(excused, "sugared grammar is not the documented expansion (e.g. %s)"
                            % " ".join(rec["text_s"].split())[:80])
                else:
                    ctx.violation("impl grammar not isomorphic to the documented expansion and no listed "
                                  "mechanism applies", rep, no_input=True, key="iso-unexplained")
        # ---------- 3. expansion grammar sanity (machinery)
        if r.get("g_e") != "ok":
            ctx.violation("machinery: the printed expansion is not accepted by the impl (%s %s)"
                          % (r.get("g_e"), r.get("g_e_msg", "")), dict(rep, expansion=rec.get("text_e")),
                          no_input=True, key="mach-exp")
            continue
        if [p[0] for p in r["dump_e"]["prods"]] != rec["lhs_names"][1:]:
            ctx.violation("machinery: production order of the printed expansion changed",
                          dict(rep, expansion=rec.get("text_e")), no_input=True, key="mach-order")
            continue
        greedy_ast = has_greedy(a)
        # ---------- 4. property oracle: sugared vs documented expansion on the impl
        for kind, rr in r["res"].items():
            key = "%s:%s/%s" % (kind, rr["cs"], rr["ce"])
            st["construct"][key] = st["construct"].get(key, 0) + 1
            popt = {"parser": kind}
            if not greedy_ast and iso and rr["cs"] != rr["ce"]:
                ctx.violation("parser construction differs: sugared %s, documented expansion %s (%s)"
                              % (rr["cs"], rr["ce"], kind), dict(rep, expansion=rec["text_e"], **popt),
                              key="construct-%s" % kind)
                continue
            for w, x in rr["inputs"].items():
                s = x.get("s")
                e = x.get("e")
                if s is None or e is None:
                    continue
                rep2 = dict(rep, input=w, expansion=rec["text_e"], **popt)
                if s[0] == "exc" or e[0] == "exc":
                    ctx.violation("parse raised %s / %s" % (s, e), rep2, key="exc-%s" % kind)
                    continue
                st["parses_compared"] += 1
                if e[0] == "ok":
                    st["sentences"] += 1
                if s[0] == "many" or e[0] == "many":
                    if s[0] != e[0] or s[1] != e[1]:
                        if not (greedy_ast or excused):
                            ctx.violation("number of GLR trees differs: sugared %s, expansion %s" % (s, e), rep2,
                                          key="count-many")
                    continue
                evals_e = None
                if e[0] == "ok":
                    evals_e = [val_py(evals[(name, kind, w, ti)], w) for ti in range(len(e[1]))]
                if s[0] == "ok":
                    st["accepted"] += 1
                    distinct.add((name, kind, w))
                else:
                    st["rejected"] += 1
                if kind == "glr" and e[0] == "ok" and len(e[1]) > 1:
                    st["glr_ambiguous_inputs"] += 1
                if not greedy_ast:
                    same = (s[0] == e[0]) and (s[0] != "ok" or msort(s[1]) == msort(evals_e))
                    if not same:
                        what = ("sugared grammar %s, documented expansion %s on %r (%s)"
                                % (("returns %s" % json.dumps(s[1])) if s[0] == "ok" else "rejects",
                                   ("gives %s" % json.dumps(evals_e)) if e[0] == "ok" else "rejects", w, kind))
                        if excused:
                            finding(excused, "language/results differ from the documented expansion")
                        else:
                            ctx.violation(what, rep2, key="result-%s" % kind)
                    elif s[0] == "ok" and len(samples) < 4 and len(w) >= 3 and rec["fam"] != "curated":
                        samples.append({"grammar": rec["text_s"], "parser": kind, "input": w, "result": s[1]})
                    continue
                # ----- greedy grammars
                if kind != "glr":
                    # LR with greedy marks: whatever it returns must be a result of the expansion
                    continue
                if has_assoc_meta(a):
                    # explicit {left}/{right}/priority marks prune table actions even under GLR, and do so
                    # differently in the differently shaped tables of the greedy grammar, its '!'-free form
                    # and the expansion: language differences cannot be attributed to the greedy mark
                    st["greedy_skipped_explicit_assoc"] = st.get("greedy_skipped_explicit_assoc", 0) + 1
                    continue
                st["greedy_language_checked"] += 1
                ng = x.get("ng")
                if s[0] == "rej" and e[0] == "ok":
                    # same-language clause fails.  Known finding iff the only cause is the greedy mark:
                    # the same grammar without '!' accepts with the expansion's results
                    if ng and ng[0] == "ok" and msort(ng[1]) == msort(evals_e):
                        st["greedy_possessive_instances"] += 1
                        finding("KF-C13-greedy-possessive",
                                "greedy repetition rejects sentences of the non-greedy form (e.g. %s on %r)"
                                % (" ".join(rec["text_s"].split())[:60], w))
                    elif excused:
                        finding(excused, "language/results differ from the documented expansion")
                    else:
                        ctx.violation("greedy grammar rejects %r, the expansion accepts, and removing '!' does "
                                      "not explain it" % w, rep2, key="greedy-lang")
                    continue
                if s[0] == "ok" and e[0] == "rej":
                    if excused:
                        finding(excused, "language/results differ from the documented expansion")
                    else:
                        ctx.violation("greedy grammar accepts %r, the non-greedy expansion rejects it" % w, rep2,
                                      key="greedy-lang2")
                    continue
                if s[0] != "ok":
                    continue
                # results of the greedy grammar are results of the expansion
                pool_e = msort(evals_e)
                extra = [v for v in msort(s[1]) if v not in pool_e]
                if extra or len(s[1]) > len(e[1]):
                    if excused:
                        finding(excused, "language/results differ from the documented expansion")
                    else:
                        ctx.violation("greedy grammar returns results the expansion does not have: %s"
                                      % extra[:2], rep2, key="greedy-extra")
                    continue
                # maximal munch, where the expansion's trees differ only in how much the greedy
                # repetitions consume: every two trees first differ at two nodes of the same greedy
                # helper rule with the same start and different ends, their common elements differ (if
                # at all) only in the same way, and the tree that wins all comparisons is the same
                # whether nested repetitions are compared outermost- or innermost-first (otherwise "as
                # much as possible" is under-determined and no claim is made)
                if len(e[1]) > 1:
                    b1 = munch_winner(e[1], rec["greedy"], rec["lhs_names"], rec["acts"], False)
                    b2 = munch_winner(e[1], rec["greedy"], rec["lhs_names"], rec["acts"], True)
                    if b1 is not None and b1 == b2:
                        st["greedy_maxmunch_checked"] += 1
                        want = json.dumps(evals_e[b1])
                        if not (len(s[1]) == 1 and json.dumps(s[1][0]) == want):
                            if want in msort(s[1]) and rr.get("greedy_rr") and ng and ng[0] == "ok" \
                                    and msort(ng[1]) == pool_e:
                                finding("KF-C13-greedy-not-maximal",
                                        "greedy repetition whose element can start with an empty match: GLR "
                                        "returns non-maximal trees too (e.g. %s on %r)"
                                        % (" ".join(rec["text_s"].split())[:70], w))
                            elif want not in msort(s[1]) and greedy_elem_starts_empty(a) and ng and ng[0] == "ok" \
                                    and msort(ng[1]) == pool_e:
                                # (the results returned are results of the expansion: checked above)
                                finding("KF-C13-greedy-empty-start-loses-maximal",
                                        "greedy repetition whose element can start with an empty match: the "
                                        "maximal-munch result is not returned at all (e.g. %s on %r)"
                                        % (" ".join(rec["text_s"].split())[:70], w))
                            elif excused:
                                finding(excused, "language/results differ from the documented expansion")
                            else:
                                ctx.violation("greedy: expected the single maximal-munch result %s, got %s"
                                              % (want, json.dumps(s[1])), rep2, key="greedy-munch")
    probe_none(ctx, st)
    imported_sugar(ctx, st, info, results, quick)
    rule_level_action(ctx, st, info, results, quick)
    cov = {
        "evaluations": st["parses_compared"] + st["dump_compared"] + st.get("probe_none_cases", 0),
        "distinct_nontrivial": len(distinct),
        "rule": "curated witnesses + seeded random PG ASTs (1-3 rules, nested groups <= 2, ?,*,+ on terminals, "
                "inline strings, rules and groups, separators that are terminals or rules, greedy family, "
                "collision family aiming a user rule/terminal at a generated helper name, malformed family); "
                "per grammar: live Grammar dump vs model_expand, iso_check vs doc_expand, then sugared vs printed "
                "documented expansion under LR (prefer_shifts off/on) and GLR on all strings up to length 3-4 over "
                "the grammar's alphabet (capped) plus sampled sentences; non-trivial = accepted parse, distinct by "
                "(grammar, parser, input)",
        "samples": samples,
        "traces_validated_against_impl": st["dump_compared"],
        "distribution": st,
        "crosscheck_vm_compute_cases": nx,
        "exhaustive": False,
    }
    return cov


def replay(ctx, rep):
    text = rep.get("grammar")
    job = {"name": "replay", "text_s": text, "text_e": rep.get("expansion"), "inputs": [rep["input"]] if "input" in rep else []}
    r = _worker(job)
    print(json.dumps({k: v for k, v in r.items() if k != "res"}, indent=1, default=str)[:3000])
    for kind, rr in r.get("res", {}).items():
        print(kind, rr["cs"], rr["ce"], json.dumps(rr["inputs"])[:1500])
    return 0
