"""C19 -- String terminals match their literal text; KEYWORD adds whole-word matching."""
import json
import multiprocessing as mp
import os
import re

from lib import common

LEVEL = "proof"
ASSUMPTIONS = [
    "theorems (Properties/C19.v) are about the Gallina model Model/StrTerm.v: StringRecognizer, the keyword recognizer "
    "(escaped text, \\b next to a word character and a lookaround next to anything else: the repaired "
    "_fix_keyword_terminals), the two un-escape passes, the front end from grammar AST to "
    "terminals/productions (inline strings named by their text, symbol table, override check, reference resolution, "
    "keyword rewrite) and the action sort key / implicit finish flags",
    "the model is tied to /repo by differential runs: un-escaped values, Grammar.from_string outcome (error kind or "
    "terminals+productions), recognizer match matrices at every input position, per-state action order and finish flags",
    "character set is ASCII: \\w, \\b and str.lower() are modelled for ASCII only; generated texts and inputs are ASCII",
    "KEYWORD regex semantics (does it match a text completely) and identifier-like regex terminals are an oracle computed "
    "with Python's re; that re.escape makes the regex engine read a keyword text literally is trusted, and checked by "
    "the recognizer match matrices on texts with regex metacharacters, whitespace and '#'",
    "grammars without imports, without repetition/optional/group sugar; empty string terminals excluded",
]

ERR_CODES = [
    ("is reserved", 1), ("Multiple definitions of terminal rule", 2), ("match the same string", 3),
    ("already defined as terminal", 4), ("Unexisting module", 5), ("Unknown symbol", 6),
    ("KEYWORD rule must have a regex", 7),
]
ERR_NAMES = {1: "reserved name", 2: "multiple definitions of terminal", 3: "terminals match the same string",
             4: "rule already defined as terminal", 5: "unexisting module (dotted name)", 6: "unknown symbol",
             7: "KEYWORD must be a regex"}

REGEXES = [r"\w+", r"[a-z]+", r"\d+", r"[a-z.+]+", r"[A-Za-z_][A-Za-z_0-9]*"]
KW_REGEXES = [r"\w+", r"[\w+]+", r"[\w-]+", r"[a-z]+", r"[\w ]+", r"[^\s]+", r"\w+\.\w+", r"[\w.]+", r"[\w#(]+",
              r"[^\s\w]+", r"[\w+*.|()-]+", r"[^\s]+"]
WS = "\n\r\t "
WORD = set("abcdefghijklmnopqrstuvwxyzABCDEFGHIJKLMNOPQRSTUVWXYZ0123456789_")
REGEX_PLAIN = WORD | set("!\"%&',-/:;<=>@`~")

NICE_TEXTS = ["for", "to", "if", "a", "ab", "x", "fo", "For", "IF", "+", "++", "c++", "(", ")", "[", "]", "|", "*",
              "=", "==", "-x", "a-b", "x-", "?", "^", "$", "{", "}", "a|b", "(a)", "[ab]", "a*", "1", "12", "_", "#",
              "a#b", "a b", "->", "<=", "\\d", "a'b", 'a"b', "'", '"', "\\", "\\\\", "f.", "\\w+", "t", "n", "\\x"]
NASTY_TEXTS = [".", "a.b", "..", "x.", ".x", "A", "B", "S", "ID", "T1", "KEYWORD", "LAYOUT", "STOP", "EMPTY",
               "\n", "\t", "a\nb", "\\n", "\\t", "NUM"]


# ------------------------------------------------------------------ pure reference functions
def py_std_unescape(s):
    m = {"\\": "\\", "'": "'", '"': '"', "n": "\n", "t": "\t"}
    out = []
    i = 0
    while i < len(s):
        if s[i] == "\\" and i + 1 < len(s) and s[i + 1] in m:
            out.append(m[s[i + 1]])
            i += 2
        else:
            out.append(s[i])
            i += 1
    return "".join(out)


def double_unescape_class(body):
    """identification rule of KF-C19-double-unescape: an escaped backslash immediately
    followed by one of ' " \\ n t"""
    i = 0
    while i < len(body):
        if body[i] == "\\" and i + 1 < len(body):
            if body[i + 1] == "\\" and i + 2 < len(body) and body[i + 2] in "'\"\\nt":
                return True
            i += 2
        else:
            i += 1
    return False


def std_escape(text, q):
    out = []
    for c in text:
        if c == "\\":
            out.append("\\\\")
        elif c == q:
            out.append("\\" + q)
        elif c == "\n":
            out.append("\\n")
        elif c == "\t":
            out.append("\\t")
        else:
            out.append(c)
    return "".join(out)


def body_valid(body, q):
    """matches the body part of the StrConst regex for quote q"""
    i = 0
    while i < len(body):
        if body[i] == "\\":
            if i + 1 >= len(body):
                return False
            i += 2
        elif body[i] == q:
            return False
        else:
            i += 1
    return True


def is_word(c):
    return c in WORD


def spec_match(kind, ic, v, w, p):
    """the property: literal text at p; keywords additionally not touching a word character"""
    sl = w[p:p + len(v)]
    lit = (sl.lower() == v.lower()) if ic else (sl == v)
    if not lit or not v:
        return 0
    if kind == 1:
        if p > 0 and is_word(w[p - 1]):
            return 0
        if p + len(v) < len(w) and is_word(w[p + len(v)]):
            return 0
    return len(v)


def chars(s):
    return [ord(c) for c in s]


def unchars(l):
    return "".join(chr(c) for c in l)


# ------------------------------------------------------------------ grammar text
def item_text(it):
    if it[0] == "ref":
        return it[1]
    return it[2] + it[1] + it[2]          # ("str", body, quote)


def ast_text(rules, terms, twin_map=None):
    """rules: [(name, [[item...]...])], terms: [(name, ('str', body, q) | ('re', regex), meta)]
    twin_map: body-key -> declared name (the declared twin of the inline form)"""
    extra = []
    seen = set()
    lines = []
    for name, alts in rules:
        alt_txt = []
        for alt in alts:
            parts = []
            for it in alt:
                if it[0] == "str" and twin_map is not None:
                    tn = twin_map[(it[1], it[2])]
                    parts.append(tn)
                    if tn not in seen:
                        seen.add(tn)
                        extra.append((tn, it, ""))
                else:
                    parts.append(item_text(it))
            alt_txt.append(" ".join(parts))
        lines.append("%s: %s;" % (name, " | ".join(alt_txt)))
    tl = []
    for name, rec, meta in list(terms) + extra:
        if rec[0] == "re":
            tl.append("%s: /%s/%s;" % (name, rec[1], meta))
        else:
            tl.append("%s: %s%s;" % (name, item_text(rec), meta))
    txt = "\n".join(lines)
    if tl:
        txt += "\nterminals\n" + "\n".join(tl)
    return txt + "\n"


# ------------------------------------------------------------------ impl side (worker processes)
def _err_code(e):
    msg = str(e)
    for sub, code in ERR_CODES:
        if sub in msg:
            return code
    return "other:%s:%s" % (type(e).__name__, msg[:120])


def _dump_grammar(g):
    from parglare.grammar import RegExRecognizer, StringRecognizer
    terms = []
    for t in g.terminals.values():
        if t.name in ("EMPTY", "STOP"):
            continue
        r = t.recognizer
        if type(r) is StringRecognizer:
            terms.append([t.name, 0, r.value, bool(t.keyword), bool(r.ignore_case)])
        elif type(r) is RegExRecognizer:
            if t.keyword:
                # after the repair the keyword recognizer is named by the keyword text; an unnamed one
                # (name == regex: the code before the repair) is \b<raw text>\b
                val = r.name
                if val == r._regex:
                    val = val[2:] if val.startswith("\\b") else val
                    val = val[:-2] if val.endswith("\\b") else val
                terms.append([t.name, 1, val, True, bool(r.ignore_case)])
            else:
                terms.append([t.name, 2, r._regex, False, bool(r.ignore_case)])
        else:
            terms.append([t.name, 9, repr(r), False, False])
    prods = []
    for p in g.productions[1:]:
        rhs = []
        for s in list.__iter__(p.rhs):
            rhs.append([0 if s.fqn in g.terminals and g.terminals[s.fqn] is s else 1, s.name])
        prods.append([p.symbol.name, rhs])
    return terms, prods


def _matrix(g, inputs):
    """terminal name -> input -> match length per position, with the impl's recognizers"""
    out = {}
    for t in g.terminals.values():
        if t.name in ("EMPTY", "STOP"):
            continue
        rows = {}
        for w in inputs:
            row = []
            for p in range(len(w)):
                r = t.recognizer(w, p)
                row.append(len(r) if r else 0)
            rows[w] = row
        out[t.name] = rows
    return out


def _states(parser):
    from parglare.grammar import RegExRecognizer, StringRecognizer
    sts = []
    seen = set()
    for s in parser.table.states:
        acts = []
        for t in s.actions.keys():
            r = t.recognizer
            if type(r) is StringRecognizer:
                kind, ln, rl = 0, len(r.value), 0
            elif type(r) is RegExRecognizer:
                kind, ln, rl = (1 if t.keyword else 2), 0, len(r.name)
                if t.keyword:
                    ln = rl
            else:
                kind, ln, rl = 2, 0, 0
            fin = 0 if t.finish is None else (2 if t.finish else 1)
            acts.append([t.fqn, t.prior, kind, ln, rl, fin])
        flags = [bool(f) for f in s.finish_flags]
        key = json.dumps([acts, flags])
        if key not in seen:
            seen.add(key)
            sts.append([acts, flags])
    return sts


def _leaves(node, g):
    out = []

    def go(n):
        if n.is_term():
            out.append([n.start_position, n.end_position, n.symbol.name])
        else:
            for c in n.children:
                go(c)
    go(node)
    return out


def _build(text, ic):
    from parglare import Grammar
    from lib import impl
    for limit in (20, 180):          # a loaded machine gets one generous retry
        try:
            with impl.time_limit(limit):
                g = Grammar.from_string(text, ignore_case=ic)
            return g, None
        except impl.Timeout as e:
            err = _err_code(e)
        except BaseException as e:  # noqa
            return None, _err_code(e)
    return None, err


def _worker(job):
    import parglare
    from parglare import Parser
    from lib import impl
    kind = job["kind"]
    out = {"id": job["id"]}
    if kind == "unescape":
        res = []
        for body, q in job["bodies"]:
            g, err = _build("S: T0;\nterminals\nT0: %s%s%s;\n" % (q, body, q), False)
            if g is None:
                res.append(["err", err])
            else:
                res.append(["ok", g.get_terminal("T0").recognizer.value])
        out["res"] = res
        return out
    forms = {}
    for form in ("inline", "twin"):
        text = job.get(form)
        if text is None:
            continue
        f = {}
        g, err = _build(text, job["ic"])
        if g is None:
            f["err"] = err
            forms[form] = f
            continue
        f["terms"], f["prods"] = _dump_grammar(g)
        if job.get("inputs") is not None:
            try:
                f["matrix"] = _matrix(g, job["inputs"])
            except BaseException as e:  # noqa
                f["matrix_err"] = "%s: %s" % (type(e).__name__, str(e)[:100])
        if job.get("parse"):
            try:
                with impl.time_limit(20), impl.quiet():
                    p = Parser(g, build_tree=True)
            except BaseException as e:  # noqa
                f["parser_err"] = "%s: %s" % (impl.exc_kind(e), str(e)[:100])
                forms[form] = f
                continue
            f["states"] = _states(p)
            res = {}
            for w in job["inputs"]:
                try:
                    try:
                        with impl.time_limit(10):
                            t = p.parse(w)
                    except impl.Timeout:      # loaded machine: one generous retry
                        with impl.time_limit(90):
                            t = p.parse(w)
                    res[w] = ["ok", _leaves(t, g)]
                except parglare.SyntaxError as e:
                    res[w] = ["SyntaxError", e.location.start_position]
                except parglare.DisambiguationError as e:
                    res[w] = ["DisambiguationError", e.location.start_position]
                except BaseException as e:  # noqa
                    res[w] = ["exc", impl.exc_kind(e) + ": " + str(e)[:80]]
            f["parses"] = res
        forms[form] = f
    out["forms"] = forms
    return out


# ------------------------------------------------------------------ generators
ALPHA_BODY = list("abxfortn .|+*()[]'\"-=#_1A") + ["\\"] * 6


def gen_body(rng, q):
    """a random valid body for quote q, rich in backslashes"""
    n = rng.choice([1, 1, 2, 2, 3, 3, 4, 5, 6])
    out = []
    for _ in range(n):
        c = rng.choice(ALPHA_BODY)
        if c == "\\":
            out.append("\\" + rng.choice(list("\\\\\\'\"ntnt.d+ab")))
        elif c == q:
            out.append("\\" + q)
        else:
            out.append(c)
    return "".join(out)


def gen_str_item(rng, p_nasty):
    q = rng.choice("'\"")
    r = rng.random()
    if r < p_nasty:
        text = rng.choice(NASTY_TEXTS)
        if text in ("\n", "\t", "a\nb") and rng.random() < 0.3:
            body = text.replace("'", "\\'").replace('"', '\\"')    # raw control character in the source
        else:
            body = std_escape(text, q)
    elif r < p_nasty + 0.12:
        body = gen_body(rng, q)
    else:
        body = std_escape(rng.choice(NICE_TEXTS), q)
    if not body_valid(body, q) or body == "":
        body = "a"
    return ("str", body, q)


def gen_ast(rng):
    """random front-end case: rules S/A/B, declared terminals, inline strings"""
    p_nasty = rng.choice([0.0, 0.0, 0.1, 0.25, 0.5])
    nrules = rng.choice([1, 2, 2, 3])
    rnames = ["S", "A", "B"][:nrules]
    terms = []
    tnames = []
    pool_t = ["ID", "T1", "NUM"]
    rng.shuffle(pool_t)
    for tn in pool_t[:rng.choice([0, 1, 1, 2, 3])]:
        if rng.random() < 0.5:
            rec = ("re", rng.choice(REGEXES))
        else:
            rec = gen_str_item(rng, p_nasty * 0.5)
        terms.append((tn, rec, ""))
        tnames.append(tn)
    r = rng.random()
    if r < 0.45:
        terms.insert(rng.randrange(len(terms) + 1), ("KEYWORD", ("re", rng.choice(KW_REGEXES)), ""))
    elif r < 0.48:
        terms.append(("KEYWORD", ("str", "kw", "'"), ""))
    if rng.random() < 0.03 and terms:
        terms.append((terms[0][0], ("re", r"\d"), ""))           # duplicate name
    rules = []
    for rn in rnames:
        alts = []
        for _ in range(rng.choice([1, 1, 2])):
            alt = []
            for _ in range(rng.choice([1, 2, 2, 3])):
                x = rng.random()
                if x < 0.55:
                    alt.append(gen_str_item(rng, p_nasty))
                elif x < 0.75 and tnames:
                    alt.append(("ref", rng.choice(tnames)))
                elif x < 0.95:
                    alt.append(("ref", rng.choice(rnames)))
                elif x < 0.98:
                    alt.append(("ref", rng.choice(["Q", "Zz", "ID"])))
                else:
                    alt.append(("ref", rng.choice(["m.X", "A.b"])))
            alts.append(alt)
        rules.append((rn, alts))
    if rng.random() < 0.05:
        rules.append((rng.choice(rnames), [[("ref", rnames[0])]]))
    return rules, terms, rng.random() < 0.3


def gen_tok(rng):
    """token-list grammar  S: S I | I;  I: <strings> | ID;  used for recognizers, token streams, table order"""
    k = rng.choice([2, 3, 3, 4, 5])
    fam = rng.random()
    texts = []
    while len(texts) < k:
        if fam < 0.35:
            t = rng.choice(["for", "to", "if", "fo", "For", "a", "ab", "x", "IF", "f", "_", "1", "12"])
        elif fam < 0.6:
            t = rng.choice(NICE_TEXTS)
        else:
            t = rng.choice(NICE_TEXTS + [".", "a.b", "..", "x.", ".x", "A", "S", "I", "ID", "\n", "\t", "a\nb",
                                         "NUM", "c++", "-x", "a b"])
        if t not in texts and not t[0] in WS and "\\\\" not in t and not (t in ("I", "S", "ID") and fam < 0.6):
            texts.append(t)
    alts = []
    for t in texts:
        q = rng.choice("'\"")
        alts.append([("str", std_escape(t, q), q)])
    terms = []
    idre = None
    if rng.random() < 0.75:
        idre = rng.choice(REGEXES)
        terms.append(("ID", ("re", idre), ""))
        alts.insert(rng.randrange(len(alts) + 1), [("ref", "ID")])
    kw = None
    if rng.random() < 0.6:
        kw = rng.choice(KW_REGEXES)
        terms.insert(rng.randrange(len(terms) + 1), ("KEYWORD", ("re", kw), ""))
    rules = [("S", [[("ref", "S"), ("ref", "I")], [("ref", "I")]]), ("I", alts)]
    ic = rng.random() < 0.3
    # inputs: concatenations of the texts, their case variants, word characters, separators
    pieces = list(texts) + [t.swapcase() for t in texts] + list("aoxf1_ .+-(") + [" ", " ", "fora", "a1"]
    inputs = set()
    n_in = 24
    for _ in range(n_in * 3):
        w = "".join(rng.choice(pieces) for _ in range(rng.choice([1, 2, 2, 3, 3, 4])))
        if 0 < len(w) <= 14:
            inputs.add(w)
        if len(inputs) >= n_in:
            break
    return rules, terms, ic, texts, idre, kw, sorted(inputs)


def with_meta(rng, terms):
    """random priorities / finish marks on declared terminals (table-order family)"""
    out = []
    for name, rec, _ in terms:
        x = rng.random()
        meta = ""
        if name != "KEYWORD":
            if x < 0.3:
                meta = " {%d}" % rng.choice([0, 5, 9, 10, 11, 15])
            elif x < 0.4:
                meta = " {finish}"
            elif x < 0.5:
                meta = " {nofinish}"
            elif x < 0.55:
                meta = " {prefer}"
        out.append((name, rec, meta))
    return out


# ------------------------------------------------------------------ known findings
KF_NAMING = "KF-C19-inline-named-by-text"
KF_UNESC = "KF-C19-double-unescape"


def naming_defect_texts(values, rules, terms):
    """inline texts that the naming mechanism cannot handle (identification rule of KF_NAMING)"""
    names = set(n for n, _ in rules) | set(n for n, _, _ in terms) | {"KEYWORD", "LAYOUT", "STOP", "EMPTY"}
    # a reference to an undeclared name is silently bound to an inline string with that text
    names |= set(it[1] for _, alts in rules for alt in alts for it in alt if it[0] == "ref")
    return [v for v in values if "." in v or "\n" in v or "\t" in v or v in names]


def replay_known(ctx):
    """step 2 of the protocol: the recorded witnesses must still fail as recorded"""
    from lib import impl
    import parglare
    from parglare import Grammar, Parser
    for e in ctx.kf:
        still = 0
        for wit in e.get("witnesses", []):
            try:
                with impl.time_limit(20), impl.quiet():
                    g = Grammar.from_string(wit["grammar"])
                    if "input" not in wit:
                        if wit.get("expect") == "parser-crash":
                            Parser(g)
                        got = "ok"
                    else:
                        p = Parser(g)
                        try:
                            p.parse(wit["input"])
                            got = "accept"
                        except parglare.SyntaxError:
                            got = "reject"
            except BaseException as ex:  # noqa
                got = "error:" + type(ex).__name__
            if got == wit["observed_outcome"]:
                still += 1
        if still:
            ctx.known_finding(e["id"], "%s; first witness: grammar %r%s"
                              % (e["mechanism"][:160], e["witnesses"][0]["grammar"],
                                 (" input %r" % e["witnesses"][0]["input"]) if "input" in e["witnesses"][0] else ""))
            ctx._known[e["id"]][1] = 0
        else:
            ctx.notes.append("known finding %s: no witness fails as recorded any more (fixed?)" % e["id"])


# ------------------------------------------------------------------ reference tokenizer (property level)
def ref_tokenize(strings, idre, ic, w):
    """strings: [(kind, value)] of the string terminals expected everywhere; idre: regex or None.
    Strings (longest first) win over the regex; returns ['ok', [(s, e, label)]] or ['SyntaxError', pos]"""
    flags = re.MULTILINE | re.VERBOSE | (re.IGNORECASE if ic else 0)
    rx = re.compile(idre, flags) if idre else None
    p = 0
    toks = []
    n = len(w)
    while True:
        while p < n and w[p] in WS:
            p += 1
        if p >= n:
            break
        best = None
        for kind, v in strings:
            ln = spec_match(kind, ic, v, w, p)
            if ln and (best is None or ln > best[0]):
                best = (ln, v.lower() if ic else v)
        if best is None and rx is not None:
            m = rx.match(w, p)
            if m and m.group():
                best = (len(m.group()), "<ID>")
        if best is None:
            return ["SyntaxError", p]
        toks.append((p, p + best[0], best[1]))
        p += best[0]
    if not toks:
        return ["SyntaxError", p]
    return ["ok", toks]


# ------------------------------------------------------------------ main
def run(ctx):
    import time
    rng = ctx.rng
    quick = ctx.quick()
    tm = {}
    t0 = time.time()
    replay_known(ctx)
    tm["replay_known"] = round(time.time() - t0, 1)
    st = {"unescape_bodies": 0, "unescape_differs_from_conventional": 0, "front_end_cases": 0,
          "front_end_outcomes": {}, "front_end_nice": 0, "twin_compared": 0, "token_grammars": 0,
          "matrices": 0, "matrix_positions": 0, "matrix_hits": 0, "keyword_terminals": 0, "string_terminals": 0,
          "kw_metachar_texts": 0, "kw_nonword_edge": 0, "parses": 0, "accepts": 0, "rejects": 0, "states_sorted": 0,
          "kf_instances": {}, "ignore_case_cases": 0}
    samples = []
    distinct = set()

    listed = set(e["id"] for e in ctx.kf)

    def kf(kid, what):
        if kid not in listed:       # not (or no longer) in known_findings.json: an ordinary violation
            ctx.violation(what, {"mechanism_class": kid, "detail": what}, key="unlisted-" + kid)
            return
        st["kf_instances"][kid] = st["kf_instances"].get(kid, 0) + 1
        ctx.known_finding(kid, what)

    # ---------------- generate
    n_body = 1200 if quick else 12000
    n_ast = 900 if quick else 9000
    n_tok = 260 if quick else 2600
    bodies = []
    seenb = set()
    fixed = ["\\\\n", "\\\\\\\\", "\\n", "\\t", "a\\'b", "\\\"", "\\\\", "\\d\\.", "\\\\t", "\\\\\\'", "\\\\\\n"]
    for b in fixed:
        for q in "'\"":
            if body_valid(b, q) and (b, q) not in seenb:
                seenb.add((b, q))
                bodies.append((b, q))
    while len(bodies) < n_body:
        q = rng.choice("'\"")
        b = gen_body(rng, q)
        if b and (b, q) not in seenb and body_valid(b, q):
            seenb.add((b, q))
            bodies.append((b, q))
    asts = [gen_ast(rng) for _ in range(n_ast)]
    toks = [gen_tok(rng) for _ in range(n_tok)]

    # ---------------- model round 1: values of every body used anywhere
    allb = set(b for b, _ in bodies)
    for rules, terms, _ic in asts:
        for _, alts in rules:
            for alt in alts:
                allb.update(it[1] for it in alt if it[0] == "str")
        allb.update(rec[1] for _, rec, _ in terms if rec[0] == "str")
    for rules, terms, *_ in toks:
        for _, alts in rules:
            for alt in alts:
                allb.update(it[1] for it in alt if it[0] == "str")
    allb = sorted(allb)
    mc1 = [(190, [chars(b)]) for b in allb]
    t0 = time.time()
    o1 = common.model_run(mc1)
    tm["model1"] = round(time.time() - t0, 1)
    mval = {}
    for b, o in zip(allb, o1):
        mval[b] = unchars(o[0])
        if unchars(o[1]) != py_std_unescape(b):
            ctx.violation("harness self-check: model std_unescape and Python reference differ on %r" % b,
                          {"body": b}, no_input=True, key="selfcheck-std")

    def twin_of(rules):
        """declared names for the inline strings, one per distinct value"""
        tm = {}
        byval = {}
        for _, alts in rules:
            for alt in alts:
                for it in alt:
                    if it[0] == "str":
                        v = mval[it[1]]
                        if v not in byval:
                            byval[v] = "Tw%d_" % len(byval)
                        tm[(it[1], it[2])] = byval[v]
        return tm

    # ---------------- impl jobs
    jobs = []
    CH = 40
    for i in range(0, len(bodies), CH):
        jobs.append({"kind": "unescape", "id": ("u", i), "bodies": bodies[i:i + CH]})
    for i, (rules, terms, ic) in enumerate(asts):
        jobs.append({"kind": "ast", "id": ("a", i), "ic": ic, "inline": ast_text(rules, terms),
                     "twin": ast_text(rules, terms, twin_of(rules))})
    for i, (rules, terms, ic, texts, idre, kw, inputs) in enumerate(toks):
        jobs.append({"kind": "tok", "id": ("t", i), "ic": ic, "inline": ast_text(rules, terms),
                     "twin": ast_text(rules, terms, twin_of(rules)), "inputs": inputs, "parse": True})
        if i % 3 == 0:
            t2 = with_meta(rng, [(n, r, m) for n, r, m in terms] +
                           [("Tw%d_" % k, ("str", std_escape(t, "'"), "'"), "") for k, t in enumerate(texts)])
            rules2 = [rules[0], ("I", [[("ref", n)] for n, _, _ in t2 if n != "KEYWORD"])]
            jobs.append({"kind": "tok", "id": ("m", i), "ic": ic, "inline": ast_text(rules2, t2),
                         "inputs": inputs[:4], "parse": True})
    t0 = time.time()
    with mp.Pool(common.NPROC) as pool:
        results = pool.map(_worker, jobs, chunksize=4)
    tm["impl"] = round(time.time() - t0, 1)
    byid = {tuple(r["id"]): r for r in results}

    # ---------------- unescape: impl vs model, impl vs conventional reading
    for i in range(0, len(bodies), CH):
        r = byid[("u", i)]
        for (b, q), res in zip(bodies[i:i + CH], r["res"]):
            st["unescape_bodies"] += 1
            rep = {"grammar": "S: T0;\nterminals\nT0: %s%s%s;\n" % (q, b, q), "body": b, "input": None}
            if res[0] != "ok":
                ctx.violation("declared string terminal %s%s%s rejected: %s" % (q, b, q, res[1]), rep,
                              key="unescape-reject")
                continue
            if res[1] != mval[b]:
                ctx.violation("un-escaped value differs from the model: impl %r model %r (body %r)"
                              % (res[1], mval[b], b), dict(rep, impl=res[1], model=mval[b]),
                              no_input=(res[1] == py_std_unescape(b)), key="unescape-diff")
            std = py_std_unescape(b)
            if res[1] != std:
                st["unescape_differs_from_conventional"] += 1
                if double_unescape_class(b) and res[1] == mval[b]:
                    kf(KF_UNESC, "string constant %s%s%s denotes %r, conventional reading %r" % (q, b, q, res[1], std))
                else:
                    ctx.violation("string constant %s%s%s denotes %r instead of %r" % (q, b, q, res[1], std),
                                  dict(rep, expected=std, got=res[1]), key="unescape-wrong")
            else:
                distinct.add(("u", b))

    # ---------------- front end and recognizers: model round 2
    mc = []
    meta = []

    def model_ast(rules, terms, ic, values_kw):
        mr = []
        for name, alts in rules:
            ma = []
            for alt in alts:
                ma.append([[0, chars(it[1])] if it[0] == "ref" else [1, chars(mval[it[1]])] for it in alt])
            mr.append([chars(name), ma])
        mt = []
        for name, rec, _ in terms:
            if rec[0] == "re":
                mt.append([chars(name), [1, (REGEXES + KW_REGEXES + [r"\d"]).index(rec[1])]])
            else:
                mt.append([chars(name), [0, chars(mval[rec[1]])]])
        return [mr, mt, [chars(v) for v in values_kw]]

    def kw_regex_of(terms):
        for name, rec, _ in terms:
            if name == "KEYWORD" and rec[0] == "re":
                return rec[1]
        return None

    def kw_full(kwre, ic, values):
        if kwre is None:
            return []
        rx = re.compile(kwre, re.MULTILINE | re.VERBOSE | (re.IGNORECASE if ic else 0))
        out = []
        for v in values:
            m = rx.match(v, 0)
            if m and m.group() and m.group() == v:
                out.append(v)
        return out

    def all_values(rules, terms):
        vs = []
        for _, alts in rules:
            for alt in alts:
                vs += [mval[it[1]] for it in alt if it[0] == "str"]
        vs += [mval[rec[1]] for _, rec, _ in terms if rec[0] == "str"]
        return sorted(set(vs))

    kwls = {}
    for i, (rules, terms, ic) in enumerate(asts):
        vs = all_values(rules, terms)
        kwls[("ast", i)] = kw_full(kw_regex_of(terms), ic, vs)
        mc.append((191, model_ast(rules, terms, ic, kwls[("ast", i)])))
        meta.append(("ast", i))
    for i, (rules, terms, ic, texts, idre, kw, inputs) in enumerate(toks):
        vs = all_values(rules, terms)
        kwls[("tokast", i)] = kw_full(kw, ic, vs)
        mc.append((191, model_ast(rules, terms, ic, kwls[("tokast", i)])))
        meta.append(("tokast", i))
    n_front = len(mc)
    t0 = time.time()
    outs = common.model_run(mc)
    tm["model2"] = round(time.time() - t0, 1)

    def decode_dump(d):
        terms = [[unchars(t[0]), t[1][0], unchars(t[1][1]) if t[1][0] != 2 else t[1][1]] for t in d[0]]
        prods = [[unchars(p[0]), [[x[0], unchars(x[1])] for x in p[1]]] for p in d[1]]
        return terms, prods

    allre = REGEXES + KW_REGEXES + [r"\d"]

    def impl_norm(f):
        terms = []
        for name, kind, val, kwflag, _ic in f["terms"]:
            if kind == 2:
                terms.append([name, 2, allre.index(val) if val in allre else val])
            else:
                terms.append([name, kind, val])
        return terms, f["prods"]

    def is_kwc(err):
        return isinstance(err, str) and "Regex compile error" in err

    def check_front(tag, i, rules, terms, ic, o, r, kwl):
        st["front_end_cases"] += 1
        if ic:
            st["ignore_case_cases"] += 1
        fi = r["forms"]["inline"]
        ft = r["forms"].get("twin")
        gtxt = ast_text(rules, terms)
        rep = {"grammar": gtxt, "ignore_case": ic, "input": None}
        inline_vals = sorted(set(mval[it[1]] for _, alts in rules for alt in alts for it in alt if it[0] == "str"))
        bad = naming_defect_texts(inline_vals, rules, terms)
        # (1) correspondence model <-> impl
        if "err" in fi and is_kwc(fi["err"]):
            outcome = "error:keyword regex does not compile"
            ctx.violation("grammar with keyword text(s) %r rejected: %s" % (kwl, fi["err"][6:]), rep, key="front-kwc")
        elif "err" in fi:
            outcome = "error:%s" % (ERR_NAMES.get(fi["err"], fi["err"]))
            if o[0] != 1 or o[1] != fi["err"]:
                ctx.violation("Grammar.from_string raises %r but the model says %s"
                              % (fi["err"], "ok" if o[0] == 0 else ERR_NAMES.get(o[1])),
                              dict(rep, model=o[:2] if o[0] == 1 else "ok"), no_input=True, key="front-diff-err")
        else:
            outcome = "ok"
            if o[0] != 0:
                ctx.violation("Grammar.from_string succeeds but the model says error: %s" % ERR_NAMES.get(o[1]),
                              rep, no_input=True, key="front-diff-ok")
            else:
                mt, mp_ = decode_dump(o[1])
                it_, ip_ = impl_norm(fi)
                if mt != it_:
                    ctx.violation("terminals of the Grammar object differ from the model",
                                  dict(rep, model=mt, impl=it_), no_input=True, key="front-diff-terms")
                if mp_ != ip_:
                    ctx.violation("productions of the Grammar object differ from the model",
                                  dict(rep, model=mp_, impl=ip_), no_input=True, key="front-diff-prods")
                for name, kind, val, kwflag, tic in fi["terms"]:
                    if kind in (0, 1) and tic != ic:
                        ctx.violation("ignore_case flag of terminal %r is %r" % (name, tic), rep, key="front-ic")
        st["front_end_outcomes"][outcome] = st["front_end_outcomes"].get(outcome, 0) + 1
        # (2) property: inline == declared twin
        if ft is not None and not is_kwc(fi.get("err")) and not is_kwc(ft.get("err")):
            st["twin_compared"] += 1
            if "err" in ft:
                if "err" not in fi and bad and o[0] == 0:
                    kf(KF_NAMING, "inline string(s) %r capture a name of the grammar: the inline form is accepted while the "
                       "declared form is rejected (%s)" % (bad, ERR_NAMES.get(ft["err"], ft["err"])))
                elif "err" not in fi:
                    ctx.violation("inline form accepted but the declared form is rejected (%s)"
                                  % ERR_NAMES.get(ft["err"], ft["err"]), dict(rep, twin=ast_text(rules, terms, twin_of(rules))),
                                  key="twin-only-fails")
            elif "err" in fi:
                if bad and o[0] == 1 and o[1] == fi["err"]:
                    kf(KF_NAMING, "inline string(s) %r: grammar rejected (%s) while the declared form is accepted"
                       % (bad, ERR_NAMES.get(fi["err"], fi["err"])))
                else:
                    ctx.violation("inline form rejected (%s) while the same grammar with the strings declared in the "
                                  "terminals section is accepted" % ERR_NAMES.get(fi["err"], fi["err"]),
                                  rep, key="inline-rejected")
            else:
                # same recognizers for corresponding terminals
                ri = sorted((k, v) for _, k, v, _, _ in fi["terms"])
                rt = sorted((k, v) for _, k, v, _, _ in ft["terms"])
                if ri != rt:
                    ctx.violation("inline and declared forms give different recognizers", dict(rep, inline=ri, twin=rt),
                                  key="twin-recognizers")
                else:
                    distinct.add(("f", gtxt, ic))
        # (3) theorem tie (C19_inline_as_declared_partial run as a test): without texts of the naming class
        # a successful build is exactly spec_build
        if o[0] == 0 and not bad:
            st["front_end_nice"] += 1
            if o[1] != o[2]:
                ctx.violation("model build differs from spec_build on a grammar without naming-class texts",
                              dict(rep, build=o[1], spec=o[2]), no_input=True, key="selfcheck-spec")
        return fi, ft, rep, bad

    mc2 = []
    meta2 = []
    tokinfo = {}
    for (tag, i), o in zip(meta, outs):
        if tag == "ast":
            rules, terms, ic = asts[i]
            check_front(tag, i, rules, terms, ic, o, byid[("a", i)], kwls[(tag, i)])
            if len(samples) < 2 and o[0] == 0 and i > 5:
                samples.append({"grammar": ast_text(rules, terms), "ignore_case": ic,
                                "impl_terminals": byid[("a", i)]["forms"]["inline"].get("terms")})
        else:
            rules, terms, ic, texts, idre, kw, inputs = toks[i]
            r = byid[("t", i)]
            fi, ft, rep, bad = check_front(tag, i, rules, terms, ic, o, r, kwls[(tag, i)])
            st["token_grammars"] += 1
            tokinfo[i] = (fi, ft, rep, bad)
            # recognizer matrices of every built form against model and property
            for form, f in (("inline", fi), ("twin", ft)):
                if f is None or "err" in f:
                    continue
                if "matrix_err" in f:
                    ctx.violation("recognizer raised %s" % f["matrix_err"], rep, key="matrix-exc")
                    continue
                for name, kind, val, kwflag, tic in f["terms"]:
                    if kind not in (0, 1):
                        continue
                    for w in inputs:
                        mc2.append((192, [1 if ic else 0, kind, chars(val), chars(w)]))
                        meta2.append((i, form, name, kind, val, w))
    t0 = time.time()
    outs2 = common.model_run(mc2)
    tm["model3"] = round(time.time() - t0, 1)
    for (i, form, name, kind, val, w), o in zip(meta2, outs2):
        rules, terms, ic, texts, idre, kw, inputs = toks[i]
        f = tokinfo[i][0 if form == "inline" else 1]
        rep = dict(tokinfo[i][2], form=form, input=w, terminal=name, text=val)
        if form == "twin":
            rep["grammar"] = ast_text(rules, terms, twin_of(rules))
        row = f["matrix"][name][w]
        st["matrices"] += 1
        st["matrix_positions"] += len(w)
        st["matrix_hits"] += sum(1 for x in row if x)
        if kind == 0:
            st["string_terminals"] += 1
        else:
            st["keyword_terminals"] += 1
        if True:
            if row != o[0]:
                ctx.violation("recognizer of %s terminal %r on %r: impl match lengths %r, model %r"
                              % ("string" if kind == 0 else "keyword", val, w, row, o[0]),
                              dict(rep, impl=row, model=o[0]), no_input=True, key="matrix-diff-%d" % kind)
        spec = [spec_match(kind, ic, val, w, p) for p in range(len(w))]
        if kind == 1 and spec != [len(val) if b else 0 for b in o[1]]:
            ctx.violation("harness self-check: kw_spec (model) and Python reference differ", rep, no_input=True,
                          key="selfcheck-kwspec")
        if row != spec:
            p = next(k for k in range(len(w)) if row[k] != spec[k])
            ctx.violation("%s terminal %r %s at position %d of %r"
                          % ("keyword" if kind == 1 else "string", val,
                             "matches (length %d) where it must not" % row[p] if row[p] else "does not match",
                             p, w), dict(rep, expected=spec, got=row), key="literal-%d" % kind)
        else:
            if kind == 1 and val and any(c not in REGEX_PLAIN for c in val):
                st["kw_metachar_texts"] += 1
            if kind == 1 and val and (not is_word(val[0]) or not is_word(val[-1])):
                st["kw_nonword_edge"] += 1
            if any(row):
                distinct.add(("m", val, kind, ic, w))

    # ---------------- token streams and table order
    mc3 = []
    meta3 = []
    for i, (rules, terms, ic, texts, idre, kw, inputs) in enumerate(toks):
        fi, ft, rep, bad = tokinfo[i]
        streams = {}
        for form, f in (("inline", fi), ("twin", ft)):
            if f is None or "err" in f:
                continue
            if "parser_err" in f:
                ctx.violation("Parser construction fails: %s" % f["parser_err"], dict(rep, form=form),
                              key="parser-construct")
                continue
            name2 = {name: (kind, val) for name, kind, val, _, _ in f["terms"]}
            strings = [(kind, val) for name, kind, val, _, _ in f["terms"] if kind in (0, 1)]
            for acts, flags in f["states"]:
                mc3.append((193, sorted(([chars(a[0])] + a[1:]) for a in acts)))
                meta3.append((i, form, acts, flags, rep))
            for w in inputs:
                st["parses"] += 1
                res = f["parses"][w]
                if res[0] == "ok":
                    st["accepts"] += 1
                    got = ["ok", [(s, e, "<ID>" if name2[nm][0] == 2 else
                                   (name2[nm][1].lower() if ic else name2[nm][1])) for s, e, nm in res[1]]]
                elif res[0] == "SyntaxError":
                    st["rejects"] += 1
                    got = ["SyntaxError", res[1]]
                else:
                    got = res
                streams[(form, w)] = got
                exp = ref_tokenize(strings, idre, ic, w)
                if got != exp:
                    r2 = dict(rep, form=form, input=w, expected=exp, got=got)
                    if form == "twin":
                        r2["grammar"] = ast_text(rules, terms, twin_of(rules))
                    ctx.violation("tokens chosen on input %r: %r, literal/whole-word reference scanner: %r"
                                  % (w, got, exp), r2, key="tokens")
                elif got[0] == "ok":
                    distinct.add(("p", rep["grammar"], form, w))
                    if len(samples) < 5 and len(got[1]) >= 3 and kw:
                        samples.append({"grammar": rep["grammar"], "ignore_case": ic, "input": w, "tokens": got[1]})
        for w in inputs:
            a, b = streams.get(("inline", w)), streams.get(("twin", w))
            if a is not None and b is not None and a != b:
                ctx.violation("inline and declared forms tokenize %r differently: %r vs %r" % (w, a, b),
                              dict(rep, input=w), key="twin-tokens")
        rm = byid.get(("m", i))
        if rm is not None:
            f = rm["forms"]["inline"]
            if "err" in f or "parser_err" in f:
                ctx.violation("declared-form grammar with priorities fails to build: %r"
                              % (f.get("err") or f.get("parser_err")), {"grammar": jobs_text(jobs, ("m", i))},
                              no_input=True, key="meta-build")
            else:
                for acts, flags in f["states"]:
                    mc3.append((193, sorted(([chars(a[0])] + a[1:]) for a in acts)))
                    meta3.append((i, "meta", acts, flags, {"grammar": jobs_text(jobs, ("m", i)), "ignore_case": ic}))
    t0 = time.time()
    outs3 = common.model_run(mc3)
    tm["model4"] = round(time.time() - t0, 1)
    for (i, form, acts, flags, rep), o in zip(meta3, outs3):
        st["states_sorted"] += 1
        order = [unchars(x) for x in o[0]]
        mflags = [bool(x) for x in o[1]]
        iorder = [a[0] for a in acts]
        if order != iorder or mflags != flags:
            ctx.violation("order/finish flags of a state's actions differ from the model: impl %r %r, model %r %r"
                          % (iorder, flags, order, mflags), dict(rep, form=form, input=None), no_input=True,
                          key="sort-diff")
        # property: a keyword sits exactly where the string terminal would, flagged like a string
        if [unchars(x) for x in o[2]] != order:
            ctx.violation("keyword terminals are not ordered like string terminals: %r vs %r"
                          % (order, [unchars(x) for x in o[2]]), dict(rep, form=form, input=None), key="kw-rank")
        for a, fl in zip(acts, flags):
            if a[2] == 1 and a[5] == 0 and not fl:
                ctx.violation("keyword terminal %r lost the finish flag of string recognizers" % a[0],
                              dict(rep, form=form, input=None), key="kw-finish")

    t0 = time.time()
    allc = mc1 + mc + mc2 + mc3
    allo = o1 + outs + outs2 + outs3
    nx, xok, xlog = common.coq_crosscheck("C19", allc, allo, ctx.rng, sample=60 if quick else 200)
    if not xok:
        ctx.violation("extraction cross-check failed: OCaml driver and vm_compute disagree", {"log": xlog},
                      no_input=True)
    tm["xcheck"] = round(time.time() - t0, 1)
    st["phase_seconds"] = tm
    cov = {
        "evaluations": st["unescape_bodies"] + st["front_end_cases"] + st["matrices"] + st["parses"] + st["states_sorted"],
        "distinct_nontrivial": len(distinct),
        "rule": "seeded: random string-constant bodies (both quote kinds, rich in backslashes); random grammar ASTs "
                "(1-3 rules, declared string/regex terminals, optional KEYWORD, inline strings from a nice pool, a nasty "
                "pool - dots, symbol names, reserved names, control characters - and random bodies), each built inline "
                "and with the strings declared; token-list grammars S: S I | I with 2-5 strings, optional identifier "
                "regex and KEYWORD, ignore_case on/off, ~24 inputs concatenated from the texts, case variants, word "
                "characters and separators; non-trivial = conventional un-escape agrees / both forms build alike / "
                "recognizer row with a match / accepted token stream equal to the reference",
        "samples": samples,
        "distribution": st,
        "traces_validated_against_impl": st["matrices"] + st["parses"],
        "crosscheck_vm_compute_cases": nx,
        "exhaustive": False,
    }
    return cov


def jobs_text(jobs, jid):
    for j in jobs:
        if tuple(j["id"]) == tuple(jid):
            return j.get("inline")
    return None


def replay(ctx, rep):
    g = rep.get("grammar")
    ic = bool(rep.get("ignore_case"))
    w = rep.get("input")
    job = {"kind": "tok", "id": ("r", 0), "ic": ic, "inline": g, "inputs": [w] if w else [], "parse": bool(w)}
    r = _worker(job)
    f = r["forms"]["inline"]
    print(json.dumps({"grammar": g, "ignore_case": ic, "input": w,
                      "construction": f.get("err", "ok"), "terminals": f.get("terms"),
                      "parse": (f.get("parses") or {}).get(w), "expected": rep.get("expected"),
                      "what": rep.get("what")}, indent=1, default=str))
    return 1 if ("err" in f or rep.get("expected") not in (None, (f.get("parses") or {}).get(w))) else 0
