"""C20 -- a grammar split over imported files means the same as the flattened grammar.

Per generated directory of .pg files:
  * correspondence: Grammar.from_file(root) of the impl vs the extracted model
    (Model/Imports.v build_grammar): outcome (ok / GrammarError kind / crash), registry with
    first-path names, grammar.nonterminals and terminals (keys, order, defining file),
    grammar.productions (order, resolved right-hand sides, orphan non-terminal objects);
  * property oracle, independent of the model: a Python specification of "what a reference
    denotes" and of the flattened single-file grammar; every right-hand side element of the
    impl's grammar must be the denoted symbol, and the modular and the flattened grammar
    must accept the same inputs with the same trees (GLR, sentences + mutations + all
    short strings).
"""
import multiprocessing as mp
import os
import shutil
import tempfile

from lib import common

LEVEL = "proof"
ASSUMPTIONS = [
    "theorems are about the Gallina model Model/Imports.v (loader with registry, root-relative local-first "
    "resolution, override validation, collection); the impl is tied to it by differential runs on generated "
    "directories, not by proof",
    "C20_reference_denotation needs: no override rules (no dotted rule names) and no two imports of one file "
    "sharing a module name with different targets; C20_override_* need tree-shaped imports and the override "
    "in the root file; diamonds are refuted (C20_*_refuted)",
    "equality of languages/results of modular and flattened grammar (C20_iso) is not a theorem: it is checked "
    "by the flatten oracle on generated directories and inputs",
    "PG-language features other than imports (sugar, priorities, actions, EMPTY, regex terminals) are not "
    "generated here (C13/C19 cover them)",
]

KF_OVR = "KF-C20-override-misses-users"
KF_INL = "KF-C20-inline-terminal-unqualified"
KF_CYC = "KF-C20-cycle-override-crash"

ERR_CODES = [("Multiple definitions of terminal rule", 1), ("match the same string", 2),
             ("already defined as terminal", 3), ("Unexisting name for symbol override", 4),
             ("Unexisting module", 5), ("Unknown symbol", 6), ("Can't import file", 7)]


# ------------------------------------------------------------------ directories
def seg(n):
    return tuple(n.split("."))


def rel_import(D, f, t):
    files = D["files"]
    tp = files[t]["path"] if t < len(files) else "missing%d.pg" % t
    here = os.path.dirname(files[f]["path"])
    rel = os.path.relpath(tp, here or ".")
    # non-canonical spellings of the same file (the loader must recognise a file it has seen)
    style = D.get("spell", {}).get("%d:%d" % (f, t), 0)
    if style == 1:
        return "./" + rel
    if style == 2:
        if here:
            # from a/x.pg: '../a/<rel>'
            return os.path.join("..", os.path.basename(here), rel)
        d = os.path.dirname(tp)
        if d:
            return os.path.join(d, "..", rel)            # 'sub/../sub/m.pg'
        return "./" + rel
    return rel


def print_file(D, f):
    F = D["files"][f]
    out = []
    for (m, t, explicit) in F["imports"]:
        out.append("import '%s'%s;" % (rel_import(D, f, t), " as %s" % m if explicit else ""))
    for lhs, rhs in F["prods"]:
        out.append("%s: %s;" % (lhs, " ".join(e[1] if e[0] == "ref" else "'%s'" % e[1] for e in rhs)))
    if F["terms"]:
        out.append("terminals")
        for n, v in F["terms"]:
            out.append("%s: '%s';" % (n, v))
    return "\n".join(out) + "\n"


def dir_text(D):
    return {F["path"]: print_file(D, i) for i, F in enumerate(D["files"])}


class Intern:
    def __init__(self):
        self.ids = {}
        self.names = []

    def __call__(self, s):
        if s not in self.ids:
            self.ids[s] = len(self.names) + 1
            self.names.append(s)
        return self.ids[s]

    def name(self, n):
        return [self(x) for x in n.split(".")]

    def back(self, ids):
        return ".".join(self.names[i - 1] if 0 < i <= len(self.names) else "?%d" % i for i in ids)


def encode(D, it):
    files = []
    for F in D["files"]:
        files.append([
            [[it(m), t] for (m, t, _) in F["imports"]],
            [[it.name(lhs), [[0, it.name(e[1])] if e[0] == "ref" else [1, it(e[1])] for e in rhs]]
             for lhs, rhs in F["prods"]],
            [[it.name(n), it(v)] for n, v in F["terms"]],
        ])
    return files


# ------------------------------------------------------------------ specification (Python)
def imports_map(F):
    m = {}
    dup = False
    for (mod, t, _) in F["imports"]:
        if mod in m and m[mod] != t:
            dup = True
        m[mod] = t
    return m, dup


def walk(D, f, q):
    for mod in q:
        if f >= len(D["files"]):
            return None
        m, _ = imports_map(D["files"][f])
        if mod not in m:
            return None
        f = m[mod]
    return f


def inline_strs(F):
    out = []
    for _, rhs in F["prods"]:
        for e in rhs:
            if e[0] == "str" and e[1] not in out:
                out.append(e[1])
    return out


def local_kind(F, nm):
    """nm: tuple of segments"""
    dotted = ".".join(nm)
    if any(lhs == dotted for lhs, _ in F["prods"]):
        return "nt"
    for n, v in F["terms"]:
        if n == dotted:
            return "td"
    if len(nm) == 1 and nm[0] in inline_strs(F):
        return "ti"
    return None


def spec(D):
    """Returns dict: status in valid/invalid/ambiguous/outofscope, reg, canon(), flat text ..."""
    files = D["files"]
    n = len(files)
    S = {"status": "valid", "why": "", "reg": [], "overrides": {}, "flat": None}
    reg = []
    seen = set()
    missing = []

    def load(f, p):
        seen.add(f)
        reg.append((f, p))
        for (mod, t, _) in files[f]["imports"]:
            if t in seen:
                continue
            if t >= n:
                missing.append(t)
                return False
            if not load(t, p + (mod,)):
                return False
        return True

    ok = load(0, ())
    S["reg"] = reg
    path = dict(reg)
    if not ok:
        S["status"], S["why"] = "invalid", "import of a missing file"
        return S
    for f, _ in reg:
        F = files[f]
        _, dup = imports_map(F)
        if dup:
            S["status"], S["why"] = "outofscope", "two imports of one file share a module name"
        names = [x for x, _ in F["terms"]] + inline_strs(F)
        vals = [v for _, v in F["terms"]] + inline_strs(F)
        if len(set(names)) != len(names) or len(set(vals)) != len(vals) or \
                any(lhs in names for lhs, _ in F["prods"]):
            S["status"], S["why"] = "invalid", "terminal defined twice / same string / rule is a terminal"
            return S
    if S["status"] != "valid":
        return S
    # overrides
    ovr = {}
    for f, _ in reg:
        F = files[f]
        for o in list(dict.fromkeys([lhs for lhs, _ in F["prods"]] + [x for x, _ in F["terms"]])):
            so = seg(o)
            if len(so) < 2:
                continue
            g = walk(D, f, so[:-1])
            if g is None or g >= n or local_kind(files[g], so[-1:]) is None:
                S["status"], S["why"] = "invalid", "override %s names nothing" % o
                return S
            ovr.setdefault((g, so[-1]), []).append((f, o))
    S["overrides"] = ovr
    if any(len(v) > 1 for v in ovr.values()):
        S["status"], S["why"] = "ambiguous", "two override rules for one target"
        return S

    def canon(g, x):
        if (g, x) in ovr:
            return ovr[(g, x)][0]
        return (g, x)

    def denote(f, nm):
        so = seg(nm)
        g = walk(D, f, so[:-1])
        if g is None or g >= n:
            return None
        if local_kind(files[g], so[-1:]) is None:
            return None
        return canon(g, so[-1])

    S["denote"] = denote

    def flatname(ident):
        f, nm = ident
        return "__".join(path[f] + seg(nm))

    def kind_of(ident):
        f, nm = ident
        return local_kind(files[f], seg(nm))

    # reachable closure from the rules of the root file
    order = []
    seen_id = set()
    for lhs, _ in files[0]["prods"]:
        if (0, lhs) not in seen_id:
            seen_id.add((0, lhs))
            order.append((0, lhs))
    if any((0, lhs) in ovr for lhs, _ in files[0]["prods"]):
        S["status"], S["why"] = "ambiguous", "a rule of the root file is overridden through a cycle"
        return S
    work = list(order)
    term_ids = []
    flat_rules = {}
    while work:
        ident = work.pop(0)
        f, nm = ident
        rules = []
        for lhs, rhs in files[f]["prods"]:
            if lhs != nm:
                continue
            els = []
            for e in rhs:
                if e[0] == "str":
                    els.append("'%s'" % e[1])
                    continue
                t = denote(f, e[1])
                if t is None:
                    S["status"], S["why"] = "invalid", "reference %s in %s denotes nothing" % (e[1], files[f]["path"])
                    return S
                k = kind_of(t)
                if k == "ti":
                    els.append("'%s'" % t[1])
                else:
                    els.append(flatname(t))
                    if k == "nt" and t not in seen_id:
                        seen_id.add(t)
                        order.append(t)
                        work.append(t)
                    if k == "td" and t not in term_ids:
                        term_ids.append(t)
            rules.append(els)
        flat_rules[ident] = rules
    S["reachable"] = order
    lines = []
    for ident in order:
        for els in flat_rules[ident]:
            lines.append("%s: %s;" % (flatname(ident), " ".join(els)))
    for x, _ in files[0]["terms"]:
        if (0, x) not in term_ids and (0, x) not in ovr:
            term_ids.append((0, x))
    if term_ids:
        lines.append("terminals")
        for (f, x) in term_ids:
            v = [v for nn, v in files[f]["terms"] if nn == x][0]
            lines.append("%s: '%s';" % (flatname((f, x)), v))
    S["flat"] = "\n".join(lines) + "\n"
    S["flat_rules"] = {flatname(i): flat_rules[i] for i in order}
    S["start"] = flatname(order[0])
    return S


def sentences(S, rng, count, maxdepth=7):
    """random sentences of the flattened grammar (token = one string literal)"""
    rules = S["flat_rules"]
    tv = {}
    for line in S["flat"].split("terminals\n")[1].splitlines() if "terminals\n" in S["flat"] else []:
        nm, v = line.split(": ")
        tv[nm] = v.strip(";").strip("'")
    out = set()

    def gen(sym, depth):
        if sym.startswith("'"):
            return sym[1:-1]
        if sym in tv:
            return tv[sym]
        alts = rules.get(sym)
        if not alts or depth > maxdepth:
            raise RecursionError
        alt = rng.choice(alts)
        return "".join(gen(x, depth + 1) for x in alt)

    for _ in range(count * 4):
        try:
            out.add(gen(S["start"], 0))
        except RecursionError:
            pass
        if len(out) >= count:
            break
    return sorted(out)


def alphabet(D):
    al = []
    for F in D["files"]:
        for s in inline_strs(F) + [v for _, v in F["terms"]]:
            if s not in al:
                al.append(s)
    return al


# ------------------------------------------------------------------ impl side
def _tree_tup(t, ren):
    if t.root.is_term():
        return ("T", t.start_position, t.end_position)
    return ("N", ren(t.root.symbol.fqn), tuple(_tree_tup(c, ren) for c in t.children))


def _parse_all(p, inputs, ren, impl, parglare):
    res = {}
    for w in inputs:
        try:
            with impl.time_limit(5):
                forest = p.parse(w)
                n = len(forest)
                trees = sorted(repr(_tree_tup(forest[i], ren)) for i in range(n)) if n <= 6 else []
                res[w] = ["ok", n, trees]
        except parglare.SyntaxError:
            res[w] = ["reject"]
        except BaseException as e:  # noqa
            res[w] = ["error", impl.exc_kind(e)]
    return res


def _worker(job):
    D, flat, inputs = job["dir"], job["flat"], job["inputs"]
    import parglare
    from parglare import GLRParser, Grammar
    from parglare.grammar import NonTerminal, Terminal
    from lib import impl
    out = {"status": None}
    tmp = tempfile.mkdtemp(prefix="c20_")
    try:
        for rel, txt in dir_text(D).items():
            p = os.path.join(tmp, rel)
            os.makedirs(os.path.dirname(p), exist_ok=True)
            with open(p, "w") as fh:
                fh.write(txt)
        idx = {os.path.realpath(os.path.join(tmp, F["path"])): i for i, F in enumerate(D["files"])}
        try:
            with impl.time_limit(40):
                g = Grammar.from_file(os.path.join(tmp, D["files"][0]["path"]))
        except BaseException as e:  # noqa
            kind = impl.exc_kind(e)
            msg = str(e).replace(tmp, "")
            if kind == "GrammarError":
                code = 99
                for pat, c in ERR_CODES:
                    if pat in msg:
                        code = c
                        break
                out["status"] = ["err", code, msg[-160:]]
            else:
                out["status"] = ["crash", kind, msg[-160:]]
            g = None
        if g is not None:
            out["status"] = ["ok"]

            def fidx(s):
                iw = getattr(s, "imported_with", None)
                return 0 if iw is None else idx.get(os.path.realpath(iw.file_path), -1)

            out["reg"] = [[idx.get(pth, -1), (pf.imported_with.fqn if pf.imported_with else "")]
                          for pth, pf in g.imported_files.items()]
            out["nts"] = [[k, fidx(s), s.name] for k, s in g.nonterminals.items() if k != "S'"]
            out["ts"] = [[k, getattr(t.recognizer, "value", None)] for k, t in g.terminals.items()
                         if k not in ("EMPTY", "STOP")]
            prods = []
            for pr in g.productions[1:]:
                rhs = []
                for s in pr.rhs:
                    if isinstance(s, Terminal):
                        rhs.append([0, s.fqn, getattr(s.recognizer, "value", None),
                                    g.terminals.get(s.fqn) is s])
                    elif isinstance(s, NonTerminal):
                        rhs.append([1, s.fqn, fidx(s), s.name, g.nonterminals.get(s.fqn) is not s])
                    else:
                        rhs.append([2, repr(s)])
                prods.append([pr.symbol.fqn, fidx(pr.symbol), pr.symbol.name, rhs])
            out["prods"] = prods
            # every production knows which alternative of ITS rule it is (a per-alternative action list
            # is indexed by it): rules of different files may share a bare name
            seen_alt = {}
            bad_psid = []
            for pr in g.productions[1:]:
                k = seen_alt.get(id(pr.symbol), 0)
                seen_alt[id(pr.symbol)] = k + 1
                if pr.prod_symbol_id != k:
                    bad_psid.append([pr.symbol.fqn, k, pr.prod_symbol_id])
            out["bad_psid"] = bad_psid[:5]
            # language of the modular grammar
            if inputs is not None:
                for attempt in (0, 1):
                    try:
                        with impl.time_limit(10 if attempt == 0 else 60):
                            with impl.quiet():
                                pm = GLRParser(g)
                        out["mod"] = _parse_all(pm, inputs, lambda x: x, impl, parglare)
                        out.pop("mod_err", None)
                        break
                    except BaseException as e:  # noqa
                        out["mod_err"] = impl.exc_kind(e)
                        import traceback as _tb
                        out.setdefault("mod_err_tb", []).append(_tb.format_exc()[-1500:].replace(tmp, ""))
                        if attempt == 0:
                            # once more on a freshly loaded grammar (reported as mod_retry)
                            out["mod_retry"] = out["mod_err"]
                            for dp, _, fs in os.walk(tmp):      # an interrupted run leaves a truncated table cache
                                for fn in fs:
                                    if fn.endswith(".pgc"):
                                        os.remove(os.path.join(dp, fn))
                            with impl.time_limit(40):
                                g = Grammar.from_file(os.path.join(tmp, D["files"][0]["path"]))
        if flat is not None and inputs is not None:
            try:
                with impl.time_limit(8):
                    gf = Grammar.from_string(flat)
                    with impl.quiet():
                        pf = GLRParser(gf)
                out["flat"] = _parse_all(pf, inputs, lambda x: x.replace("__", "."), impl, parglare)
            except BaseException as e:  # noqa
                out["flat_err"] = impl.exc_kind(e) + ": " + str(e)[-120:]
    finally:
        shutil.rmtree(tmp, ignore_errors=True)
    return out


# ------------------------------------------------------------------ generator
FILE_NAMES = ["root.pg", "l.pg", "r.pg", "base.pg", "sub/m.pg"]
FILE_LAYOUTS = [FILE_NAMES, FILE_NAMES, ["root.pg", "sub/l.pg", "r.pg", "lib/base.pg", "sub/m.pg"],
                ["root.pg", "l.pg", "sub/r.pg", "sub/base.pg", "m.pg"]]
NT_POOL = ["A", "B", "C"]


def gen_shape(rng, n):
    """list of directed import edges (src, dst) in text order; returns (shape name, edges)"""
    shapes = ["chain", "star", "random", "cycle", "mutual"]
    if n >= 3:
        shapes += ["diamond", "diamond", "diamond_cycle"]
    sh = rng.choice(shapes)
    E = []
    if sh == "chain":
        E = [(i, i + 1) for i in range(n - 1)]
    elif sh == "star":
        E = [(0, i) for i in range(1, n)]
    elif sh == "cycle":
        E = [(i, i + 1) for i in range(n - 1)] + [(n - 1, rng.randrange(0, n - 1) if n > 1 else 0)]
    elif sh == "mutual":
        E = [(0, 1), (1, 0)] + [(rng.randrange(0, i), i) for i in range(2, n)]
    elif sh in ("diamond", "diamond_cycle"):
        if n == 3:
            E = [(0, 1), (0, 2), (1, 2)]
        else:
            E = [(0, 1), (0, 2), (1, 3), (2, 3)] + [(rng.randrange(0, 4), i) for i in range(4, n)]
        if rng.random() < 0.5:
            E = [E[1], E[0]] + E[2:]          # import order decides the first path
        if sh == "diamond_cycle":
            E.append((n - 1, rng.randrange(0, n - 1)))
    else:
        for i in range(1, n):
            E.append((rng.randrange(0, i), i))
        for _ in range(rng.randrange(0, 3)):
            E.append((rng.randrange(0, n), rng.randrange(0, n)))
    # dedupe keeping order
    E = list(dict.fromkeys(E))
    return sh, E


def reachable_paths(D, f, maxlen):
    """module paths (tuples) of length 1..maxlen from file f with their target"""
    out = []
    frontier = [((), f)]
    for _ in range(maxlen):
        nxt = []
        for q, g in frontier:
            if g >= len(D["files"]):
                continue
            m, _ = imports_map(D["files"][g])
            for mod, t in m.items():
                nxt.append((q + (mod,), t))
        out += nxt
        frontier = nxt
    return out


def gen_dir(rng, tier):
    n = rng.choice([2, 3, 3, 4, 4, 4] if tier == "quick" else [2, 3, 3, 4, 4, 4, 5])
    shape, E = gen_shape(rng, n)
    names = rng.choice(FILE_LAYOUTS)
    files = [{"path": names[i], "imports": [], "prods": [], "terms": []} for i in range(n)]
    D = {"files": files, "shape": shape, "tags": [], "spell": {}}
    if rng.random() < 0.4:
        # the same file is spelled differently by different importers
        for (a, b) in E:
            if rng.random() < 0.6:
                D["spell"]["%d:%d" % (a, b)] = rng.choice([1, 2, 2])
        D["tags"].append("spelled")
    use_alias = rng.random() < 0.5
    for (a, b) in E:
        base = os.path.splitext(os.path.basename(files[b]["path"]))[0]
        if use_alias and rng.random() < 0.6:
            files[a]["imports"].append(("i%d" % b if rng.random() < 0.8 else base + "x", b, True))
        else:
            files[a]["imports"].append((base, b, False))
    if use_alias:
        D["tags"].append("alias")
    # local symbols
    letters = "abcdefgh"
    for i, F in enumerate(files):
        nts = (["S"] if i == 0 else []) + rng.sample(NT_POOL, rng.randrange(1, 3))
        F["_nts"] = nts
        if rng.random() < 0.35:
            F["terms"].append(("T%d" % i if rng.random() < 0.7 else "T", "t%d" % i if False else "pqrstu"[i]))
    for i, F in enumerate(files):
        mine = letters[2 * i % 8] + letters[(2 * i + 1) % 8]
        paths = reachable_paths(D, i, 2)
        for nt in F["_nts"]:
            nprod = rng.choice([1, 2, 2, 3]) if nt != "S" else rng.choice([1, 2])
            for k in range(nprod):
                rhs = []
                ln = rng.choice([1, 2, 2, 3])
                for _ in range(ln):
                    r = rng.random()
                    if r < 0.35 or (k == nprod - 1 and nt != "S"):
                        rhs.append(("str", rng.choice(mine if rng.random() < 0.8 else letters)))
                    elif r < 0.55:
                        rhs.append(("ref", rng.choice(F["_nts"])))
                    elif r < 0.62 and F["terms"]:
                        rhs.append(("ref", F["terms"][0][0]))
                    elif paths:
                        q, t = rng.choice(paths)
                        if t < n:
                            T = files[t]
                            cands = list(T["_nts"]) + [x for x, _ in T["terms"]]
                            rhs.append(("ref", ".".join(q + (rng.choice(cands),))))
                        else:
                            rhs.append(("str", rng.choice(mine)))
                    else:
                        rhs.append(("str", rng.choice(mine)))
                if nt == "S" and k == 0 and paths and not any(e[0] == "ref" and "." in e[1] for e in rhs):
                    q, t = rng.choice(paths)
                    if t < n:
                        rhs.append(("ref", ".".join(q + (rng.choice(files[t]["_nts"]),))))
                F["prods"].append((nt, rhs))
        if rng.random() < 0.3:
            rng.shuffle(F["prods"])
            if i == 0:
                k = [j for j, p in enumerate(F["prods"]) if p[0] == "S"][0]
                F["prods"].insert(0, F["prods"].pop(k))
    # overrides
    if rng.random() < 0.4:
        D["tags"].append("override")
        for _ in range(rng.choice([1, 1, 2])):
            h = rng.choice([0, 0, 0] + list(range(n)))
            paths = [(q, t) for q, t in reachable_paths(D, h, 3) if t < n and t != h]
            if not paths:
                continue
            q, t = rng.choice(paths)
            T = files[t]
            cands = list(T["_nts"]) + [x for x, _ in T["terms"]]
            x = rng.choice(cands)
            body = [("str", rng.choice("xyz"))]
            if rng.random() < 0.3:
                body.append(("ref", rng.choice(files[h]["_nts"])))
            name = ".".join(q + (x,))
            if rng.random() < 0.2 and any(nn == x for nn, _ in T["terms"]):
                files[h]["terms"].append((name, rng.choice("xyz")))
            else:
                files[h]["prods"].append((name, body))
    # malformed stream
    r = rng.random()
    if r < 0.04:
        D["tags"].append("bad-ref")
        F = rng.choice(files)
        F["prods"].append((F["_nts"][0], [("ref", rng.choice(["nosuch", "nomod.A", "l.nosuch", "base.Q"]))]))
    elif r < 0.07:
        D["tags"].append("bad-override")
        rng.choice(files)["prods"].append((rng.choice(["nomod.A", "l.Nosuch", "base.Zed", "r.base.Nope"]),
                                           [("str", "x")]))
    elif r < 0.09:
        D["tags"].append("missing-file")
        rng.choice(files)["imports"].append(("gone", n + 3, True))
    elif r < 0.11:
        D["tags"].append("dup-module")
        F = rng.choice(files)
        if F["imports"]:
            m = F["imports"][0][0]
            F["imports"].append((m, rng.randrange(0, n), True))
    elif r < 0.14:
        D["tags"].append("inline-capture")
        # the root declares a terminal named like an inline string of another file
        cands = [s for F in files[1:] for s in inline_strs(F)]
        if cands:
            files[0]["terms"].append((rng.choice(cands), rng.choice("xyz")))
    elif r < 0.16:
        D["tags"].append("term-clash")
        F = rng.choice(files)
        ss = inline_strs(F)
        if ss:
            F["terms"].append((rng.choice(["Tz", ss[0]]), ss[0]))
    elif r < 0.18:
        D["tags"].append("self-import")
        F = rng.choice(files)
        i = files.index(F)
        F["imports"].append(("me", i, True))
        F["prods"].append((F["_nts"][0], [("ref", "me." + F["_nts"][0]), ("str", "x")]))
    for F in files:
        F.pop("_nts", None)
    return D


CURATED = []


def _cur(files, tag):
    CURATED.append({"files": [{"path": p, "imports": im, "prods": pr, "terms": te}
                              for (p, im, pr, te) in files], "shape": "curated", "tags": [tag]})


def _diamond(ov, tag):
    _cur([("root.pg", [("l", 1, False), ("r", 2, False)],
           [("S", [("ref", "l.L"), ("ref", "r.R")])] + ov, []),
          ("l.pg", [("base", 3, False)], [("L", [("str", "l"), ("ref", "base.C")])], []),
          ("r.pg", [("base", 3, False)], [("R", [("str", "r"), ("ref", "base.C")])], []),
          ("base.pg", [], [("C", [("str", "c"), ("ref", "D")]), ("D", [("str", "d")])], [])], tag)


_diamond([], "diamond")
_diamond([("l.base.C", [("str", "z")])], "diamond-first-path-override")
_diamond([("r.base.C", [("str", "z")])], "diamond-second-path-override")
_diamond([("l.base.D", [("str", "z")])], "diamond-inner-override")
_cur([("root.pg", [("m", 1, False)], [("S", [("ref", "m.M"), ("ref", "a")])], [("a", "x")]),
      ("m.pg", [], [("M", [("str", "a")])], [])], "inline-capture")
_cur([("root.pg", [("b", 1, False), ("d", 2, False)], [("S", [("ref", "b.B"), ("ref", "d.D")])], []),
      ("b.pg", [("root", 0, False)], [("B", [("str", "b"), ("ref", "root.d.D")]),
                                      ("root.d.D", [("str", "z")])], []),
      ("d.pg", [], [("D", [("str", "d")])], [])], "cycle-override")
_cur([("root.pg", [("b", 1, False)], [("S", [("str", "a"), ("ref", "b.B")]), ("S", [("str", "x")])], []),
      ("b.pg", [("root", 0, False)], [("B", [("str", "b"), ("ref", "root.S")])], [])], "mutual")
_cur([("root.pg", [("l", 1, False)], [("S", [("ref", "l.L")]), ("l.base.D", [("str", "y")])], []),
      ("l.pg", [("base", 2, False)], [("L", [("str", "l"), ("ref", "base.C")])], []),
      ("base.pg", [], [("C", [("str", "c"), ("ref", "D")]), ("D", [("str", "d")])], [])], "chain-override")


# ------------------------------------------------------------------ comparison
def model_view(out, it):
    """decode the model's answer into the shape of the impl dump"""
    tag = out[0]
    if tag == 1:
        return {"status": ["err", out[1]]}
    if tag == 2:
        return {"status": ["crash"]}
    if tag == 3:
        return {"status": ["fuel"]}
    v = {"status": ["ok"]}
    v["reg"] = [[f, it.back(p)] for f, p in out[1]]
    v["nts"] = [[it.back(k), f, it.back(nm)] for k, f, nm in out[2]]
    v["ts"] = [[it.back(k), it.back([val])] for k, val in out[3]]
    prods = []
    for fq, f, nm, rhs in out[4]:
        els = []
        for e in rhs:
            if e[0] == 0:
                els.append([0, it.back(e[1]), it.back([e[2]])])
            elif e[0] == 1:
                els.append([1, it.back(e[1]), e[2], it.back(e[3]), bool(e[4])])
            else:
                els.append([2])
        prods.append([it.back(fq), f, it.back(nm), els])
    v["prods"] = prods
    return v


def impl_view(r):
    v = {"status": r["status"][:2] if r["status"][0] == "err" else r["status"][:1]}
    if r["status"][0] == "ok":
        v["reg"] = r["reg"]
        v["nts"] = r["nts"]
        v["ts"] = r["ts"]
        v["prods"] = [[fq, f, nm, [[0, e[1], e[2]] if e[0] == 0 else e for e in rhs]]
                      for fq, f, nm, rhs in r["prods"]]
    return v


def source_rhs(D, f, nm, occ):
    k = 0
    for lhs, rhs in D["files"][f]["prods"]:
        if lhs == nm:
            if k == occ:
                return rhs
            k += 1
    return None


def structural(D, S, r):
    """property oracle on the impl's grammar: every element is the denoted symbol.
    Returns (problems, kf_override_hits, kf_inline_hits)."""
    probs, kf_o, kf_i = [], [], []
    targets = {}
    for (g, x), lst in S["overrides"].items():
        targets[(g, x)] = lst[0]
    occ = {}
    path = dict(S["reg"])
    for fq, f, nm, rhs in r["prods"]:
        k = occ.get((f, nm), 0)
        occ[(f, nm)] = k + 1
        src = source_rhs(D, f, nm, k) if f >= 0 else None
        if (f, nm) in targets:
            # productions of an overridden rule are in the grammar only if some user reached the
            # original object bypassing the override (that user is reported below / above)
            kf_o.append("productions of the overridden rule %s (%s) are still part of the grammar"
                        % (fq, D["files"][f]["path"]))
            continue
        if src is None or len(src) != len(rhs):
            probs.append("production %s of file %d has no source counterpart" % (fq, f))
            continue
        for e, got in zip(src, rhs):
            if e[0] == "str":
                if got[0] != 0 or got[2] != e[1]:
                    (kf_i if got[0] == 0 else probs).append(
                        "inline '%s' in %s of %s is the terminal %s matching %r"
                        % (e[1], fq, D["files"][f]["path"], got[1], got[2]))
                continue
            want = S["denote"](f, e[1])
            if want is None:
                probs.append("reference %s in %s denotes nothing but the impl resolved it" % (e[1], fq))
                continue
            wf, wn = want
            kind = local_kind(D["files"][wf], seg(wn))
            if kind == "nt":
                good = got[0] == 1 and got[2] == wf and got[3] == wn and not got[4]
                wants = "%s of %s" % (wn, D["files"][wf]["path"])
            else:
                val = wn if kind == "ti" else [v for x, v in D["files"][wf]["terms"] if x == wn][0]
                good = got[0] == 0 and got[2] == val
                wants = "the terminal matching %r" % val
            if good:
                continue
            if got[0] == 1:
                desc = "non-terminal %s of %s%s" % (got[3], D["files"][got[2]]["path"] if got[2] >= 0 else "?",
                                                     " (orphan object: no productions)" if got[4] else "")
            else:
                desc = "terminal %s matching %r" % (got[1], got[2])
            what = "reference %s in rule %s (%s) should be %s; impl: %s" % (
                e[1], fq, D["files"][f]["path"], wants, desc)
            # mechanism of the override finding: the impl still uses the overridden original
            orig = [(g, x) for (g, x), o in targets.items() if o == want]
            is_orig = False
            for (g, x) in orig:
                if got[0] == 1 and (got[2], got[3]) == (g, x):
                    is_orig = True
                if got[0] == 0 and got[1] == ".".join(path[g] + (x,)) and any(
                        xx == x and v == got[2] for xx, v in D["files"][g]["terms"]):
                    is_orig = True
            if (kind == "nt" and got[0] == 1 and got[2] == wf and got[3] == wn and got[4] and orig
                    and any(k2 == fq2 and (f2, n2) in orig for k2, f2, n2 in r["nts"]
                            for fq2 in [got[1]])):
                # the right (overriding) object, but its fqn was registered first by the overridden
                # original reached by some other user: same mechanism
                is_orig = True
            if is_orig:
                kf_o.append(what)
            elif (got[0] == 0 and kind == "ti" and f != 0
                  and any(e2 == got[1] for e2, _ in D["files"][0]["terms"])):
                kf_i.append(what)
            else:
                probs.append(what)
    return probs, kf_o, kf_i


def has_cycle(D):
    n = len(D["files"])
    adj = {i: [t for _, t, _ in D["files"][i]["imports"] if t < n] for i in range(n)}
    color = {}

    def dfs(u):
        color[u] = 1
        for v in adj[u]:
            if color.get(v) == 1 or (v not in color and dfs(v)):
                return True
        color[u] = 2
        return False

    return any(dfs(i) for i in range(n) if i not in color)


def public(D):
    return {"files": dir_text(D), "root": D["files"][0]["path"], "shape": D.get("shape"), "tags": D.get("tags")}


def make_job(D, rng, tier):
    S = spec(D)
    inputs = None
    flat = None
    if S["status"] in ("valid",) and S.get("flat"):
        flat = S["flat"]
        sents = sentences(S, rng, 12 if tier == "quick" else 25)
        al = alphabet(D)[:7]
        inputs = set(sents)
        for w in sents:
            for _ in range(2):
                if w:
                    i = rng.randrange(len(w))
                    inputs.add(w[:i] + w[i + 1:])
                    inputs.add(w[:i] + rng.choice(al) + w[i + 1:])
                    inputs.add(w[:i] + rng.choice(al) + w[i:])
        for a in al:
            inputs.add(a)
            for b in al[:5]:
                inputs.add(a + b)
        inputs.discard("")
        inputs = sorted(inputs)[: (70 if tier == "quick" else 160)]
    elif S["status"] in ("ambiguous", "outofscope"):
        inputs = None
    return {"dir": D, "flat": flat, "inputs": inputs}, S


def judge(ctx, D, S, r, mv, stats):
    """all verdicts for one case; returns True if the case was clean"""
    pub = public(D)
    rep = {"directory": pub, "how_to_rerun": "./check C20 --replay <this file>",
           "spec_status": S["status"], "spec_why": S["why"], "flat": S.get("flat")}
    clean = True
    iv = impl_view(r)
    kf_names = {e["id"] for e in ctx.kf}
    if r.get("bad_psid"):
        stats["bad_alternative_index"] = stats.get("bad_alternative_index", 0) + 1
        ctx.violation("a production of the modular grammar carries the wrong alternative index (prod_symbol_id): "
                      "%s is alternative %d of its rule but says %d -- a per-alternative action list picks another "
                      "action than in the flattened grammar" % tuple(r["bad_psid"][0]), rep, key="psid")
        clean = False
    # ---- 1. correspondence model vs impl
    if mv["status"] == ["fuel"]:
        stats["fuel"] += 1
    elif r["status"][0] == "crash" and r["status"][1] == "Timeout":
        stats["timeouts"] += 1      # judged in run(): more than a handful is a violation
        return False
    elif mv != iv:
        diff = [k for k in ("status", "reg", "nts", "ts", "prods") if mv.get(k) != iv.get(k)]
        stats["disagree"] += 1
        clean = False
        rep2 = dict(rep, model={k: mv.get(k) for k in diff}, impl={k: iv.get(k) for k in diff},
                    impl_status=r["status"])
        ctx.violation("model and impl disagree on %s of Grammar.from_file" % ",".join(diff), rep2,
                      no_input=True, key="corr-" + ",".join(diff))
    # ---- 2. property oracle
    st = S["status"]
    stats["spec"][st] = stats["spec"].get(st, 0) + 1
    if st in ("ambiguous", "outofscope"):
        return clean
    if r["status"][0] == "crash":
        what = "Grammar.from_file crashed with %s: %s" % (r["status"][1], r["status"][2])
        if (r["status"][1] == "AttributeError" and "resolve_symbol_by_name" in r["status"][2]
                and mv["status"] == ["crash"] and has_cycle(D) and KF_CYC in kf_names
                and any("." in lhs for F in D["files"] for lhs, _ in F["prods"] + F["terms"])):
            ctx.known_finding(KF_CYC, "override validation through an import cycle hits an import still being "
                              "loaded (pgfile is None -> AttributeError); first seen: %s" % pub["files"])
            stats["kf_cycle"] += 1
        elif r["status"][1] == "Timeout":
            stats["timeouts"] += 1
        else:
            ctx.violation(what, rep, no_input=False, key="crash-" + r["status"][1])
        return False
    if st == "invalid":
        if r["status"][0] != "err":
            ctx.violation("directory is invalid by the specification (%s) but the impl accepted it" % S["why"],
                          rep, no_input=False, key="accepts-invalid")
            return False
        stats["invalid_rejected"] += 1
        return clean
    # valid by the specification
    if r["status"][0] == "err":
        # the rejected reference may sit in a rule that an override replaces: the impl meets it only
        # because some user reached the overridden original (override finding)
        import re as _re
        quoted = _re.findall(r'"([^"]+)"', r["status"][2])
        pth = dict(S["reg"])
        holders = [(f, lhs) for f, F in enumerate(D["files"]) if f in pth
                   for lhs, rhs in F["prods"] for e in rhs
                   if e[0] == "ref" and any(full == q or full.endswith("." + q)
                                            for full in [".".join(pth[f] + (e[1],))] for q in quoted
                                            if "." in q or q == e[1])]
        if (r["status"][1] in (5, 6) and holders and S["overrides"]
                and all(h in S["overrides"] or h not in S["reachable"] for h in holders)
                and mv["status"] == ["err", r["status"][1]] and KF_OVR in kf_names):
            stats["kf_override"] += 1
            ctx.known_finding(KF_OVR, "an overridden rule is still processed because a user reached the original: "
                              "%s; first seen: %s" % (r["status"][2], pub["files"]))
            return False
        ctx.violation("valid modular grammar rejected: %s" % r["status"][2], rep, no_input=False,
                      key="rejects-valid-%s" % r["status"][1])
        return False
    probs, kf_o, kf_i = structural(D, S, r)
    if mv != iv:
        # a listed finding is an instance only if the baseline model shows the same grammar
        probs, kf_o, kf_i = probs + kf_o + kf_i, [], []
    if kf_o and KF_OVR not in kf_names:
        probs += kf_o
    if kf_i and KF_INL not in kf_names:
        probs += kf_i
    # language / results: modular vs flattened
    lang_diff = None
    compared = 0
    if "mod" in r and "flat" in r:
        for w in sorted(r["mod"], key=lambda x: (len(x), x)):
            a, b = r["mod"][w], r["flat"][w]
            if a[0] == "error" and a[1] == "Timeout" or b[0] == "error" and b[1] == "Timeout":
                continue
            compared += 1
            if a != b and lang_diff is None:
                lang_diff = (w, a, b)
        stats["inputs_compared"] += compared
        stats["accepted"] += sum(1 for w in r["mod"] if r["mod"][w][0] == "ok")
        stats["lang_cases"] += 1
    elif "flat_err" in r:
        if "First set empty" in r["flat_err"] and r.get("mod_err") != "GrammarError" and not (kf_o or kf_i):
            ctx.violation("flattened grammar has an unproductive symbol but the modular parser was built",
                          rep, no_input=True, key="first-set")
            clean = False
        stats["flat_unbuildable"] += 1
        stats.setdefault("flat_unbuildable_why", {})
        kk = r["flat_err"][:60]
        stats["flat_unbuildable_why"][kk] = stats["flat_unbuildable_why"].get(kk, 0) + 1
    if "mod_retry" in r and "mod_err" not in r:
        stats["mod_retry_recovered"] = stats.get("mod_retry_recovered", 0) + 1
        ctx.notes.append("modular parser construction raised %s once and succeeded on retry: %s"
                         % (r["mod_retry"], pub["files"]))
    if "mod" in r and "flat" in r:
        pass
    elif "flat_err" in r:
        pass
    elif "mod_err" in r:
        stats["mod_parser_err"][r["mod_err"]] = stats["mod_parser_err"].get(r["mod_err"], 0) + 1
        if r["mod_err"] not in ("Timeout",) and "flat" in r and not (kf_o or kf_i):
            ctx.violation("parser construction fails for the modular grammar (%s) but not for the flattened one"
                          % r["mod_err"], dict(rep, tracebacks=r.get("mod_err_tb")), no_input=False,
                          key="mod-parser-" + r["mod_err"])
            clean = False
    if probs:
        clean = False
        rep2 = dict(rep, problems=probs[:6])
        if lang_diff:
            rep2.update(input=lang_diff[0], modular=lang_diff[1], flattened=lang_diff[2])
        ctx.violation("impl grammar differs from the denotation of the references: " + probs[0], rep2,
                      no_input=lang_diff is None, key="struct-" + probs[0].split(" ")[0])
    elif lang_diff and not (kf_o or kf_i):
        clean = False
        rep2 = dict(rep, input=lang_diff[0], modular=lang_diff[1], flattened=lang_diff[2])
        ctx.violation("modular and flattened grammar differ on input %r: %s vs %s" % lang_diff, rep2,
                      no_input=False, key="lang")
    if kf_o and KF_OVR in kf_names:
        stats["kf_override"] += 1
        if lang_diff:
            stats["kf_override_lang"] += 1
        ctx.known_finding(KF_OVR, "an override does not reach the users whose import path does not pass the "
                          "overriding rule's name: %s%s; first seen: %s"
                          % (kf_o[0], "; input %r: modular %s, flattened %s" % lang_diff if lang_diff else "",
                             pub["files"]))
        clean = False
    if kf_i and KF_INL in kf_names:
        stats["kf_inline"] += 1
        ctx.known_finding(KF_INL, "inline string terminal of an imported file is unified with a root terminal of "
                          "the same bare name: %s; first seen: %s" % (kf_i[0], pub["files"]))
        clean = False
    return clean


def _kw_probe_worker(job):
    """KEYWORD in the root file, keyword-like string terminals in an imported file: the modular grammar
    and its flattening accept the same inputs with the same error positions"""
    import parglare
    from parglare import GLRParser, Grammar, Parser
    from lib import impl
    k1, k2, k3, kwre, alias, optk = job
    import re as _re
    # Grammar options must reach the imported files exactly as they reach the root file
    opts = {"": {}, "ignore_case": {"ignore_case": True},
            "re_flags": {"re_flags": _re.MULTILINE | _re.IGNORECASE}}[optk]
    tmp = tempfile.mkdtemp(prefix="c20kw")
    out = {"job": list(job), "rows": []}
    try:
        files = {
            "root.pg": "import 'lib.pg'%s;\nS: '%s' %s.Stmt ';' | %s.Stmt ';';\nterminals\nKEYWORD: %s;\n"
                       % ((" as " + alias) if alias != "lib" else "", k1, alias, alias, kwre),
            "lib.pg": "Stmt: '%s' NAME '%s' NAME | NAME;\nterminals\nNAME: /[a-z]+/;\n" % (k2, k3),
        }
        flat = ("S: '%s' Stmt ';' | Stmt ';';\nStmt: '%s' NAME '%s' NAME | NAME;\nterminals\nKEYWORD: %s;\n"
                "NAME: /[a-z]+/;\n" % (k1, k2, k3, kwre))
        out["files"], out["flat"] = files, flat
        for n, t in files.items():
            with open(os.path.join(tmp, n), "w") as f:
                f.write(t)
        ins = []
        for a in ("", k1 + " ", k1):
            for b in (k2 + " x ", k2 + "x ", k2 + " x"):
                for c in (k3 + " y", k3 + "y"):
                    ins.append(a + b + c + ";")
        ins += ["x;", k1 + " x;", k1 + "x;", k2 + ";", k1 + k2 + " x " + k3 + " y;"]
        if optk:
            ins += [w.upper() for w in ins] + [w.title() for w in ins[:6]] + \
                   [k1 + " " + k2.upper() + " x " + k3 + " Y;", k1.upper() + " " + k2 + " X " + k3.upper() + " y;"]
        for cls, cname in ((Parser, "lr"), (GLRParser, "glr")):
            with impl.time_limit(30), impl.quiet():
                gm = Grammar.from_file(os.path.join(tmp, "root.pg"), **opts)
                gm.file_path = None
                pm = cls(gm)
                pf = cls(Grammar.from_string(flat, **opts))
            for w in ins:
                r = []
                for p in (pm, pf):
                    try:
                        with impl.time_limit(10):
                            x = p.parse(w)
                        r.append(["ok", len(x) if cname == "glr" else 1])
                    except parglare.SyntaxError as e:
                        r.append(["SyntaxError", e.location.start_position])
                    except BaseException as e:  # noqa
                        r.append(["exc", impl.exc_kind(e)])
                out["rows"].append([cname, w, r[0], r[1]])
    except BaseException as e:  # noqa
        out["err"] = impl.exc_kind(e) + ": " + str(e)[:200].replace(tmp, "")
    finally:
        shutil.rmtree(tmp, ignore_errors=True)
    return out


def keyword_imports(ctx, stats):
    rng = ctx.rng
    jobs = []
    words = ["let", "for", "in", "if", "to", "of", "do"]
    for _ in range(6 if ctx.quick() else 60):
        k1, k2, k3 = rng.sample(words, 3)
        jobs.append((k1, k2, k3, rng.choice(["/\\w+/", "/[a-z]+/"]), rng.choice(["lib", "l", "stmts"]), ""))
    for optk in ("ignore_case", "re_flags"):
        for _ in range(3 if ctx.quick() else 20):
            k1, k2, k3 = rng.sample(words, 3)
            jobs.append((k1, k2, k3, rng.choice(["/\\w+/", "/[a-z]+/"]), rng.choice(["lib", "l", "stmts"]), optk))
    with mp.Pool(common.NPROC) as pool:
        outs = pool.map(_kw_probe_worker, jobs, chunksize=1)
    stats["keyword_import_grammars"] = len(outs)
    stats["keyword_import_parses"] = 0
    for o in outs:
        if o.get("err"):
            if "Timeout" not in o["err"]:
                ctx.violation("grammar with KEYWORD in the root and keywords in an imported file failed: %s" % o["err"],
                              {"directory": o.get("files"), "flat": o.get("flat")}, key="kw-imp-err")
            continue
        for cname, w, a, b in o["rows"]:
            stats["keyword_import_parses"] += 1
            if a != b and "Timeout" not in (a[1], b[1]):
                ctx.violation("KEYWORD with imports%s: %s on %r modular %r, flattened %r"
                              % ((" and Grammar option " + o["job"][5]) if o["job"][5] else "", cname, w, a, b),
                              {"directory": o["files"], "flat": o["flat"], "input": w, "grammar_option": o["job"][5]},
                              key="kw-imp-" + cname + o["job"][5])
                break


def run(ctx):
    tier = ctx.tier
    ncases = 700 if ctx.quick() else 6000
    dirs = [dict(d) for d in CURATED]
    while len(dirs) < ncases:
        dirs.append(gen_dir(ctx.rng, tier))
    jobs, specs = [], []
    for D in dirs:
        j, S = make_job(D, ctx.rng, tier)
        jobs.append(j)
        specs.append(S)
    with mp.Pool(common.NPROC) as pool:
        results = pool.map(_worker, jobs, chunksize=4)
    mcases, interns = [], []
    for D in dirs:
        it = Intern()
        enc = encode(D, it)
        interns.append(it)
        mcases.append((200, [400, enc]))
        mcases.append((201, [enc]))
    outs = common.model_run(mcases)
    nx, xok, xlog = common.coq_crosscheck("C20", mcases, outs, ctx.rng, sample=60 if ctx.quick() else 200)
    if not xok:
        ctx.violation("extraction cross-check failed: OCaml driver and vm_compute disagree",
                      {"log": xlog}, no_input=True)
    stats = {"cases": len(dirs), "shapes": {}, "tags": {}, "spec": {}, "impl_status": {}, "fuel": 0,
             "disagree": 0, "invalid_rejected": 0, "inputs_compared": 0, "accepted": 0, "lang_cases": 0,
             "flat_unbuildable": 0, "mod_parser_err": {}, "kf_override": 0, "kf_override_lang": 0,
             "kf_inline": 0, "kf_cycle": 0, "timeouts": 0, "files": {}, "cyclic": 0,
             "theorem_class": {"no_override_and_consistent": 0, "has_override": 0, "inconsistent_imports": 0},
             "clean_ok": 0}
    keyword_imports(ctx, stats)
    distinct = set()
    samples = []
    for k, (D, S, r) in enumerate(zip(dirs, specs, results)):
        it = interns[k]
        mv = model_view(outs[2 * k], it)
        cls = outs[2 * k + 1]
        stats["shapes"][D["shape"]] = stats["shapes"].get(D["shape"], 0) + 1
        for t in D["tags"] or ["plain"]:
            stats["tags"][t] = stats["tags"].get(t, 0) + 1
        stats["files"][len(D["files"])] = stats["files"].get(len(D["files"]), 0) + 1
        if has_cycle(D):
            stats["cyclic"] += 1
        key = r["status"][0] + (":%s" % r["status"][1] if r["status"][0] != "ok" else "")
        stats["impl_status"][key] = stats["impl_status"].get(key, 0) + 1
        if cls[0] and cls[1]:
            stats["theorem_class"]["no_override_and_consistent"] += 1
        if not cls[0]:
            stats["theorem_class"]["has_override"] += 1
        if not cls[1]:
            stats["theorem_class"]["inconsistent_imports"] += 1
        clean = judge(ctx, D, S, r, mv, stats)
        if clean and r["status"][0] == "ok":
            stats["clean_ok"] += 1
            if len(r.get("reg", [])) >= 2 and "mod" in r and any(v[0] == "ok" for v in r["mod"].values()):
                distinct.add(repr(sorted(dir_text(D).items())))
                if len(samples) < 3 and len(D["files"]) >= 3:
                    samples.append({"directory": public(D), "registry": r["reg"],
                                    "nonterminals": [x[0] for x in r["nts"]],
                                    "accepted_inputs": [w for w, v in r["mod"].items() if v[0] == "ok"][:5]})
    if stats["timeouts"] > max(3, len(dirs) // 200):
        ctx.violation("Grammar.from_file timed out on %d of %d generated directories" % (stats["timeouts"], len(dirs)),
                      {"timeouts": stats["timeouts"]}, no_input=True)
    cov = {
        "evaluations": stats["inputs_compared"] + stats["cases"],
        "distinct_nontrivial": len(distinct),
        "rule": "seeded random directories of 2-%d .pg files over the import shapes chain/star/diamond/cycle/mutual/"
                "random (+aliases, sub-directory, overrides at every level and path, malformed stream) plus curated "
                "witnesses; a case is non-trivial when at least two files were loaded, the impl grammar equals the "
                "model's and the denotation of every reference, and the modular and flattened parsers agree on all "
                "generated inputs with at least one accepted; distinct by directory text"
                % (4 if ctx.quick() else 5),
        "samples": samples,
        "traces_validated_against_impl": stats["cases"] - stats["fuel"],
        "distribution": stats,
        "crosscheck_vm_compute_cases": nx,
        "exhaustive": False,
    }
    return cov


def replay(ctx, rep):
    print("files:")
    for k, v in rep.get("directory", {}).get("files", {}).items():
        print("---", k)
        print(v)
    tmp = tempfile.mkdtemp(prefix="c20r_")
    try:
        from parglare import GLRParser, Grammar
        from lib import impl
        for rel, txt in rep["directory"]["files"].items():
            p = os.path.join(tmp, rel)
            os.makedirs(os.path.dirname(p), exist_ok=True)
            open(p, "w").write(txt)
        try:
            g = Grammar.from_file(os.path.join(tmp, rep["directory"]["root"]))
            print("modular grammar:")
            for pr in g.productions:
                print("  ", pr)
            if rep.get("input") is not None:
                with impl.quiet():
                    pm = GLRParser(g)
                try:
                    print("modular parse of %r: %d tree(s)" % (rep["input"], len(pm.parse(rep["input"]))))
                except Exception as e:  # noqa
                    print("modular parse of %r: %s" % (rep["input"], type(e).__name__))
        except Exception as e:  # noqa
            print("Grammar.from_file:", type(e).__name__, str(e).replace(tmp, ""))
        if rep.get("flat") and rep.get("input") is not None:
            gf = Grammar.from_string(rep["flat"])
            with impl.quiet():
                pf = GLRParser(gf)
            try:
                print("flattened parse of %r: %d tree(s)" % (rep["input"], len(pf.parse(rep["input"]))))
            except Exception as e:  # noqa
                print("flattened parse of %r: %s" % (rep["input"], type(e).__name__))
    finally:
        shutil.rmtree(tmp, ignore_errors=True)
    return 0
