"""C01 -- GLR accepts exactly the grammar's language and returns only valid derivations."""
import multiprocessing as mp

from lib import common, glrcases, refparse

LEVEL = "proof"
ASSUMPTIONS = [
    "theorem C01_forest_valid: forest_ok (boolean, local per packed node) = true implies that EVERY tree the "
    "forest represents is a derivation tree of the input (productions, root, nested/ordered spans, leaves a "
    "tokenisation); it is run on every forest the impl returns, so validity holds for all trees of each checked forest",
    "theorem C01_nlr_sound: with a table passing table_struct any accepting run of the nondeterministic LR machine "
    "yields a derivation of the shifted tokens; theorem C01_glr_model_sound: every tree of the forest the Gallina model of the GLR driver (Model/GLR.v, tied to glr.py by the forest-isomorphism correspondence run in C02/C17) returns is a derivation tree, for every table passing table_struct, scanner, input and set order",
    "the 'if' direction (every sentence is accepted) is decided against an untrusted reference recognizer whose "
    "positive answers are certified by tree_ok (proved exact) plus a token-chain check; no completeness theorem (partial)",
    "recognizers are an oracle (match matrix from the impl's recognizer objects); layout is ws-based in generated cases",
]


def tok_chain_ok(leaves, rx, sk, n):
    pos = sk(0)
    for (t, s, e) in leaves:
        if s != pos or t >= len(rx) or s >= len(rx[t]) or rx[t][s] != e - s or e <= s:
            return False
        pos = sk(e)
    return pos == n


def run(ctx):
    quick = ctx.quick()
    opts = [{"tables": 1}, {"tables": 0}]
    jobs = glrcases.gen_jobs(ctx.rng, quick, opts, nrand=100 if quick else 1500)
    with mp.Pool(common.NPROC) as pool:
        results = pool.map(glrcases.worker, jobs, chunksize=1)
    st = {"grammars": 0, "grammar_errors": {}, "inputs": 0, "forests": 0, "rejects": 0, "cyclic_forests": 0,
          "exceptions": {}, "forest_ok_checked": 0, "ref_sentence": 0, "ref_nonsentence": 0,
          "certified_rejections_checked": 0, "tables_validated": 0, "nonuniform_priorities_skipped": 0,
          "toolarge": 0}
    wsl = [ord(c) for c in glrcases.WS]
    mcases, meta = [], []
    for r in results:
        st["grammars"] += 1
        if r["gerr"]:
            st["grammar_errors"][r["gerr"]] = st["grammar_errors"].get(r["gerr"], 0) + 1
            continue
        start = r["grammar"][0][1][0][1]
        mcases.append((3, [r["grammar"], r["table"], start]))
        meta.append(("struct", r, None))
        for c in r["cases"]:
            st["inputs"] += 1
            w = c["input"]
            if c["status"] == "forest" and c.get("nodes") is not None:
                mcases.append((6, [r["grammar"], c["nodes"], [ord(ch) for ch in w], c["rx"], wsl,
                                   start, 0, 1, 0]))
                meta.append(("forest_ok", r, c))
            elif c["status"] == "forest" and c.get("graph_nodes") is not None:
                labels = refparse.propose_labels(c["graph_nodes"], r["grammar"], glrcases.sk_ws(w))
                mcases.append((11, [r["grammar"], c["graph_nodes"], labels, [ord(ch) for ch in w], c["rx"],
                                    wsl, start, 0, 1, 0]))
                meta.append(("forest_ok", r, c))
    coll = glrcases.gss_identity_check()
    st["gss_id_pairs_checked"] = 0 if coll is None else 41 * 61
    if coll:
        ctx.violation("stack nodes of different (frontier, state) carry the same id %s: links of different stack "
                      "paths are keyed alike and packed into one (trees that do not spell the input, lost paths) once "
                      "an input is long enough to reach both" % coll[0][2],
                      {"colliding_pairs": coll[:6], "collisions": len(coll)}, no_input=True, key="gss-id")
    outs = common.model_run(mcases)
    nx, xok, xlog = common.coq_crosscheck("C01", mcases, outs, ctx.rng, sample=30 if quick else 100)
    if not xok:
        ctx.violation("extraction cross-check failed", {"log": xlog}, no_input=True)
    fok = {}
    for (kind, r, c), o in zip(meta, outs):
        if kind == "struct":
            st["tables_validated"] += 1
            if o != 1:
                ctx.violation("table_struct fails on the impl's GLR table",
                              {"grammar": r["gtext"], "options": r["opts"]}, no_input=True, key="struct")
        else:
            fok[(id(r), c["input"])] = o
    distinct = set()
    samples = []
    to_certify = []
    pending = []
    for r in results:
        if r["gerr"]:
            continue
        for c in r["cases"]:
            w = c["input"]
            rep = {"grammar": r["gtext"], "options": r["opts"], "input": w}
            stt = c["status"]
            sk = glrcases.sk_ws(w)
            ref = refparse.Ref(r["grammar"], None, c["rx"], sk, len(w))
            sent = len(w) in ref.sentence_ends()
            if sent:
                st["ref_sentence"] += 1
            else:
                st["ref_nonsentence"] += 1
            if stt.startswith("exc"):
                st["exceptions"][stt] = st["exceptions"].get(stt, 0) + 1
                ctx.violation("GLRParser.parse raised %s (only SyntaxError is allowed)" % stt, rep,
                              key="exc-" + stt)
                continue
            if stt == "toolarge":
                st["toolarge"] += 1
                continue
            if stt == "forest":
                st["forests"] += 1
                distinct.add((r["gtext"], r["opts"]["tables"], w))
                if c.get("cyclic"):
                    st["cyclic_forests"] += 1
                    if c.get("graph_nodes") is not None:
                        st["cyclic_forests_validated"] = st.get("cyclic_forests_validated", 0) + 1
                        if fok.get((id(r), w)) != 1:
                            pending.append(("invalid-tree", r, c, dict(rep, forest=c["graph_nodes"]),
                                            "forest_ok_labelled fails on a cyclic forest: some tree unfolding "
                                            "from it is not a derivation of the input (or no consistent "
                                            "labelling was found)"))
                else:
                    st["forest_ok_checked"] += 1
                    if fok.get((id(r), w)) != 1:
                        pending.append(("invalid-tree", r, c, dict(rep, forest=c["nodes"]),
                                        "forest_ok fails: the returned forest contains a tree that is not a "
                                        "derivation of the input"))
                    elif len(samples) < 3 and c.get("solutions", 0) > 1 and len(c["nodes"]) < 14:
                        samples.append(dict(rep, forest=c["nodes"], solutions=c["solutions"]))
                if not sent:
                    if c.get("cyclic") or fok.get((id(r), w)) != 1:
                        ctx.violation("GLR accepts an input for which the reference finds no derivation",
                                      rep, key="false-accept")
                    else:
                        ctx.violation("forest validated by forest_ok but the reference recognizer finds no "
                                      "derivation (oracle incomplete)", rep, no_input=True, key="ref-incomplete")
            elif stt == "SyntaxError":
                st["rejects"] += 1
                if sent:
                    if not r["plain"]:
                        st["nonuniform_priorities_skipped"] += 1
                        continue
                    t = refparse.one_tree(ref)
                    to_certify.append((r, c, rep, t))
    # certify the reference derivations of rejected sentences with the verified checker
    cert = common.model_run([(5, [r["grammar"], refparse.shape_to_sx(t)]) for (r, c, rep, t) in to_certify
                             if t is not None])
    k = 0
    for (r, c, rep, t) in to_certify:
        st["certified_rejections_checked"] += 1
        if t is None:
            ctx.violation("GLR rejects; the reference says sentence but produced no tree", rep,
                          no_input=True, key="ref-notree")
            continue
        ok = cert[k]
        k += 1
        w = c["input"]
        prod = r["grammar"][t[1]]
        start = r["grammar"][0][1][0][1]
        if ok == 1 and prod[0] == start and tok_chain_ok(refparse.leaves_of_shape(t), c["rx"],
                                                           glrcases.sk_ws(w), len(w)):
            pending.append(("false-reject", r, c, dict(rep, derivation=refparse.shape_to_sx(t)),
                            "GLR raises SyntaxError on a sentence (derivation certified by tree_ok)"))
        else:
            ctx.violation("reference derivation failed certification", rep, no_input=True, key="ref-bad")
    # genuine failures: instance of a listed known finding iff the frozen baseline implementation
    # behaves identically on the same grammar, table kind and input
    if pending:
        bjobs = [(r["gname"], r["gtext"], [c["input"]], r["opts"]) for (_, r, c, _, _) in pending]
        bres = common.baseline_run("lib.glrcases", "worker", bjobs)
        kfs = {e["id"] for e in ctx.kf}
        for i, (kind, r, c, rep, what) in enumerate(pending):
            same = False
            if bres is not None and not bres[i]["gerr"] and bres[i]["cases"]:
                bc = bres[i]["cases"][0]
                same = bc["status"] == c["status"] and bc.get("nodes") == c.get("nodes") and \
                    bc.get("graph_nodes") == c.get("graph_nodes")
            kf = "KF-C01-glr-false-reject" if kind == "false-reject" else "KF-C01-glr-invalid-tree-overlap"
            if same and kf in kfs:
                st["known_" + kind] = st.get("known_" + kind, 0) + 1
                ctx.known_finding(kf, "%s; first seen: grammar %r (%s) input %r"
                                  % (what[:60], r["gtext"], "LALR" if r["opts"]["tables"] else "SLR", c["input"]))
            else:
                ctx.violation(what, rep, key=kind)
    return {
        "evaluations": st["inputs"],
        "distinct_nontrivial": len(distinct),
        "rule": "curated (ambiguous, nullable, hidden-recursive, cyclic), lexical-overlap and seeded random grammars, "
                "LALR and SLR, all strings up to a length bound with layout variants; non-trivial = accepted input; "
                "distinct by (grammar, table kind, input)",
        "samples": samples,
        "traces_validated_against_impl": st["forest_ok_checked"],
        "distribution": st,
        "crosscheck_vm_compute_cases": nx,
        "exhaustive": False,
    }


def replay(ctx, rep):
    r = glrcases.worker(("replay", rep["grammar"], [rep["input"]], rep.get("options", {"tables": 1})))
    print(r["cases"])
    return 0
