"""C11 -- Error recovery terminates, reports disjoint spans and parses the rest."""
import json
import multiprocessing as mp
import os
import random

from lib import common, gramgen

LEVEL = "proof"
ASSUMPTIONS = [
    "theorems (Properties/C11.v) are about the Gallina model Model/Recovery.v = LR driver model (Model/LRDriver.v, "
    "unchanged) + Parser._do_recovery/default_error_recovery, for every grammar, table, scanner, layout function, "
    "input, start position and fuel; custom strategies are an arbitrary function of the parser state with the stated "
    "hypotheses (strategy_monotone for spans, strategy_progress for the bound on the number of recoveries)",
    "termination is relative: the number of recoveries is bounded by len(w)-p0+1 for every fuel, and the run terminates "
    "if every error-free LR segment does (hypothesis of C11_terminates_rel); termination of the impl is observed with a "
    "time limit on every generated case",
    "the model is tied to /repo by differential runs: Parser(error_recovery=True|custom, build_tree=True) vs the "
    "extracted model on corrupted sentences and all short strings: parser.errors spans, tree, leaf/layout trace, "
    "raised error kind and position; default, skip-to-delimiter and inject-expected-token strategies; LALR/SLR, "
    "prefer_shifts on/off, consume_input on/off, ws and LAYOUT-rule layout",
    "GLR recovery (glr.py:567-618) has no driver model: it is checked on the impl only with the property oracle "
    "(verified span validator spans_check, tree_ok on trees of the forest, sentence-unchanged against the same "
    "GLRParser without recovery, termination under a time limit)",
    "the LR coverage clause is evaluated on the impl's tree and spans with the verified forest checker forest_ok "
    "instantiated with a layout function that also skips the reported spans (ws-based layout only)",
    "recognizers are an oracle: the match matrix is computed with the impl's own recognizer objects",
]

WS = "\n\r\t "
FUEL = 20000
KF_GLR = "KF-C11-glr-recovery-disambiguation-crash"

# (name, text, samples for regex terminals, junk characters, delimiter for the skip strategy)
RICH = [
    ("stmts",
     "Prog: Stmt+;\nStmt: id '=' E ';' | 'print' E ';';\nE: E '+' T | T;\nT: num | id | '(' E ')';\n"
     "terminals\nid: /[a-z]+/;\nnum: /\\d+/;",
     {"id": ["a", "xy", "print"], "num": ["1", "42"]}, "@#", ";"),
    ("expr",
     "E: E '+' E {left, 1} | E '*' E {left, 2} | '(' E ')' | number;\nterminals\nnumber: /\\d+(\\.\\d+)?/;",
     {"number": ["1", "2.5", "30"]}, "&x", ")"),
    ("list",
     "L: '[' Items ']' | '[' ']';\nItems: Items ',' Item | Item;\nItem: 'a' | 'b' | L;",
     {}, "x;", ","),
    ("block",
     "B: 'begin' Ss 'end';\nSs: Ss S | EMPTY;\nS: 'x' ';' | B ';' | 'if' 'x' S;",
     {}, "?y", ";"),
    ("json",
     "V: O | A | str | num;\nO: '{' Ms '}' | '{' '}';\nMs: Ms ',' M | M;\nM: str ':' V;\n"
     "A: '[' Vs ']' | '[' ']';\nVs: Vs ',' V | V;\nterminals\nstr: /\"[a-z]*\"/;\nnum: /-?\\d+/;",
     {"str": ['"a"', '""', '"bc"'], "num": ["0", "-7", "12"]}, "x'", ","),
    ("lalr_only",       # LALR: a reduction on a lookahead that the state behind the goto rejects
     "S: 'a' A 'd' | 'b' A 'e' | 'a' B 'e' | 'b' B 'd' ;\nA: 'c';\nB: 'c' 'c';",
     {}, "x", "c"),
    ("kw",
     "S: I S | I;\nI: ID | 'if' | 'iff' ';';\nterminals\nID: /[a-z]+/;",
     {"ID": ["a", "if", "iffy"]}, "1 ", ";"),
    ("opt",
     "S: 'a'? 'b'* 'c'+ 'd'? ';' S | 'e';",
     {}, "x", ";"),
]

LAYOUT_RULES = "\nLAYOUT: LayoutItem | LAYOUT LayoutItem | EMPTY;\nLayoutItem: WS | Comment;\n"
LAYOUT_TERMS = "WS: /\\s+/;\nComment: /\\/\\/[^\\n]*/;"


def with_layout(text):
    if "\nterminals\n" in text:
        rules, terms = text.split("\nterminals\n", 1)
        return rules + LAYOUT_RULES + "terminals\n" + terms + "\n" + LAYOUT_TERMS
    return text + LAYOUT_RULES + "terminals\n" + LAYOUT_TERMS

COMBOS = [
    # (prefer_shifts, prefer_shifts_over_empty, tables (1 = LALR, 0 = SLR), consume_input)
    (True, True, 1, True),
    (False, False, 1, True),
    (True, True, 0, True),
    (True, True, 1, False),
]


# ---------------------------------------------------------------- custom strategies (impl side)
def make_skip(delim):
    def skip_to_delimiter(head, error, default_error_recovery):
        i = head.input_str.find(delim, head.position)
        if i < 0:
            return False
        head.position = i + 1
        head.token_ahead = None
        return True
    return skip_to_delimiter


def make_inject(state):
    def inject_expected(head, error, default_error_recovery):
        from parglare.parser import Token
        try:
            state.setdefault("handed", []).append(error.location.start_position)
        except BaseException:  # noqa
            pass
        if head.token_ahead is None and state.get("last") != head.position:
            for s in head.state.actions.keys():
                if s.name != "STOP":
                    state["last"] = head.position
                    # a zero-width token that carries a display text (the usual "insert the missing
                    # ';'" recovery): its length, not the length of its value, moves the parser
                    shown = getattr(s.recognizer, "value", None)
                    head.token_ahead = Token(s, shown if isinstance(shown, str) and shown else "?",
                                             head.position, length=0)
                    return True
        return default_error_recovery(head)
    return inject_expected


# ---------------------------------------------------------------- input generation (worker side)
def _sentence(rng, g, samples, max_depth):
    """random derivation from the live Grammar object; list of token texts or None"""
    from parglare.grammar import EMPTY
    by = {}
    for p in g.productions[1:]:
        by.setdefault(p.symbol.fqn, []).append(p)

    def go(sym, depth):
        if sym.fqn in g.terminals:
            t = g.terminals[sym.fqn]
            if t.name in samples:
                return [rng.choice(samples[t.name])]
            v = getattr(t.recognizer, "value", None)
            if isinstance(v, str):
                return [v]
            return None
        alts = by.get(sym.fqn, [])
        if not alts:
            return None
        if depth < -8:
            return None
        if depth <= 0:
            flat = [p for p in alts if all(x.fqn in g.terminals for x in list.__iter__(p.rhs))]
            alts = flat or sorted(alts, key=lambda p: len(p.rhs))[:1]
        p = rng.choice(alts)
        out = []
        for s in list.__iter__(p.rhs):
            if s is EMPTY:
                continue
            r = go(s, depth - 1)
            if r is None:
                return None
            out.extend(r)
        return out

    start = list.__getitem__(g.productions[0].rhs, 0)
    for _ in range(10):
        r = go(start, max_depth)
        if r is not None and len(r) <= 14:
            return r
    return None


def _join(rng, toks, fillers):
    out = []
    for i, t in enumerate(toks):
        if i:
            out.append(rng.choice(fillers))
        out.append(t)
    return rng.choice(["", "", " "]) + "".join(out) + rng.choice(["", "", " ", "\n"])


def _corrupt(rng, s, alphabet, junk):
    k = rng.choice([1, 1, 1, 2, 2, 3])
    for _ in range(k):
        op = rng.randrange(6)
        pos = rng.randrange(len(s) + 1)
        if op == 0:
            s = s[:pos] + rng.choice(alphabet) + s[pos:]
        elif op == 1 and s:
            pos = min(pos, len(s) - 1)
            s = s[:pos] + s[pos + 1:]
        elif op == 2 and s:
            pos = min(pos, len(s) - 1)
            s = s[:pos] + rng.choice(alphabet + junk) + s[pos + 1:]
        elif op == 3:
            s = s[:pos] + "".join(rng.choice(junk) for _ in range(rng.randint(1, 3))) + s[pos:]
        elif op == 4:
            s = s[:pos]
        else:
            q = rng.randrange(len(s) + 1)
            a, b = min(pos, q), max(pos, q)
            s = s[:a] + s[b:] + s[a:b] if rng.random() < 0.5 else s[:a] + s[a:b] + s[a:]
    return s[:40]


def _tree_as_forest(t):
    """an LR tree (model sx) as a packed forest with one alternative per node (post-order)"""
    nodes = []

    def go(n):
        if n[0] == 0:
            nodes.append([[0, n[1], n[2], n[3]]])
        else:
            kids = [go(c) for c in n[4]]
            nodes.append([[1, n[1], n[2], n[3], kids]])
        return len(nodes) - 1
    go(t)
    return nodes


def _spans(errors):
    return [[e.location.start_position, e.location.end_position] for e in errors]


def _lr_parse(parglare, impl, gi, p, w, state=None, limit=4):
    if state is not None:
        state.clear()
    r = {}
    try:
        with impl.time_limit(limit):
            t = p.parse(w)
        r["kind"] = "ok"
        r["tree"] = impl.node_sx(t, gi)
        r["trace"] = impl.lr_tree_trace(t)
        r["errors"] = _spans(p.errors)
    except parglare.SyntaxError as e:
        r["kind"] = "SyntaxError"
        r["pos"] = e.location.start_position
        r["end"] = e.location.end_position
        r["has_errors"] = hasattr(p, "errors")
    except parglare.DisambiguationError as e:
        r["kind"] = "DisambiguationError"
        r["pos"] = e.location.start_position
        r["errors"] = _spans(getattr(p, "errors", []))
    except BaseException as e:  # noqa
        r["kind"] = "exc:" + impl.exc_kind(e)
    return r


def _glr_parse(parglare, impl, gi, p, w, state=None, ntrees=8, limit=4):
    if state is not None:
        state.clear()
    r = {}
    try:
        with impl.time_limit(limit):
            f = p.parse(w)
        r["kind"] = "forest"
        r["errors"] = _spans(p.errors)
        try:
            with impl.time_limit(10):
                try:
                    nodes = impl.dump_forest(f, gi)
                    r["nodes"] = nodes if len(nodes) <= 400 else None
                    r["solutions"] = f.solutions
                    r["trees"] = [impl.tree_sx(f[i], gi) for i in range(min(f.solutions, ntrees))]
                except impl.Cyclic:
                    r["cyclic"] = True
        except BaseException as e:  # noqa
            r["post"] = "exc:" + impl.exc_kind(e)
    except parglare.SyntaxError as e:
        r["kind"] = "SyntaxError"
        r["pos"] = e.location.start_position
        r["end"] = e.location.end_position
        if state is not None:
            r["handed"] = list(state.get("handed", []))
    except BaseException as e:  # noqa
        r["kind"] = "exc:" + impl.exc_kind(e)
        r["msg"] = str(e)[:200]
        import traceback
        r["frames"] = [f.name for f in traceback.extract_tb(e.__traceback__)][-8:]
    return r


def _worker(job):
    gname, gtext, spec, seed = job
    import parglare
    from parglare import GLRParser, Grammar, Parser
    from lib import impl
    rng = random.Random(seed)
    out = {"gname": gname, "gtext": gtext, "gerr": None, "combos": [], "glr": None,
           "layout": "LAYOUT:" in gtext, "delim": spec["delim"]}
    try:
        with impl.time_limit(20):
            g = Grammar.from_string(gtext)
    except BaseException as e:  # noqa
        out["gerr"] = impl.exc_kind(e)
        return out
    gi = impl.GInfo(g)
    out["grammar"] = impl.model_grammar(gi)
    out["terms"] = impl.dump_terms(gi)
    out["stop"] = impl.stop_id(gi)
    # ---- inputs
    inputs = list(spec.get("inputs", []))
    alphabet = spec["alphabet"]
    junk = spec["junk"]
    fillers = spec.get("fillers", ["", " "])
    nsent = spec.get("nsent", 0)
    sentences = []
    for _ in range(nsent):
        toks = _sentence(rng, g, spec.get("samples", {}), rng.randint(2, 5))
        if toks is None:
            continue
        s = _join(rng, toks, fillers)
        sentences.append(s)
    out["n_sentences"] = len(sentences)
    for i, s in enumerate(sentences):
        if i % 4 == 0:
            inputs.append(s)
        for _ in range(spec.get("ncorrupt", 2)):
            inputs.append(_corrupt(rng, s, alphabet, junk))
    inputs = sorted(set(inputs))
    out["inputs"] = inputs
    out["rx"] = {w: impl.rx_matrix(gi, w) for w in inputs}
    delim = spec["delim"]
    # ---- LR
    for ps, pse, tabs, consume in spec["combos"]:
        c = {"ps": ps, "pse": pse, "tables": tabs, "consume": consume, "results": {}}
        kw = dict(build_tree=True, prefer_shifts=ps, prefer_shifts_over_empty=pse, tables=tabs,
                  consume_input=consume)
        inj_state = {}
        try:
            with impl.time_limit(6), impl.quiet():
                p0 = Parser(g, **kw)
                pr = Parser(g, error_recovery=True, **kw)
                pskip = Parser(g, error_recovery=make_skip(delim), **kw)
                pinj = Parser(g, error_recovery=make_inject(inj_state), **kw)
            c["outcome"] = "ok"
        except BaseException as e:  # noqa
            c["outcome"] = impl.exc_kind(e)
            out["combos"].append(c)
            continue
        c["table"] = impl.dump_table(pr.table, gi)
        if pr.layout_parser is not None:
            c["layout_table"] = impl.dump_table(pr.layout_parser.table, gi)
        ntimeouts = 0
        for w in inputs:
            if ntimeouts >= 2:          # a driver that loops on this table: two witnesses are enough
                c["cut_short"] = True
                break
            plain = _lr_parse(parglare, impl, gi, p0, w, limit=3)
            lim = 1 if plain["kind"] == "exc:Timeout" else 3
            dflt = _lr_parse(parglare, impl, gi, pr, w, limit=lim)
            if dflt["kind"] == "exc:Timeout":
                lim = 1
            c["results"][w] = {
                "plain": plain,
                "default": dflt,
                "skip": _lr_parse(parglare, impl, gi, pskip, w, limit=lim),
                "inject": _lr_parse(parglare, impl, gi, pinj, w, inj_state, limit=lim),
            }
            if any(x["kind"] == "exc:Timeout" for x in c["results"][w].values()):
                ntimeouts += 1
        out["combos"].append(c)
    # ---- GLR
    gl = {"results": {}}
    inj_state = {}
    try:
        with impl.time_limit(6), impl.quiet():
            g0 = GLRParser(g)
            gr = GLRParser(g, error_recovery=True)
            gskip = GLRParser(g, error_recovery=make_skip(delim))
            ginj = GLRParser(g, error_recovery=make_inject(inj_state))
        gl["outcome"] = "ok"
    except BaseException as e:  # noqa
        gl["outcome"] = impl.exc_kind(e)
    gtimeouts = 0
    if gl["outcome"] == "ok":
        for w in inputs:
            if gtimeouts >= 2:
                gl["cut_short"] = True
                break
            plain = _glr_parse(parglare, impl, gi, g0, w)
            lim = 1 if plain["kind"] == "exc:Timeout" else 4
            gl["results"][w] = {
                "plain": plain,
                "default": _glr_parse(parglare, impl, gi, gr, w, limit=lim),
                "skip": _glr_parse(parglare, impl, gi, gskip, w, limit=lim),
                "inject": _glr_parse(parglare, impl, gi, ginj, w, inj_state, limit=lim),
            }
            if any(x["kind"] == "exc:Timeout" for x in gl["results"][w].values()):
                gtimeouts += 1
    out["glr"] = gl
    return out


_CONFIRMED = [0]


def _terminates_given_time(gtext, delim, sname, w, glr, kw=None, limit=40):
    """a time-out of the (short) per-case limit is confirmed before it is reported: the same
    parse is repeated alone with a generous budget (machine load must not raise an alarm);
    at most four confirmations per run -- a parser that loops on many inputs is reported from
    the first confirmed ones"""
    import parglare
    _CONFIRMED[0] += 1
    if _CONFIRMED[0] > 4:
        return False
    from parglare import GLRParser, Grammar, Parser
    from lib import impl
    try:
        with impl.time_limit(30), impl.quiet():
            g = Grammar.from_string(gtext)
            er = {"default": True, "skip": make_skip(delim), "inject": make_inject({})}[sname]
            p = GLRParser(g, error_recovery=er) if glr else Parser(g, error_recovery=er, **(kw or {}))
    except BaseException:  # noqa
        return False
    try:
        with impl.time_limit(limit):
            p.parse(w)
        return True
    except BaseException as e:  # noqa
        return impl.exc_kind(e) != "Timeout"


# ---------------------------------------------------------------- jobs
def gen_jobs(ctx):
    rng = ctx.rng
    quick = ctx.quick()
    jobs = []
    # corpus of past findings first
    cp = os.path.join(common.VERIF, "harness", "corpus", "c11.json")
    if os.path.exists(cp):
        for e in json.load(open(cp)):
            jobs.append((e["name"], e["text"],
                         {"inputs": e["inputs"], "alphabet": e.get("alphabet", "ab"), "junk": e.get("junk", "x"),
                          "delim": e.get("delim", ";"), "combos": COMBOS}, rng.randrange(1 << 30)))
    for name, text, samples, junk, delim in RICH:
        alpha = sorted(set(gramgen.alphabet_of(text)) | set("".join(v for vs in samples.values() for v in vs)))
        alpha = [a for a in alpha if a.strip()] or ["a"]
        reps = 7 if quick else 24
        for k in range(reps):
            short = [s for s in gramgen.all_strings(alpha[:3] + [junk[0], " "], 2 if quick else 3)] if k == 0 else []
            jobs.append(("%s#%d" % (name, k), text,
                         {"inputs": short, "alphabet": "".join(alpha), "junk": junk, "delim": delim,
                          "samples": samples, "nsent": 10 if quick else 24, "ncorrupt": 3, "combos": COMBOS,
                          "fillers": ["", " ", " ", "\n "]}, rng.randrange(1 << 30)))
        if name in ("stmts", "list", "block"):
            jobs.append((name + "+L", with_layout(text),
                         {"inputs": [], "alphabet": "".join(alpha), "junk": junk + "/", "delim": delim,
                          "samples": samples, "nsent": 8 if quick else 40, "ncorrupt": 3,
                          "combos": COMBOS[:2], "fillers": [" ", " //c\n", "", " //x;\n "]},
                         rng.randrange(1 << 30)))
    for name, text in gramgen.CURATED:
        alpha = gramgen.alphabet_of(text)
        ml = (3 if quick else 4) if len(alpha) >= 3 else (4 if quick else 5)
        base = list(gramgen.all_strings(alpha + ["x"], ml))
        cap = 90 if quick else 600
        if len(base) > cap:
            rng.shuffle(base)
            base = base[:cap]
        base = [(" ".join(s) if i % 5 == 4 else s) for i, s in enumerate(base)]
        jobs.append((name, text, {"inputs": base, "alphabet": "".join(alpha), "junk": "x", "delim": alpha[0],
                                  "nsent": 4 if quick else 12, "ncorrupt": 3, "combos": COMBOS[:3]},
                     rng.randrange(1 << 30)))
    nrand = 220 if quick else 1400
    for i in range(nrand):
        big = i % 3 == 0
        r = gramgen.random_grammar(rng, max_nt=4 if big else 3, max_alts=3, max_rhs=3,
                                   terms=("'a'", "'b'", "'c'") if big else ("'a'", "'b'"),
                                   p_empty=rng.choice([0.0, 0.15, 0.3]))
        if r is None:
            continue
        prods, text = r
        alpha = ["a", "b", "c"] if big else ["a", "b"]
        base = list(gramgen.all_strings(alpha + ["x"], 3 if big else 4))
        if quick:
            rng.shuffle(base)
            base = base[:50]
        for _ in range(6):
            s = gramgen.random_sentence(rng, prods, max_depth=5, max_len=9)
            if s is not None:
                base.append(s)
                base.append(_corrupt(rng, s, "".join(alpha), "x "))
        jobs.append(("rand%d" % i, text, {"inputs": base, "alphabet": "".join(alpha), "junk": "x ",
                                           "delim": "b", "combos": [COMBOS[i % 4], COMBOS[(i + 1) % 4]]},
                     rng.randrange(1 << 30)))
    return jobs


# ---------------------------------------------------------------- oracles
def py_spans_ok(spans, n, p0=0):
    lo = p0
    for a, b in spans:
        if a is None or b is None or not (lo <= a <= b <= n):
            return False
        lo = b
    return True


def leaves_of(t, out=None):
    out = [] if out is None else out
    if t[0] == 0:
        out.append((t[1], t[2], t[3]))
    else:
        for c in t[4]:
            leaves_of(c, out)
    return out


def leaves_are_tokens(leaves, rx, n, zero_ok=False):
    prev = 0
    for (t, s, e) in leaves:
        if s < prev or e < s or e > n:
            return False
        if e == s:
            if not zero_ok:
                return False
        elif t >= len(rx) or s >= len(rx[t]) or rx[t][s] != e - s:
            return False
        prev = e
    return True


def run(ctx):
    import time
    t0 = time.time()
    replay_known(ctx)
    jobs = gen_jobs(ctx)
    with mp.Pool(common.NPROC) as pool:
        results = pool.map(_worker, jobs, chunksize=1)
    ctx.notes.append("impl phase: %.1f s for %d jobs" % (time.time() - t0, len(jobs)))
    t0 = time.time()
    st = {"grammars": 0, "grammar_errors": {}, "lr_combos": 0, "lr_construct": {}, "inputs": 0,
          "lr_runs": 0, "lr_by_strategy": {}, "lr_kinds": {}, "lr_recovered_results": 0, "lr_errors_recorded": 0,
          "lr_multi_error_results": 0, "lr_failed_recoveries": 0, "lr_sentences": 0, "model_compared": 0,
          "model_out_of_fuel": 0, "coverage_checked": 0, "trees_certified": 0, "spans_validated": 0,
          "glr_runs": 0, "glr_kinds": {}, "glr_recovered_results": 0, "glr_sentences": 0,
          "glr_trees_certified": 0, "glr_coverage_holds": 0, "glr_coverage_fails": 0,
          "layout_grammars": 0, "adjacent_spans": 0, "max_errors_in_one_result": 0}
    wsl = [ord(c) for c in WS]
    mcases, meta = [], []

    def add(cmd, arg, tag):
        mcases.append((cmd, arg))
        meta.append(tag)
        return len(mcases) - 1

    STRAT_SX = {"default": lambda r: [0], "skip": lambda r: [1, ord(r["delim"])], "inject": lambda r: [2]}
    for r in results:
        st["grammars"] += 1
        if r["gerr"]:
            st["grammar_errors"][r["gerr"]] = st["grammar_errors"].get(r["gerr"], 0) + 1
            continue
        if r["layout"]:
            st["layout_grammars"] += 1
        st["inputs"] += len(r["inputs"])
        start = r["grammar"][0][1][0][1]
        r["start"] = start
        for c in r["combos"]:
            st["lr_combos"] += 1
            st["lr_construct"][c["outcome"]] = st["lr_construct"].get(c["outcome"], 0) + 1
            if c["outcome"] != "ok":
                continue
            lay = [c["layout_table"]] if "layout_table" in c else []
            pconf = [r["grammar"], c["table"], r["terms"], r["stop"], 1 if c["consume"] else 0, 1,
                     [] if lay else wsl, lay]
            for w, res4 in c["results"].items():
                pin = [[ord(ch) for ch in w], r["rx"][w]]
                res4["_m"] = {}
                for sname in ("default", "skip", "inject"):
                    res = res4[sname]
                    res4["_m"][sname] = add(110, [pconf, pin, FUEL, 0, 1, STRAT_SX[sname](r)], None)
                    if res["kind"] == "ok":
                        res["_treeok"] = add(5, [r["grammar"], res["tree"]], None)
                        res["_spans"] = add(111, [0, len(w), res["errors"]], None)
                        if not lay and sname != "inject":
                            res["_cover"] = add(112, [r["grammar"], _tree_as_forest(res["tree"]), pin[0], pin[1],
                                                      wsl, start, 0, 1 if c["consume"] else 0, 1, res["errors"],
                                                      1 if sname == "skip" else 0, 0], None)
                res4["_mplain"] = add(110, [pconf, pin, FUEL, 0, 0, [0]], None)
        gl = r["glr"]
        if gl and gl.get("outcome") == "ok":
            for w, res4 in gl["results"].items():
                pin = [[ord(ch) for ch in w], r["rx"][w]]
                for sname in ("default", "skip", "inject"):
                    res = res4[sname]
                    if res["kind"] == "forest":
                        res["_spans"] = add(111, [0, len(w), res["errors"]], None)
                        res["_treeok"] = [add(5, [r["grammar"], t], None) for t in res.get("trees", [])]
                        if res.get("nodes") and not r["layout"] and sname == "default" and res["errors"]:
                            res["_cover"] = add(112, [r["grammar"], res["nodes"], pin[0], pin[1], wsl, start, 0, 1, 0,
                                                      res["errors"], 0, 0], None)
    outs = common.model_run(mcases)
    ctx.notes.append("model phase: %.1f s for %d model cases" % (time.time() - t0, len(mcases)))
    nx, xok, xlog = common.coq_crosscheck("C11", mcases, outs, ctx.rng, sample=40 if ctx.quick() else 150)
    if not xok:
        ctx.violation("extraction cross-check failed: OCaml driver and vm_compute disagree",
                      {"log": xlog}, no_input=True)

    distinct = set()
    samples = []
    glr_kf_cases = []
    for r in results:
        if r["gerr"]:
            continue
        start = r["start"]
        for c in r["combos"]:
            if c["outcome"] != "ok":
                continue
            combo = {"prefer_shifts": c["ps"], "prefer_shifts_over_empty": c["pse"],
                     "tables": "LALR" if c["tables"] == 1 else "SLR", "consume_input": c["consume"],
                     "build_tree": True}
            for w, res4 in c["results"].items():
                plain = res4["plain"]
                rx = r["rx"][w]
                n = len(w)
                if plain["kind"] == "ok":
                    st["lr_sentences"] += 1
                for sname in ("default", "skip", "inject"):
                    res = res4[sname]
                    st["lr_runs"] += 1
                    st["lr_by_strategy"][sname] = st["lr_by_strategy"].get(sname, 0) + 1
                    k = res["kind"]
                    st["lr_kinds"][k] = st["lr_kinds"].get(k, 0) + 1
                    rep = {"grammar": r["gtext"], "options": combo, "input": w, "parser": "Parser",
                           "strategy": sname, "delimiter": r["delim"], "impl": {x: y for x, y in res.items()
                                                                                  if not x.startswith("_")}}
                    # ---- property oracle on the impl's behaviour
                    if k == "exc:Timeout":
                        # C11_terminates_rel: the number of recoveries is bounded, so a model run that
                        # exhausts its fuel is an error-free LR segment that does not end (the driver
                        # looping on empty reductions: C04's subject, the parser without recovery
                        # loops as well); anything else is non-termination caused by recovery
                        o = outs[res4["_m"][sname]]
                        if o[0] == 3:
                            st["lr_segment_diverges"] = st.get("lr_segment_diverges", 0) + 1
                        elif _terminates_given_time(r["gtext"], r["delim"], sname, w, False,
                                                    dict(build_tree=True, prefer_shifts=c["ps"],
                                                         prefer_shifts_over_empty=c["pse"], tables=c["tables"],
                                                         consume_input=c["consume"])):
                            st["timeouts_not_confirmed"] = st.get("timeouts_not_confirmed", 0) + 1
                        else:
                            ctx.violation("Parser.parse with error recovery (%s) did not terminate within the "
                                          "time limit (model result tag %d, parser without recovery: %s)"
                                          % (sname, o[0], plain["kind"]), rep, key="lr-timeout-" + sname)
                        continue
                    if k.startswith("exc:"):
                        ctx.violation("Parser.parse with error recovery (%s) raised %s (only SyntaxError is allowed)"
                                      % (sname, k[4:]), rep, key="lr-exc-%s-%s" % (sname, k))
                        continue
                    if k == "ok":
                        spans = res["errors"]
                        st["spans_validated"] += 1
                        if spans:
                            st["lr_recovered_results"] += 1
                            st["lr_errors_recorded"] += len(spans)
                            st["max_errors_in_one_result"] = max(st["max_errors_in_one_result"], len(spans))
                            distinct.add((r["gtext"], c["ps"], c["pse"], c["tables"], c["consume"], sname, w))
                            if len(spans) > 1:
                                st["lr_multi_error_results"] += 1
                                if any(spans[i][1] == spans[i + 1][0] for i in range(len(spans) - 1)):
                                    st["adjacent_spans"] += 1
                            if len(samples) < 4 and len(spans) > 1 and sname == "default":
                                samples.append({"grammar": r["gtext"], "options": combo, "input": w,
                                                "errors": spans, "tree": res["tree"]})
                        if sname == "default" and any(a >= b for a, b in spans):
                            ctx.violation("LR default recovery: a recorded (recovered) error has an empty span %r"
                                          % spans, rep, key="lr-empty-span")
                        if outs[res["_spans"]] != 1 or not py_spans_ok(spans, n):
                            ctx.violation("reported error spans %r are not in bounds / start<=end / ordered / "
                                          "disjoint (input length %d)" % (spans, n), rep, key="lr-spans-" + sname)
                        st["trees_certified"] += 1
                        root = res["tree"]
                        rootok = root[0] == 1 and r["grammar"][root[1]][0] == start
                        lv = leaves_of(root)
                        if outs[res["_treeok"]] != 1 or not rootok or \
                                not leaves_are_tokens(lv, rx, n, zero_ok=(sname == "inject")):
                            ctx.violation("result of a recovered parse (%s) is not a derivation whose leaves are "
                                          "tokens of the input in input order" % sname, rep, key="lr-tree-" + sname)
                        if "_cover" in res:
                            st["coverage_checked"] += 1
                            if outs[res["_cover"]] != 1:
                                ctx.violation("LR coverage fails (%s): some non-layout character is neither in "
                                              "exactly one leaf nor in exactly one reported span (spans %r)"
                                              % (sname, spans), rep, key="lr-cover-" + sname)
                        if plain["kind"] == "ok":
                            if spans or res["tree"] != plain["tree"] or res["trace"] != plain["trace"]:
                                ctx.violation("input is a sentence (parser without recovery accepts) but the "
                                              "parser with recovery (%s) records %r / returns another tree"
                                              % (sname, spans), dict(rep, plain=plain), key="lr-sentence-" + sname)
                        elif not spans:
                            ctx.violation("parser with recovery (%s) returns a result with no error recorded but "
                                          "the parser without recovery fails with %s" % (sname, plain["kind"]),
                                          dict(rep, plain=plain), key="lr-noerror-" + sname)
                    elif k == "SyntaxError":
                        st["lr_failed_recoveries"] += 1
                        if plain["kind"] == "ok":
                            ctx.violation("input is a sentence but the parser with recovery (%s) raises SyntaxError"
                                          % sname, dict(rep, plain=plain), key="lr-sentence-raise-" + sname)
                        if not (0 <= res["pos"] <= n) or res["end"] != res["pos"]:
                            ctx.violation("raised SyntaxError has span (%r, %r), input length %d"
                                          % (res["pos"], res["end"], n), rep, key="lr-raise-span-" + sname)
                    # ---- correspondence with the model
                    o = outs[res4["_m"][sname]]
                    st["model_compared"] += 1
                    tag = o[0]
                    if tag == 3:
                        st["model_out_of_fuel"] += 1
                        ctx.violation("model ran out of fuel but the impl terminated with %s" % k, rep,
                                      no_input=True, key="fuel")
                        continue
                    if k == "ok":
                        if tag != 0:
                            ctx.violation("impl returns a result (%s), model result tag %d" % (sname, tag),
                                          dict(rep, model=o), no_input=True, key="diff-ok-" + sname)
                        else:
                            mtrace = [(x[1], x[2], w[x[3][0]:x[3][1]]) for x in o[4]]
                            if o[1] != res["tree"]:
                                ctx.violation("impl and model trees differ (%s)" % sname,
                                              dict(rep, model=o[1]), no_input=True, key="diff-tree-" + sname)
                            elif o[3] != res["errors"]:
                                ctx.violation("impl parser.errors spans %r, model %r (%s)" % (res["errors"], o[3], sname),
                                              dict(rep, model=o[3]), no_input=True, key="diff-spans-" + sname)
                            elif mtrace != [tuple(x) for x in res["trace"]]:
                                ctx.violation("impl and model leaf/layout traces differ (%s)" % sname,
                                              dict(rep, model=mtrace), no_input=True, key="diff-trace-" + sname)
                    elif k == "SyntaxError":
                        if tag == 4 and r["layout"]:
                            pass        # the LAYOUT sub-parser's own SyntaxError (position compared below)
                        if tag not in (1, 4) or o[1] != res["pos"]:
                            ctx.violation("impl raises SyntaxError at %r (%s), model %r" % (res["pos"], sname, o[:3]),
                                          dict(rep, model=o), no_input=True, key="diff-raise-" + sname)
                    elif k == "DisambiguationError":
                        if tag != 2 or o[1] != res["pos"] or o[3] != res["errors"]:
                            ctx.violation("impl raises DisambiguationError at %r with errors %r (%s), model %r"
                                          % (res["pos"], res["errors"], sname, o), dict(rep, model=o),
                                          no_input=True, key="diff-dis-" + sname)
                # the model without recovery vs the impl without recovery (same table, same input)
                o = outs[res4["_mplain"]]
                pk = plain["kind"]
                okp = (pk == "exc:Timeout" and o[0] == 3) or \
                      (pk == "ok" and o[0] == 0 and o[1] == plain["tree"]) or \
                      (pk == "SyntaxError" and o[0] in (1, 4) and o[1] == plain["pos"]) or \
                      (pk == "DisambiguationError" and o[0] == 2 and o[1] == plain["pos"])
                if not okp:
                    ctx.violation("parser without recovery: impl %s, model %r" % (pk, o[:2]),
                                  {"grammar": r["gtext"], "options": combo, "input": w, "impl": plain, "model": o},
                                  no_input=True, key="diff-plain")
        # ---- GLR: property oracle only
        gl = r["glr"]
        if not gl or gl.get("outcome") != "ok":
            continue
        for w, res4 in gl["results"].items():
            plain = res4["plain"]
            rx = r["rx"][w]
            n = len(w)
            if plain["kind"] == "forest":
                st["glr_sentences"] += 1
            for sname in ("default", "skip", "inject"):
                res = res4[sname]
                st["glr_runs"] += 1
                k = res["kind"]
                st["glr_kinds"][k] = st["glr_kinds"].get(k, 0) + 1
                rep = {"grammar": r["gtext"], "input": w, "parser": "GLRParser", "strategy": sname,
                       "delimiter": r["delim"],
                       "impl": {x: y for x, y in res.items() if not x.startswith("_") and x != "nodes"}}
                if k == "exc:Timeout" and plain["kind"] == "exc:Timeout":
                    st["glr_plain_timeouts"] = st.get("glr_plain_timeouts", 0) + 1
                    continue
                if k == "SyntaxError" and res.get("handed"):
                    # when recovery finally fails the error raised is the LAST one: the one the strategy
                    # was asked to handle last, not one that had already been recovered from
                    st["glr_last_error_checked"] = st.get("glr_last_error_checked", 0) + 1
                    if res["pos"] != res["handed"][-1]:
                        ctx.violation("GLRParser with recovery (%s) raises the SyntaxError at %r, the last error handed "
                                      "to the strategy was at %r (errors handed: %r)"
                                      % (sname, res["pos"], res["handed"][-1], res["handed"]), rep, key="glr-last-error")
                if k == "exc:Timeout":
                    if _terminates_given_time(r["gtext"], r["delim"], sname, w, True):
                        st["timeouts_not_confirmed"] = st.get("timeouts_not_confirmed", 0) + 1
                        continue
                    ctx.violation("GLRParser.parse with error recovery (%s) did not terminate within the time limit" % sname,
                                  rep, key="glr-timeout-" + sname)
                    continue
                if k.startswith("exc:"):
                    if is_kf_glr(ctx, res):
                        st["glr_kf_instances"] = st.get("glr_kf_instances", 0) + 1
                        ctx.known_finding(KF_GLR, "GLRParser(error_recovery=...).parse raises AttributeError instead "
                                          "of recovering or raising SyntaxError when the default recovery scan "
                                          "finds two tokens at one position; first seen: grammar %r input %r"
                                          % (r["gtext"], w))
                        continue
                    ctx.violation("GLRParser.parse with error recovery (%s) raised %s" % (sname, k[4:]), rep,
                                  key="glr-exc-%s-%s" % (sname, k))
                    continue
                if k == "forest":
                    spans = res["errors"]
                    if spans:
                        st["glr_recovered_results"] += 1
                        distinct.add((r["gtext"], "glr", sname, w))
                    bad_spans = outs[res["_spans"]] != 1 or not py_spans_ok(spans, n)
                    if sname == "default" and any(a >= b for a, b in spans):
                        # C11_progress: a successful default recovery strictly advances the head
                        ctx.violation("GLR default recovery: a recorded (recovered) error has an empty span %r"
                                      % spans, rep, key="glr-empty-span")
                    bad_tree = False
                    for t, ti in zip(res.get("trees", []), res.get("_treeok", [])):
                        st["glr_trees_certified"] += 1
                        rootok = t[0] == 1 and r["grammar"][t[1]][0] == start
                        if outs[ti] != 1 or not rootok or \
                                not leaves_are_tokens(leaves_of(t), rx, n, zero_ok=(sname == "inject")):
                            bad_tree = True
                    if "_cover" in res:
                        if outs[res["_cover"]] == 1:
                            st["glr_coverage_holds"] += 1
                        else:
                            st["glr_coverage_fails"] += 1
                            st.setdefault("glr_coverage_fail_samples", [])
                            if len(st["glr_coverage_fail_samples"]) < 3:
                                st["glr_coverage_fail_samples"].append(
                                    {"grammar": r["gtext"], "input": w, "errors": spans,
                                     "trees": res.get("trees", [])[:2]})
                    if bad_spans or bad_tree:
                        glr_kf_cases.append((r, w, sname, res, rep, bad_spans, bad_tree))
                    if plain["kind"] == "forest":
                        if spans or res.get("nodes") != plain.get("nodes") or \
                                res.get("solutions") != plain.get("solutions"):
                            ctx.violation("input is a sentence (GLRParser without recovery accepts) but with recovery "
                                          "(%s) errors %r are recorded / the forest differs" % (sname, spans),
                                          rep, key="glr-sentence-" + sname)
                    elif not spans:
                        ctx.violation("GLRParser with recovery (%s) returns a forest with no error recorded but "
                                      "without recovery it fails" % sname, rep, key="glr-noerror-" + sname)
                elif k == "SyntaxError":
                    if plain["kind"] == "forest":
                        ctx.violation("input is a sentence but GLRParser with recovery (%s) raises SyntaxError"
                                      % sname, rep, key="glr-sentence-raise-" + sname)
                    if not (0 <= res["pos"] <= n) or not (res["pos"] <= res["end"] <= n):
                        ctx.violation("raised SyntaxError has span (%r, %r), input length %d"
                                      % (res["pos"], res["end"], n), rep, key="glr-raise-span-" + sname)
    handle_glr_failures(ctx, st, glr_kf_cases)

    cov = {
        "evaluations": st["lr_runs"] + st["glr_runs"],
        "distinct_nontrivial": len(distinct),
        "rule": "grammars: 8 hand-written recovery-friendly grammars (statements, expressions, lists, blocks, JSON, an "
                "LALR-only grammar, keywords, repetitions; three of them also with a LAYOUT rule with comments), the "
                "curated shapes and seeded random grammars; inputs: random sentences of the grammar corrupted by 1-3 "
                "edits (insert, delete, substitute, junk run, truncate, move/duplicate a slice) plus all short strings "
                "over the alphabet + a junk character; each input parsed by Parser and GLRParser without recovery, with "
                "the default strategy, skip-to-delimiter and inject-expected-token; LR under LALR/SLR, prefer_shifts "
                "on/off, consume_input on/off.  non-trivial = a result returned with at least one recorded error; "
                "distinct by (grammar, options, strategy, input)",
        "samples": samples,
        "traces_validated_against_impl": st["model_compared"],
        "distribution": st,
        "crosscheck_vm_compute_cases": nx,
        "exhaustive": False,
    }
    return cov


def is_kf_glr(ctx, res):
    """identification rule of KF-C11-glr-recovery-disambiguation-crash: the exception is the
    AttributeError raised while Parser._next_token builds a DisambiguationError from a GSSNode,
    reached from default_error_recovery"""
    if not any(e["id"] == KF_GLR for e in ctx.kf):
        return False
    fr = res.get("frames", [])
    return (res.get("kind") == "exc:AttributeError"
            and "'GSSNode' object has no attribute 'start_position'" in res.get("msg", "")
            and "default_error_recovery" in fr and "_next_token" in fr
            and fr.index("default_error_recovery") < fr.index("_next_token"))


def handle_glr_failures(ctx, st, cases):
    """GLR failures of the span/tree oracle: always violations."""
    for (r, w, sname, res, rep, bad_spans, bad_tree) in cases:
        what = ("GLR with recovery (%s): " % sname) + \
               ("reported spans %r not ordered/disjoint/in bounds" % res["errors"] if bad_spans else
                "a tree of the forest is not a derivation whose leaves are tokens of the input in order")
        ctx.violation(what, rep, key="glr-%s-%s" % ("spans" if bad_spans else "tree", sname))


def replay_known(ctx):
    """known findings are replayed first: a listed witness that still fails as recorded is
    reported as KNOWN-FINDING, one that fails differently is a violation"""
    for e in ctx.kf:
        if e["id"] != KF_GLR:
            continue
        for wit in e.get("witnesses", []):
            spec = {"inputs": [wit["input"]], "alphabet": "ab", "junk": "x", "delim": ";", "combos": []}
            r = _worker(("kf-witness", wit["grammar"], spec, 0))
            res = (r.get("glr") or {}).get("results", {}).get(wit["input"], {}).get("default")
            if res is None:
                ctx.violation("known-finding witness could not be replayed", {"witness": wit}, no_input=True)
            elif is_kf_glr(ctx, res):
                ctx.known_finding(KF_GLR, "GLRParser(error_recovery=True).parse raises AttributeError instead of "
                                  "recovering or raising SyntaxError when the default recovery scan finds two "
                                  "tokens at one position; witness: grammar %r input %r"
                                  % (wit["grammar"], wit["input"]))
            elif res["kind"].startswith("exc:"):
                ctx.violation("known-finding witness now fails differently: %s" % res["kind"],
                              {"grammar": wit["grammar"], "input": wit["input"], "impl": res},
                              key="kf-witness-changed")
            else:
                ctx.notes.append("known finding %s: witness %r no longer fails (fixed?)" % (KF_GLR, wit["input"]))


def replay(ctx, rep):
    spec = {"inputs": [rep["input"]], "alphabet": "ab", "junk": "x", "delim": rep.get("delimiter", ";"),
            "combos": COMBOS}
    r = _worker(("replay", rep["grammar"], spec, 0))
    for c in r.get("combos", []):
        print(c["ps"], c["pse"], c["tables"], c["consume"], c["outcome"],
              {w: {k: v for k, v in x.items()} for w, x in c.get("results", {}).items()})
    if r.get("glr"):
        print("GLR", {w: {k: {a: b for a, b in v.items() if a != "nodes"} for k, v in x.items()}
                      for w, x in r["glr"].get("results", {}).items()})
    return 0
