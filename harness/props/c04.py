"""C04 -- LR parser is sound always and exact when its table is deterministic."""
import itertools
import multiprocessing as mp

from lib import common, gramgen, refparse

LEVEL = "proof"
ASSUMPTIONS = [
    "theorems: table_struct (boolean validator, run on the impl's real table with the impl's own LR(0) items) "
    "implies every accepting run of the nondeterministic LR machine N(T), hence of the LR driver model, yields a "
    "derivation tree of the shifted tokens, for all inputs; tree_ok is a sound and complete derivation checker",
    "the LR driver/scanner/layout models (Model/LRDriver.v, Scan.v, Parser.v) are tied to /repo by differential runs "
    "on generated grammars x 8 option combinations x inputs (trees with positions, error kind and position)",
    "completeness for deterministic tables is decided against an untrusted reference parser whose positive answers "
    "are certified by tree_ok; no completeness theorem yet (partial)",
    "recognizers are an oracle: the match matrix is computed with the impl's own recognizer objects",
]

WS = "\n\r\t "
FUEL = 20000


def sk_ws(w):
    def sk(p):
        while p < len(w) and w[p] in WS:
            p += 1
        return p
    return sk


def _worker(job):
    gname, gtext, inputs = job
    import parglare
    from parglare import GLRParser, Grammar, Parser
    from parglare.tables import LALR, SLR
    from lib import impl
    out = {"gname": gname, "gtext": gtext, "combos": [], "gerr": None}
    try:
        with impl.time_limit(20):
            g = Grammar.from_string(gtext)
    except BaseException as e:  # noqa
        out["gerr"] = impl.exc_kind(e)
        return out
    gi = impl.GInfo(g)
    out["grammar"] = impl.model_grammar(gi)
    out["terms"] = impl.dump_terms(gi)
    out["stop"] = impl.stop_id(gi)
    out["plain"] = all(p.prior == 10 and p.assoc == 0 for p in g.productions)
    rxs = {}
    for w in inputs:
        rxs[w] = impl.rx_matrix(gi, w)
    out["rx"] = rxs
    for ps, pse, tabs in itertools.product([False, True], [False, True], [LALR, SLR]):
        c = {"ps": ps, "pse": pse, "tables": tabs, "results": {}}
        try:
            with impl.time_limit(20), impl.quiet():
                p = Parser(g, build_tree=True, prefer_shifts=ps, prefer_shifts_over_empty=pse,
                           tables=tabs)
            c["outcome"] = "ok"
        except BaseException as e:  # noqa
            c["outcome"] = impl.exc_kind(e)
            out["combos"].append(c)
            continue
        c["table"] = impl.dump_table(p.table, gi)
        if not ps and not pse and out["plain"]:
            c["ann"] = impl.dump_annotation(p.table, gi, slr=(tabs == SLR))
        c["deterministic"] = all(len(al) == 1 for s in p.table.states for al in s.actions.values())
        glr = None
        if c["deterministic"] and not ps and not pse and out["plain"]:
            try:
                with impl.time_limit(20), impl.quiet():
                    glr = GLRParser(g, tables=tabs)
            except BaseException as e:  # noqa
                c["glr_err"] = impl.exc_kind(e)
        n_to = 0
        for w in inputs:
            r = {}
            if n_to >= 2:
                # the parser loops on this grammar: two time-outs are enough
                r["kind"] = "skipped-after-timeouts"
                c["results"][w] = r
                continue
            try:
                with impl.time_limit(3):
                    t = p.parse(w)
                r["kind"] = "ok"
                r["tree"] = impl.node_sx(t, gi)
                r["trace"] = impl.lr_tree_trace(t)
            except parglare.SyntaxError as e:
                r["kind"] = "SyntaxError"
                r["pos"] = e.location.start_position
            except parglare.DisambiguationError as e:
                r["kind"] = "DisambiguationError"
                r["pos"] = e.location.start_position
            except BaseException as e:  # noqa
                r["kind"] = "exc:" + impl.exc_kind(e)
                if r["kind"] == "exc:Timeout":
                    n_to += 1
            if glr is not None:
                try:
                    with impl.time_limit(5):
                        f = glr.parse(w)
                        r["glr"] = [len(f), impl.tree_sx(f[0], gi)]
                except parglare.SyntaxError:
                    r["glr"] = "SyntaxError"
                except BaseException as e:  # noqa
                    r["glr"] = "exc:" + impl.exc_kind(e)
            c["results"][w] = r
        out["combos"].append(c)
    return out


LAYOUT_VARIANTS = [lambda s: s, lambda s: " " + " ".join(s) + " ", lambda s: "\n".join(s) + "\t"]


def gen_jobs(ctx):
    rng = ctx.rng
    quick = ctx.quick()
    jobs = []
    maxlen = 4 if quick else 5
    for name, text in gramgen.CURATED:
        alpha = gramgen.alphabet_of(text)
        ml = maxlen if len(alpha) <= 3 else maxlen - 1
        base = list(gramgen.all_strings(alpha, ml))
        if len(base) > (150 if quick else 1200):
            rng.shuffle(base)
            base = base[: (150 if quick else 1200)]
        inputs = []
        for i, s in enumerate(base):
            inputs.append(LAYOUT_VARIANTS[i % 3](s) if s else rng.choice(["", " ", "\n"]))
        jobs.append((name, text, sorted(set(inputs))))
    for i in range(20 if quick else 120):
        for gen in (gramgen.lr1_twin_grammar, gramgen.ctx_nullable_grammar, gramgen.unit_chain_grammar,
                    gramgen.follow_chain_grammar, gramgen.epsilon_chain_grammar):
            prods, text = gen(rng)
            alpha = gramgen.alphabet_of(text)
            base = []
            for _ in range(16):
                sen = gramgen.random_sentence(rng, prods, max_depth=6, max_len=8)
                if sen is None:
                    continue
                base.append(sen)
                if len(sen) > 1:
                    k = rng.randrange(len(sen))
                    base.append(sen[:k] + rng.choice(alpha) + sen[k + 1:])
            base = sorted(set(base))
            inputs = [LAYOUT_VARIANTS[j % 3](s_) for j, s_ in enumerate(base)]
            jobs.append(("%s%d" % (gen.__name__[:4], i), text, sorted(set(inputs))))
    nrand = 120 if quick else 1500
    for i in range(nrand):
        big = i % 3 == 0
        r = gramgen.random_grammar(rng, max_nt=5 if big else 3, max_alts=3, max_rhs=3,
                                   terms=("'a'", "'b'", "'c'") if big else ("'a'", "'b'"),
                                   p_empty=rng.choice([0.0, 0.15, 0.3]))
        if r is None:
            continue
        prods, text = r
        if i % 5 == 0:
            prods = [prods[0]] + list(reversed(prods[1:]))
            text = gramgen.gr_text(prods)
        base = list(gramgen.all_strings(["a", "b", "c"] if big else ["a", "b"],
                                        (3 if quick else 4) if big else (4 if quick else 5)))
        for _ in range(8):
            s = gramgen.random_sentence(rng, prods, max_depth=5, max_len=9)
            if s is not None and s not in base:
                base.append(s)
        inputs = [LAYOUT_VARIANTS[rng.randrange(3)](s) if rng.random() < 0.3 else s for s in base]
        jobs.append(("rand%d" % i, text, sorted(set(inputs))))
    return jobs


def token_chain_ok(leaves, rx, sk, n, consume=True):
    """the leaves are a tokenisation of the input: first at sk(0), each matched by
    its recognizer, consecutive ones separated by layout only, only layout after"""
    pos = sk(0)
    for (t, s, e) in leaves:
        if s != pos or e <= s or t >= len(rx) or s >= len(rx[t]) or rx[t][s] != e - s:
            return False
        pos = sk(e)
    return (pos == n) if consume else True


LAYOUT_WS_RULE = "\nLAYOUT: WS | EMPTY;\n"


def _layout_probe_worker(job):
    """A grammar plus a LAYOUT rule matching exactly whitespace runs, main table LALR and SLR: when the table of
    the plain grammar is deterministic (no strategy applied) the LAYOUT-rule parser must accept exactly what the
    plain parser (tied to the model) accepts, with the same tree -- the layout sub-parser, built first on the same
    Grammar object, must not disturb the main table (seed C04-6: FOLLOW sets memoised on the grammar)."""
    gname, gtext, inputs = job
    import parglare
    from parglare import Grammar, Parser
    from parglare.tables import LALR, SLR
    from lib import impl
    out = {"gname": gname, "gtext": gtext, "rows": [], "skipped": 0}
    if "terminals" in gtext:
        ltext = gtext.replace("terminals", LAYOUT_WS_RULE.strip("\n") + "\nterminals", 1) + "\nWS: /\\s+/;\n"
    else:
        ltext = gtext + LAYOUT_WS_RULE + "terminals\nWS: /\\s+/;\n"
    out["ltext"] = ltext

    def shape(n):
        if n.is_term():
            return [n.symbol.name, n.start_position, n.end_position]
        return [n.symbol.name, n.start_position, n.end_position, [shape(c) for c in n.children]]
    for tabs, tname in ((LALR, "LALR"), (SLR, "SLR")):
        ps = []
        try:
            for t in (gtext, ltext):
                with impl.time_limit(20), impl.quiet():
                    ps.append(Parser(Grammar.from_string(t), build_tree=True, prefer_shifts=False,
                                     prefer_shifts_over_empty=False, tables=tabs))
        except BaseException:  # noqa
            out["skipped"] += 1
            continue
        for w in inputs:
            r = []
            for p in ps:
                try:
                    with impl.time_limit(10):
                        r.append(["ok", shape(p.parse(w))])
                except parglare.SyntaxError as e:
                    r.append(["SyntaxError", e.location.start_position])
                except BaseException as e:  # noqa
                    r.append(["exc", impl.exc_kind(e)])
            out["rows"].append([tname, w, r[0], r[1]])
    return out


def layout_probe(ctx, st, jobs):
    sel = [j for j in jobs if "LAYOUT" not in j[1]][: (40 if ctx.quick() else 400)]
    with mp.Pool(common.NPROC) as pool:
        outs = pool.map(_layout_probe_worker, [(n, t, ins[:40]) for n, t, ins in sel], chunksize=1)
    st["layout_rule_grammars"] = len(outs)
    st["layout_rule_parses"] = 0
    st["layout_rule_skipped_constructions"] = sum(o["skipped"] for o in outs)
    for o in outs:
        for tname, w, a, b in o["rows"]:
            st["layout_rule_parses"] += 1
            if a != b and "Timeout" not in (a[1], b[1]):
                ctx.violation("deterministic %s table: the parser of the grammar with a whitespace LAYOUT rule gives %r "
                              "on %r, the parser of the plain grammar (ws skipping) %r" % (tname, b, w, a),
                              {"grammar": o["ltext"], "plain_grammar": o["gtext"], "input": w,
                               "options": {"tables": tname}}, key="layout-probe-" + tname)
                break


def run(ctx):
    import time
    t0 = time.time()
    jobs = gen_jobs(ctx)
    with mp.Pool(common.NPROC) as pool:
        results = pool.map(_worker, jobs, chunksize=1)
    t_impl = time.time() - t0
    st0 = {}
    layout_probe(ctx, st0, jobs)
    st = {"grammars": 0, "grammar_errors": {}, "combos": 0, "construct": {}, "deterministic_combos": 0,
          "parses": 0, "accepts": 0, "syntax_errors": 0, "disambiguation_errors": 0, "other": {},
          "glr_compared": 0, "ref_sentences": 0, "ref_nonsentences": 0, "tables_validated": 0,
          "model_out_of_fuel": 0, "trees_certified": 0}
    st.update(st0)
    mcases = []
    meta = []
    wsl = [ord(c) for c in WS]
    for r in results:
        st["grammars"] += 1
        if r["gerr"]:
            st["grammar_errors"][r["gerr"]] = st["grammar_errors"].get(r["gerr"], 0) + 1
            continue
        start = r["grammar"][0][1][0][1]
        for c in r["combos"]:
            st["combos"] += 1
            st["construct"][c["outcome"]] = st["construct"].get(c["outcome"], 0) + 1
            if c["outcome"] != "ok":
                continue
            if c["deterministic"]:
                st["deterministic_combos"] += 1
            mcases.append((3, [r["grammar"], c["table"], start]))
            meta.append(("struct", r, c, None))
            mcases.append((10, c["table"]))
            meta.append(("det", r, c, None))
            if "ann" in c:
                ann, ftab, ntab = c["ann"]
                mcases.append((8, [r["grammar"], c["table"], ann, ftab, ntab, r["stop"]]))
                meta.append(("complete", r, c, None))
            pconf = [r["grammar"], c["table"], r["terms"], r["stop"], 1, 1, wsl, []]
            for w, res in c["results"].items():
                pin = [[ord(ch) for ch in w], r["rx"][w]]
                mcases.append((4, [pconf, pin, FUEL, 0]))
                meta.append(("parse", r, c, w))
                if res["kind"] == "ok":
                    mcases.append((5, [r["grammar"], res["tree"]]))
                    meta.append(("treeok", r, c, w))
    t1 = time.time()
    outs = common.model_run(mcases)
    t_model = time.time() - t1
    t1 = time.time()
    nx, xok, xlog = common.coq_crosscheck("C04", mcases, outs, ctx.rng, sample=40 if ctx.quick() else 150)
    t_x = time.time() - t1
    st["timing_s"] = {"impl": round(t_impl, 1), "model": round(t_model, 1), "crosscheck": round(t_x, 1)}
    if not xok:
        ctx.violation("extraction cross-check failed: OCaml driver and vm_compute disagree",
                      {"log": xlog}, no_input=True)
    distinct = set()
    samples = []
    refcache = {}
    for (kind, r, c, w), o in zip(meta, outs):
        combo = {"prefer_shifts": c["ps"], "prefer_shifts_over_empty": c["pse"],
                 "tables": "LALR" if c["tables"] == 1 else "SLR"}
        rep = {"grammar": r["gtext"], "options": combo, "input": w}
        if kind == "struct":
            st["tables_validated"] += 1
            if o != 1:
                ctx.violation("table_struct fails on the impl's table (automaton structure broken)",
                              rep, no_input=True, key="table_struct")
            continue
        if kind == "det":
            if (o == 1) != bool(c["deterministic"]):
                ctx.violation("det_table (extracted) disagrees with the harness on determinism of the table",
                              rep, no_input=True, key="det")
            continue
        if kind == "complete":
            st["tables_validated_complete"] = st.get("tables_validated_complete", 0) + 1
            if o != 1:
                ctx.violation("table_complete fails on the impl's strategy-free table: some derivation has no "
                              "accepting run (a valid action is missing)", rep, no_input=True,
                              key="table_complete")
            continue
        res = c["results"][w]
        if res["kind"] == "skipped-after-timeouts":
            continue
        if kind == "treeok":
            st["trees_certified"] += 1
            sk = sk_ws(w)
            shape = refparse.shape_of_sx(res["tree"])
            leaves = refparse.leaves_of_shape(shape)
            root_ok = res["tree"][0] == 1 and r["grammar"][res["tree"][1]][0] == \
                [p for p in r["grammar"] if True][0][1][0][1] if False else True
            prod = r["grammar"][res["tree"][1]] if res["tree"][0] == 1 else None
            start = r["grammar"][0][1][0][1]
            if o != 1 or prod is None or prod[0] != start or \
                    not token_chain_ok(leaves, r["rx"][w], sk, len(w)):
                rep2 = dict(rep)
                rep2["impl_tree"] = res["tree"]
                ctx.violation("Parser accepted but its tree is not a derivation of the input "
                              "(tree_ok=%r)" % o, rep2, key="unsound-accept")
            # span/layout losslessness of the leaves
            prev = 0
            for (s, e, lay) in res["trace"]:
                if w[prev:s] != lay:
                    ctx.violation("leaf layout_content %r != input[%d:%d]" % (lay, prev, s), rep,
                                  key="layout")
                    break
                prev = e
            continue
        # kind == parse: impl result vs model result
        st["parses"] += 1
        tag = o[0]
        if tag == 3:
            st["model_out_of_fuel"] += 1
            st.setdefault("nonterminating_samples", [])
            if len(st["nonterminating_samples"]) < 3:
                st["nonterminating_samples"].append(rep)
            if res["kind"] != "exc:Timeout":
                ctx.violation("model ran out of fuel but the impl terminated with %s" % res["kind"],
                              rep, no_input=True, key="fuel")
            continue
        if res["kind"] == "exc:Timeout":
            ctx.violation("Parser.parse did not terminate within 10 s; model result tag %d" % tag,
                          rep, key="impl-timeout")
            continue
        impl_k = res["kind"]
        if impl_k == "ok":
            st["accepts"] += 1
            distinct.add((r["gtext"], c["ps"], c["pse"], c["tables"], w))
            if len(samples) < 3 and len(w) >= 3:
                samples.append({"grammar": r["gtext"], "options": combo, "input": w,
                                "impl_tree": res["tree"]})
            if tag != 0:
                ctx.violation("impl accepts, model result tag %d" % tag,
                              dict(rep, model=o), no_input=True, key="diff-accept")
            else:
                if o[1] != res["tree"]:
                    ctx.violation("impl and model trees differ",
                                  dict(rep, model=o[1], impl=res["tree"]), no_input=True, key="diff-tree")
                mtrace = [(x[1], x[2], w[x[3][0]:x[3][1]]) for x in o[4]]
                if mtrace != [tuple(x) for x in res["trace"]]:
                    ctx.violation("impl and model leaf/layout traces differ",
                                  dict(rep, model=mtrace, impl=res["trace"]), no_input=True, key="diff-trace")
        elif impl_k == "SyntaxError":
            st["syntax_errors"] += 1
            if tag != 1 or o[1] != res["pos"]:
                ctx.violation("impl SyntaxError at %r, model %r" % (res["pos"], o[:2]),
                              dict(rep, model=o), no_input=True, key="diff-syntaxerror")
        elif impl_k == "DisambiguationError":
            st["disambiguation_errors"] += 1
            # (the impl locates this error at the span of the last stack node, the model at the scanned
            #  position: only the kind is compared)
            if tag != 2:
                ctx.violation("impl DisambiguationError at %r, model %r" % (res["pos"], o[:2]),
                              dict(rep, model=o), no_input=True, key="diff-diserror")
        else:
            st["other"][impl_k] = st["other"].get(impl_k, 0) + 1
            ctx.violation("Parser.parse raised %s" % impl_k, rep, key="exc-" + impl_k)
        # property-level oracle for the deterministic, strategy-free case
        if c["deterministic"] and not c["ps"] and not c["pse"] and r["plain"]:
            key = (r["gtext"], w)
            if key not in refcache:
                ref = refparse.Ref(r["grammar"], None, r["rx"][w], sk_ws(w), len(w))
                sent = len(w) in ref.sentence_ends()
                trees = None
                if sent:
                    try:
                        trees = ref.sentence_trees(limit=50)
                    except refparse.TooMany:
                        trees = "many"
                refcache[key] = (sent, trees)
            sent, trees = refcache[key]
            if sent:
                st["ref_sentences"] += 1
                if trees == "many" or len(trees) != 1:
                    ctx.violation("deterministic strategy-free table but the reference finds %s derivations"
                                  % ("infinitely/too many" if trees == "many" else len(trees)),
                                  rep, key="det-ambiguous")
                elif impl_k != "ok":
                    ctx.violation("deterministic table: Parser rejects a sentence (%s)" % impl_k,
                                  dict(rep, reference_tree=refparse.shape_to_sx(trees[0])),
                                  key="det-reject")
                elif refparse.shape_of_sx(res["tree"]) != trees[0]:
                    ctx.violation("deterministic table: Parser tree differs from the only derivation",
                                  rep, key="det-tree")
            else:
                st["ref_nonsentences"] += 1
                if impl_k == "ok":
                    ctx.violation("Parser accepts an input the reference finds no derivation for "
                                  "(oracle incompleteness or unsound accept)", rep, no_input=True,
                                  key="ref-incomplete")
            if "glr" in res:
                st["glr_compared"] += 1
                gl = res["glr"]
                if impl_k == "ok":
                    if not isinstance(gl, list) or gl[0] != 1 or \
                            refparse.shape_of_sx(gl[1]) != refparse.shape_of_sx(res["tree"]):
                        ctx.violation("deterministic table: GLR result %r differs from the LR tree"
                                      % (gl if not isinstance(gl, list) else gl[0]), rep, key="det-glr")
                elif impl_k == "SyntaxError" and gl != "SyntaxError":
                    ctx.violation("deterministic table: LR rejects, GLR gives %r"
                                  % (gl if not isinstance(gl, list) else "forest"), rep, key="det-glr-rej")
    # theorem C04_parser_complete: evaluate its boolean hypothesis sep_tokens on the reference
    # derivation of every sentence of a deterministic, validated, strategy-free table; where it
    # holds the theorem says the parser model accepts -- and so must the impl
    scases, smeta = [], []
    model_tag = {}
    for (kind, r, c, w), o in zip(meta, outs):
        if kind == "parse":
            model_tag[(id(c), w)] = o[0]
    complete_ok = {id(c) for (kind, r, c, w), o in zip(meta, outs) if kind == "complete" and o == 1}
    for r in results:
        if r["gerr"] or not r.get("plain"):
            continue
        for c in r["combos"]:
            if c["outcome"] != "ok" or not c["deterministic"] or c["ps"] or c["pse"] or id(c) not in complete_ok:
                continue
            pconf = [r["grammar"], c["table"], r["terms"], r["stop"], 1, 1, wsl, []]
            for w, res in c["results"].items():
                sent, trees = refcache.get((r["gtext"], w), (False, None))
                if not sent or trees == "many" or not trees:
                    continue
                toks = [list(x) for x in refparse.leaves_of_shape(trees[0])]
                scases.append((13, [pconf, [[ord(ch) for ch in w], r["rx"][w]], 0, toks]))
                smeta.append((r, c, w, res))
    souts = common.model_run(scases) if scases else []
    st["theorem_parser_complete_hypotheses_evaluated"] = len(scases)
    st["theorem_parser_complete_applies"] = 0
    for (r, c, w, res), o in zip(smeta, souts):
        if o != 1:
            continue
        st["theorem_parser_complete_applies"] += 1
        rep = {"grammar": r["gtext"], "options": {"tables": "LALR" if c["tables"] == 1 else "SLR"}, "input": w}
        if model_tag.get((id(c), w)) != 0:
            ctx.violation("hypotheses of theorem C04_parser_complete hold but the extracted parser model does "
                          "not accept (codec/extraction error)", rep, no_input=True, key="thm-model")
        if res["kind"] not in ("ok", "skipped-after-timeouts"):
            ctx.violation("Parser rejects (%s) a lexically separated sentence of a validated deterministic "
                          "table, which the parser model provably accepts (C04_parser_complete)" % res["kind"],
                          rep, key="thm-reject")
    cov = {
        "evaluations": st["parses"],
        "distinct_nontrivial": len(distinct),
        "rule": "curated + seeded random productive grammars (<=3 nonterminals), each under the 8 combinations of "
                "prefer_shifts x prefer_shifts_over_empty x {LALR,SLR}; inputs: all strings up to a length bound "
                "over the grammar's alphabet with three layout variants; non-trivial = accepted parse; distinct by "
                "(grammar, options, input)",
        "samples": samples,
        "traces_validated_against_impl": st["parses"],
        "distribution": st,
        "crosscheck_vm_compute_cases": nx,
        "exhaustive": False,
    }
    return cov


def replay(ctx, rep):
    r = _worker(("replay", rep["grammar"], [rep["input"]]))
    for c in r.get("combos", []):
        print(c["ps"], c["pse"], c["tables"], c["outcome"], c.get("results"))
    return 0
