"""C14 -- Layout is invisible: changing layout between tokens never changes the parse.

Per base grammar the worker builds every layout configuration (ws default, custom ws,
ws-equivalent LAYOUT rules in several shapes, LAYOUT with line and nested block comments),
an LR parser (when the table is deterministic) and a GLR parser, and parses every layout
variant of every token list.  The main process then
  * runs the extracted model (parse_full with the impl's main and LAYOUT tables and the impl's
    recognizer matrix) on both members of every relayout pair together with the verified
    validator relayout_check (command 140) and compares model and impl results exactly;
  * evaluates the property on the impl alone: results of w and relayout(w) are related by the
    boundary correspondence (LR trees, GLR forests, error kind/position/expected symbols),
    leaf layout_content is the text between tokens;
  * LAYOUT-vs-ws: sub-parser return position at every input position (impl and model, command
    141) equals ws skipping; the LAYOUT parser, the same parser with layout_parser removed and
    the grammar without LAYOUT rule give identical results, positions, layout_content, errors.
"""
import multiprocessing as mp

from lib import common, gramgen

LEVEL = "proof"
ASSUMPTIONS = [
    "theorems (LR model, unbounded in grammar/table/input/fuel): lockstep simulation of two runs whose layout skipping "
    "and token recognition agree along a boundary correspondence (C14_relayout_partial); verified validator "
    "relayout_check for the whole parser incl. the LAYOUT sub-parser (C14_relayout_check_sound), run here on the "
    "impl's real tables and recognizer matrices; one-ws-character insertion (C14_insert_ws_char); LAYOUT rule vs ws "
    "(C14_layout_rule_vs_ws) and the canonical LAYOUT table (C14_std_layout_partial, concrete table, all inputs)",
    "the GLR driver is not modelled: the GLR half of the property is checked on the impl only (metamorphic, forests "
    "compared tree by tree with positions)",
    "the model (Model/LRDriver.v, Scan.v, Parser.v) is tied to /repo by differential runs: trees with positions, "
    "layout of every leaf, error kind and position, LAYOUT sub-parser return position at every input position",
    "recognizers are an oracle: the match matrix is computed with the impl's own recognizer objects; token boundaries "
    "are layout-independent by construction of the generator (single-character string terminals, or multi-character "
    "terminals always separated by non-empty layout) and this is re-established per pair by the validator",
]

WS = "\n\r\t "
CUSTOM_WS = "\t ~"
FUEL = 20000
MAX_TREES = 12

WS_RE = "/[ \\t\\r\\n]+/"
LAYOUTS = {
    # name: (rules, terminal definitions, ws-equivalent?)
    "canon": ("LAYOUT: LayoutItem | LAYOUT LayoutItem | EMPTY;\nLayoutItem: WS;", "WS: %s;" % WS_RE, True),
    "simple": ("LAYOUT: WS | EMPTY;", "WS: %s;" % WS_RE, True),
    "chars": ("LAYOUT: LayoutItem*;\nLayoutItem: WSC;", "WSC: /[ \\t\\r\\n]/;", True),
    "rightrec": ("LAYOUT: WSC LAYOUT | EMPTY;", "WSC: /[ \\t\\r\\n]/;", True),
    # ws-equivalent, the layout terminals carrying different priorities
    "prio": ("LAYOUT: LayoutItem | LAYOUT LayoutItem | EMPTY;\nLayoutItem: SP | NL;",
             "SP: /[ \\t]+/ {15};\nNL: /[\\r\\n]+/;", True),
    "comments": ("LAYOUT: LayoutItem | LAYOUT LayoutItem | EMPTY;\nLayoutItem: WS | Comment;\n"
                 "Comment: '/*' CorNCs '*/' | LineComment;\nCorNCs: CorNC | CorNCs CorNC | EMPTY;\n"
                 "CorNC: Comment | NotComment | WS;",
                 "WS: /\\s+/;\nLineComment: /\\/\\/.*/;\nNotComment: /((\\*[^\\/])|[^\\s*\\/]|\\/[^\\*])+/;", False),
}

# grammars with multi-character terminals: tokens are always separated by non-empty layout
def _p(text):
    """'E: E + T | T' with blank-separated symbols; lower-case-initial or symbolic words are
    string terminals"""
    lhs, rhs = text.split(": ", 1)
    alts = []
    for a in rhs.split(" | "):
        syms = []
        for x in a.split():
            if x == "EMPTY":
                continue
            syms.append(x if x[0].isupper() else "'%s'" % x)
        alts.append(syms)
    return (lhs, alts)


MULTI = [
    ("m_expr", [_p("E: E + T | T"), _p("T: T x F | F"), _p("F: ( E ) | NUM | ID")],
     "NUM: /\\d+/;\nID: /[a-z]+/;",
     {"NUM": ["1", "42", "007"], "ID": ["a", "foo", "xy"]}),
    ("m_stmt", [_p("P: St | P St"), _p("St: ID := E ; | if E then St end"), _p("E: E + ID | ID | NUM")],
     "NUM: /\\d+/;\nID: /[a-z]+/;",
     {"NUM": ["0", "12"], "ID": ["v", "iff", "thenx", "q"]}),
    ("m_list", [_p("L: [ Items ] | [ ]"), _p("Items: Items , V | V"), _p("V: STR | NUM | L")],
     "NUM: /\\d+(\\.\\d+)?/;\nSTR: /\"[^\"]*\"/;",
     {"NUM": ["3", "2.50"], "STR": ["\"\"", "\"a b\"", "\"x,y\""]}),
    # two regex terminals matching the same text: DisambiguationError in LR, forked heads in GLR
    ("m_lexamb", [_p("S: I | S I"), _p("I: NAME | KEY = NUM | NAME !")],
     "NAME: /[a-z]+/;\nKEY: /[a-z]+/;\nNUM: /\\d+/;",
     {"NAME": ["ab", "c"], "KEY": ["k", "ab"], "NUM": ["1"]}),
    ("m_kw", [_p("S: D | S D"), _p("D: let ID = V | letrec ID"), _p("V: ID | NUM")],
     "NUM: /\\d+/;\nID: /[a-z]+/;",
     {"NUM": ["7"], "ID": ["a", "let", "letx", "b"]}),
]


def gtext_of(rules, termdefs, layout):
    parts = [rules]
    tds = [termdefs] if termdefs else []
    if layout is not None:
        lr, lt, _ = LAYOUTS[layout]
        parts.append(lr)
        tds.append(lt)
    txt = "\n".join(parts)
    if tds:
        txt += "\nterminals\n" + "\n".join(tds)
    return txt


# ------------------------------------------------------------------ worker (impl side)
import contextlib
import signal


@contextlib.contextmanager
def cpu_limit(seconds):
    """like impl.time_limit but on the CPU time of this process (ITIMER_PROF), so that a loaded
    machine cannot turn a 1 ms call into a spurious Timeout; a looping impl still burns CPU"""
    from lib import impl

    def _alarm(signum, frame):
        raise impl.Timeout()
    old = signal.signal(signal.SIGPROF, _alarm)
    signal.setitimer(signal.ITIMER_PROF, seconds)
    try:
        yield
    finally:
        signal.setitimer(signal.ITIMER_PROF, 0)
        signal.signal(signal.SIGPROF, old)


def _lr_result(p, w, gi, impl, parglare):
    r = {}
    try:
        with cpu_limit(3):
            t = p.parse(w)
        r["kind"] = "ok"
        r["tree"] = impl.node_sx(t, gi)
        r["trace"] = impl.lr_tree_trace(t)
        r["lay_all"], r["lay_ok"] = _all_layout(t, lambda x: None if x.is_term() else list(x.children))
    except parglare.SyntaxError as e:
        r["kind"] = "SyntaxError"
        r["pos"] = e.location.start_position
        r["expected"] = sorted(s.name for s in e.symbols_expected)
        r["ahead"] = sorted(t.symbol.name for t in e.tokens_ahead)
    except parglare.DisambiguationError as e:
        r["kind"] = "DisambiguationError"
        r["pos"] = e.location.start_position
    except BaseException as e:  # noqa
        r["kind"] = "exc:" + impl.exc_kind(e)
    return r


def _glr_result(p, w, gi, impl, parglare):
    r = {}
    try:
        with cpu_limit(5):
            f = p.parse(w)
            n = len(f)
            r["kind"] = "forest"
            r["n"] = n
            r["amb"] = f.ambiguities
            trees, traces = [], []
            for i in range(min(n, MAX_TREES)):
                t = f[i]
                trees.append(impl.tree_sx(t, gi))
                if i < 3:
                    traces.append(_tree_trace(t))
                    la, ok = _all_layout(t, lambda x: None if x.root.is_term() else list(x.children))
                    r.setdefault("lay_all", []).append(la)
                    r["lay_ok"] = r.get("lay_ok", True) and ok
            r["trees"] = trees
            r["traces"] = traces
    except parglare.SyntaxError as e:
        r = {"kind": "SyntaxError", "pos": e.location.start_position,
             "expected": sorted(s.name for s in e.symbols_expected)}
    except parglare.DisambiguationError as e:
        r = {"kind": "DisambiguationError", "pos": e.location.start_position}
    except BaseException as e:  # noqa
        r = {"kind": "exc:" + impl.exc_kind(e)}
    return r


def _all_layout(n, kids):
    """layout_content of every node in preorder, and whether each interior node carries the
    layout of its first child ('' when it has none)"""
    out, ok = [], True
    stack = [n]
    while stack:
        x = stack.pop()
        out.append(x.layout_content)
        ks = kids(x)
        if ks is not None:
            want = ks[0].layout_content if ks else ""
            if x.layout_content != want:
                ok = False
            stack.extend(reversed(ks))
    return out, ok


def _tree_trace(t):
    out = []
    stack = [t]
    while stack:
        n = stack.pop()
        if n.root.is_term():
            out.append((n.start_position, n.end_position, n.layout_content))
        else:
            stack.extend(reversed(n.children))
    return out


def _worker(job):
    """job = dict(name, rules, termdefs, configs=[(cfg, layout, wsparam)], inputs={cfg: [w...]})"""
    import parglare
    from parglare import GLRParser, Grammar, Parser
    from lib import impl
    out = {"name": job["name"], "configs": {}}
    diverges = False
    for cfg, layout, wsparam in job["configs"]:
        gtext = gtext_of(job["rules"], job["termdefs"], layout)
        c = {"cfg": cfg, "layout": layout, "ws": wsparam, "gtext": gtext, "gerr": None, "inputs": {}}
        out["configs"][cfg] = c
        if diverges:
            c["gerr"] = "skipped: LALR construction diverges for this base grammar"
            continue
        try:
            with cpu_limit(20):
                g = Grammar.from_string(gtext)
        except BaseException as e:  # noqa
            c["gerr"] = impl.exc_kind(e) + ": " + str(e)[:200]
            continue
        gi = impl.GInfo(g)
        c["grammar"] = impl.model_grammar(gi)
        c["terms"] = impl.dump_terms(gi)
        c["stop"] = impl.stop_id(gi)
        c["term_names"] = [t.name for t in gi.terms]
        c["prod_names"] = [str(p) for p in g.productions]
        kw = {} if wsparam is None else {"ws": wsparam}
        if job.get("slr"):
            kw["tables"] = 0        # SLR main table (the LAYOUT sub-parser is built by Parser itself)
        lr = glr = lr_twin = None
        try:
            with cpu_limit(8), impl.quiet():
                lr = Parser(g, build_tree=True, **kw)
            c["lr"] = "ok"
            c["table"] = impl.dump_table(lr.table, gi)
            if lr.layout_parser is not None:
                c["ltable"] = impl.dump_table(lr.layout_parser.table, gi)
                lp = lr.layout_parser
                c["layout_opts"] = [bool(lp.in_layout), bool(lp.consume_input), lp.ws is None,
                                    bool(lp.return_position), bool(lp.lexical_disambiguation)]
                if LAYOUTS[layout][2]:
                    with impl.quiet():
                        lr_twin = Parser(g, build_tree=True, **({"tables": 0} if job.get("slr") else {}))
                    lr_twin.layout_parser = None
                    lr_twin.ws = WS
        except BaseException as e:  # noqa
            c["lr"] = impl.exc_kind(e)
        try:
            with cpu_limit(8), impl.quiet():
                glr = GLRParser(g, **kw)
            c["glr"] = "ok"
        except BaseException as e:  # noqa
            c["glr"] = impl.exc_kind(e)
        if c.get("lr") == "Timeout" and c.get("glr") == "Timeout":
            diverges = True
            continue
        lr_dead = glr_dead = False
        for w in job["inputs"][cfg]:
            r = {}
            if lr is not None:
                r["rx"] = impl.rx_matrix(gi, w)
                # a parser that looped once (cyclic grammar: C04/C01 matter) is not run again
                r["lr"] = {"kind": "exc:Timeout"} if lr_dead else _lr_result(lr, w, gi, impl, parglare)
                lr_dead = lr_dead or r["lr"]["kind"] == "exc:Timeout"
                if lr.layout_parser is not None:
                    sk = []
                    for q in range(len(w) + 1):
                        try:
                            with cpu_limit(5):
                                _, rp = lr.layout_parser.parse(w, q)
                            sk.append(max(rp, q))
                        except parglare.SyntaxError:
                            sk.append(-1)
                        except BaseException as e:  # noqa
                            sk.append(-2)
                    r["skip"] = sk
                if lr_twin is not None:
                    r["lr_twin"] = {"kind": "exc:Timeout"} if lr_dead else _lr_result(lr_twin, w, gi, impl, parglare)
            if glr is not None:
                r["glr"] = {"kind": "exc:Timeout"} if glr_dead else _glr_result(glr, w, gi, impl, parglare)
                glr_dead = glr_dead or r["glr"]["kind"] == "exc:Timeout"
            c["inputs"][w] = r
    return out


# ------------------------------------------------------------------ generators
def rand_ws(rng, chars, lo, hi):
    return "".join(rng.choice(chars) for _ in range(rng.randint(lo, hi)))


COMMENT_WORDS = ["a", "b", "+", "x1", "if", "n", "(", "]", "let", "*", "=", "'", "\""]


def rand_comment(rng, depth=0):
    # (a line comment inside a block comment is lexically ambiguous in this LAYOUT grammar:
    #  LineComment and NotComment match the same text, so only block comments are nested)
    if depth == 0 and rng.random() < 0.45:
        # never an empty body: "//" directly followed by the end of line is matched with the same
        # length by LineComment and NotComment, and after a closing "*/" the LALR-merged state
        # offers both (DisambiguationError inside the LAYOUT sub-parser: a lexical ambiguity of
        # this LAYOUT grammar, not a layout-invariance matter)
        return "// " + " ".join(rng.choice(COMMENT_WORDS) for _ in range(rng.randint(1, 3))) + "\n"
    parts = []
    for _ in range(rng.randint(0, 3)):
        k = rng.random()
        if k < 0.25 and depth < 2:
            parts.append(rand_comment(rng, depth + 1))
        elif k < 0.6:
            parts.append(rng.choice(COMMENT_WORDS))
        else:
            parts.append(rand_ws(rng, WS, 1, 2))
    # '*' directly before the closing '*/' or '/' directly after '/*' would change the delimiters
    body = " ".join(parts)
    return "/* " + body + " */"


def rand_filler(rng, kind, nonempty):
    if kind == "custom":
        s = rand_ws(rng, CUSTOM_WS, 1 if nonempty else 0, 3)
    elif kind == "comments":
        n = rng.randint(1 if nonempty else 0, 3)
        s = ""
        for _ in range(n):
            s += rand_comment(rng) if rng.random() < 0.55 else rand_ws(rng, WS, 1, 2)
    else:
        s = rand_ws(rng, WS, 1 if nonempty else 0, 3)
    return s


def lay_out(toks, fillers):
    """text and boundary table: starts/ends of every lexeme"""
    out = fillers[0]
    spans = []
    for i, t in enumerate(toks):
        s = len(out)
        out += t
        spans.append((s, len(out)))
        out += fillers[i + 1]
    return out, spans


def variants(rng, toks, kind, need_sep, nvar):
    """list of (text, spans); the first is the minimal layout"""
    res = []
    base_f = [""] + [(" " if need_sep else "")] * (len(toks) - 1) + [""] if toks else [""]
    res.append(lay_out(toks, base_f))
    for v in range(nvar):
        fl = [rand_filler(rng, kind, False)]
        for i in range(len(toks)):
            last = i == len(toks) - 1
            # keep some gaps minimal so that every boundary is exercised in both directions
            if not last and rng.random() < 0.25:
                fl.append(" " if need_sep else "")
            else:
                fl.append(rand_filler(rng, kind, need_sep and not last))
        res.append(lay_out(toks, fl))
    return res


def rand_tokens(rng, prods, lex, max_depth=6, max_len=10):
    d = dict(prods)

    def go(sym, depth):
        if sym.startswith("'"):
            return [sym[1:-1]]
        if sym in lex:
            return [rng.choice(lex[sym])]
        alts = d[sym]
        if depth <= 0:
            flat = [a for a in alts if all(s not in d for s in a)]
            if not flat:
                return None
            alts = flat
        out = []
        for s in rng.choice(alts):
            r = go(s, depth - 1)
            if r is None:
                return None
            out.extend(r)
        return out

    for _ in range(30):
        r = go(prods[0][0], max_depth)
        if r is not None and len(r) <= max_len:
            return r
    return None


def corrupt(rng, toks, pool):
    toks = list(toks)
    k = rng.randrange(5)
    if k == 0 and toks:
        del toks[rng.randrange(len(toks))]
    elif k == 1:
        toks.insert(rng.randint(0, len(toks)), rng.choice(pool))
    elif k == 2 and toks:
        toks[rng.randrange(len(toks))] = rng.choice(pool)
    elif k == 3:
        toks.insert(rng.randint(0, len(toks)), rng.choice(["?", "@", "#"]))
    elif toks:
        i = rng.randrange(len(toks))
        toks.insert(i, toks[i])
    return toks


CONFIGS = [
    # cfg, layout rule, ws parameter, filler kind
    ("ws", None, None, "ws"),
    ("custom", None, CUSTOM_WS, "custom"),
    ("canon", "canon", None, "ws"),
    ("simple", "simple", None, "ws"),
    ("chars", "chars", None, "ws"),
    ("rightrec", "rightrec", None, "ws"),
    ("prio", "prio", None, "ws"),
    ("comments", "comments", None, "comments"),
]
BAD_LAYOUT = ["/* open", "/* a /* b */", "/*/", "a /* x"]


def gen_jobs(ctx):
    rng = ctx.rng
    quick = ctx.quick()
    bases = []   # (name, rules, termdefs, token lists, need_sep)
    maxlen = 3 if quick else 4
    for name, text in gramgen.CURATED:
        alpha = gramgen.alphabet_of(text)
        ml = maxlen if len(alpha) <= 3 else maxlen - 1
        strs = list(gramgen.all_strings(alpha, ml))
        cap = 30 if quick else 150
        if len(strs) > cap:
            rng.shuffle(strs)
            strs = strs[:cap]
        prods = gramgen.parse_text_prods(text)
        for _ in range(4 if quick else 10):
            s = gramgen.random_sentence(rng, prods, max_depth=6, max_len=10)
            if s is not None and s not in strs:
                strs.append(s)
        bases.append((name, text, "", [list(s) for s in strs], False))
    nrand = 90 if quick else 500
    for i in range(nrand):
        big = i % 3 == 0
        r = gramgen.random_grammar(rng, max_nt=4 if big else 3, max_alts=3, max_rhs=3,
                                   terms=("'a'", "'b'", "'c'") if big else ("'a'", "'b'"),
                                   p_empty=rng.choice([0.0, 0.15, 0.3]))
        if r is None:
            continue
        prods, text = r
        strs = list(gramgen.all_strings(["a", "b", "c"] if big else ["a", "b"],
                                        (2 if quick else 3) if big else (3 if quick else 4)))
        for _ in range(6):
            s = gramgen.random_sentence(rng, prods, max_depth=5, max_len=9)
            if s is not None and s not in strs:
                strs.append(s)
        cap = 24 if quick else 80
        if len(strs) > cap:
            rng.shuffle(strs)
            strs = strs[:cap]
        bases.append(("rand%d" % i, text, "", [list(s) for s in strs], False))
    for name, prods, tdefs, lex in MULTI:
        rules = gramgen.gr_text(prods)
        pool = sorted(set(x for l, alts in prods for a in alts for x0 in a
                          for x in ([x0[1:-1]] if x0.startswith("'") else lex.get(x0, []))))
        tl = [[]]
        for _ in range(25 if quick else 150):
            t = rand_tokens(rng, prods, lex)
            if t is None:
                continue
            tl.append(t)
            if rng.random() < 0.5:
                tl.append(corrupt(rng, t, pool))
        uniq = []
        for t in tl:
            if t not in uniq:
                uniq.append(t)
        bases.append((name, rules, tdefs, uniq, True))
    jobs, meta = [], []
    nvar = 2
    for bi, (name, rules, tdefs, toklists, need_sep) in enumerate(bases):
        # every base grammar gets ws; the other configurations rotate, curated and multi-char get all
        full = not name.startswith("rand") or (not quick and bi % 4 == 0)
        if full:
            cfgs = list(CONFIGS)
        else:
            rest = CONFIGS[1:]
            cfgs = [CONFIGS[0], rest[bi % len(rest)], rest[(bi + 3) % len(rest)]]
        job = {"name": name, "rules": rules, "termdefs": tdefs, "slr": bi % 3 == 1,
               "configs": [(c, l, w) for c, l, w, _ in cfgs], "inputs": {}}
        m = {"name": name, "need_sep": need_sep, "cases": {}, "cfgs": cfgs}
        # the ws-kind variants are shared by all ws-equivalent configurations (needed for LAYOUT-vs-ws)
        shared = {}
        for c, l, wsp, kind in cfgs:
            cases = []
            for ti, toks in enumerate(toklists):
                if kind == "ws":
                    if ti not in shared:
                        shared[ti] = variants(rng, toks, kind, need_sep, nvar)
                    vs = shared[ti]
                else:
                    vs = variants(rng, toks, kind, need_sep, nvar)
                cases.append((toks, vs))
            extra = []
            if kind == "comments":
                extra = list(BAD_LAYOUT)
            m["cases"][c] = cases
            m.setdefault("extra", {})[c] = extra
            ins = []
            for toks, vs in cases:
                for w, _ in vs:
                    if w not in ins:
                        ins.append(w)
            for w in extra:
                if w not in ins:
                    ins.append(w)
            job["inputs"][c] = ins
        jobs.append(job)
        meta.append(m)
    return jobs, meta


# ------------------------------------------------------------------ relations
def boundary_pairs(spans1, n1, spans2, n2, rx=None):
    """The correspondence of boundaries between w and its relayout.  Rl: position 0, start and
    end of every lexeme, end of input; Sl: lexeme starts and the end of input.  When a terminal
    matches only a prefix of a lexeme (keyword 'if' in the identifier 'iff') the driver can stop
    inside the lexeme in some state: such positions are added (closure over the impl's match
    matrix rx of w).  Without rx every intra-lexeme offset is included (a superset, used only
    for the relation on impl results)."""
    Rl = [(0, 0), (n1, n2)]
    Sl = [(n1, n2)]
    for (s1, e1), (s2, e2) in zip(spans1, spans2):
        if rx is None:
            for j in range(e1 - s1 + 1):
                Rl.append((s1 + j, s2 + j))
                if j < e1 - s1:
                    Sl.append((s1 + j, s2 + j))
            continue
        Rl.append((e1, e2))
        work, seen = [0], set()
        while work:
            j = work.pop()
            if j in seen or j >= e1 - s1:
                continue
            seen.add(j)
            Rl.append((s1 + j, s2 + j))
            Sl.append((s1 + j, s2 + j))
            for row in rx:
                ln = row[s1 + j] if s1 + j < len(row) else 0
                if ln and j + ln < e1 - s1:
                    work.append(j + ln)
    return sorted(set(Rl)), sorted(set(Sl))


def rel_tree(a, b, R):
    stack = [(a, b)]
    while stack:
        x, y = stack.pop()
        if x[0] != y[0] or x[1] != y[1] or (x[2], y[2]) not in R or (x[3], y[3]) not in R:
            return False
        if x[0] == 1:
            if len(x[4]) != len(y[4]):
                return False
            stack.extend(zip(x[4], y[4]))
    return True


def rel_lr(r1, r2, R, S):
    """the property on two impl LR results"""
    if "exc:Timeout" in (r1["kind"], r2["kind"]):
        return None
    if r1["kind"] != r2["kind"]:
        return "kinds differ: %s / %s" % (r1["kind"], r2["kind"])
    if r1["kind"] == "ok":
        if not rel_tree(r1["tree"], r2["tree"], R):
            return "trees are not related by the boundary correspondence"
        if len(r1["trace"]) != len(r2["trace"]):
            return "token counts differ"
    elif r1["kind"] in ("SyntaxError", "DisambiguationError"):
        # SyntaxError is located at the offending token (a token start); DisambiguationError carries
        # Location(head), i.e. the span of the last shifted/reduced node (parser.py _next_token), which
        # is a boundary but not necessarily a token start
        if (r1["pos"], r2["pos"]) not in (S if r1["kind"] == "SyntaxError" else R):
            return "error positions %d / %d do not correspond" % (r1["pos"], r2["pos"])
        # (tokens_ahead is diagnostic: it tries every terminal of the grammar, LAYOUT ones included,
        #  on the text after the error position, which a relayout legitimately changes)
        if r1.get("expected") != r2.get("expected"):
            return "expected symbols differ"
    return None


def rel_glr(r1, r2, R, S):
    if "exc:Timeout" in (r1["kind"], r2["kind"]):
        return None
    if r1["kind"] != r2["kind"]:
        return "kinds differ: %s / %s" % (r1["kind"], r2["kind"])
    if r1["kind"] == "forest":
        if r1["n"] != r2["n"] or r1["amb"] != r2["amb"]:
            return "solutions/ambiguities differ: %r/%r vs %r/%r" % (r1["n"], r1["amb"], r2["n"], r2["amb"])
        for t1, t2 in zip(r1["trees"], r2["trees"]):
            if not rel_tree(t1, t2, R):
                return "forest trees are not related by the boundary correspondence"
    elif r1["kind"] in ("SyntaxError", "DisambiguationError"):
        if (r1["pos"], r2["pos"]) not in (S if r1["kind"] == "SyntaxError" else R):
            return "error positions %d / %d do not correspond" % (r1["pos"], r2["pos"])
        if r1.get("expected") != r2.get("expected"):
            return "expected symbols differ"
    return None


def trace_lossless(trace, w):
    prev = 0
    for (s, e, lay) in trace:
        if w[prev:s] != lay:
            return False
        prev = e
    return True


def named_tree(t, c):
    if t[0] == 0:
        return ("T", c["term_names"][t[1]], t[2], t[3])
    return ("N", c["prod_names"][t[1]], t[2], t[3], tuple(named_tree(k, c) for k in t[4]))


def named_lr(r, c):
    if r["kind"] == "ok":
        return ("ok", named_tree(r["tree"], c), tuple(tuple(x) for x in r["trace"]), tuple(r["lay_all"]))
    if r["kind"] == "SyntaxError":
        return ("SyntaxError", r["pos"], tuple(r["expected"]), tuple(r["ahead"]))
    return (r["kind"], r.get("pos"))


def named_glr(r, c):
    if r["kind"] == "forest":
        return ("forest", r["n"], r["amb"], tuple(named_tree(t, c) for t in r["trees"]),
                tuple(tuple(tuple(x) for x in tr) for tr in r["traces"]),
                tuple(tuple(x) for x in r.get("lay_all", [])))
    if r["kind"] == "SyntaxError":
        return ("SyntaxError", r["pos"], tuple(r["expected"]))
    return (r["kind"], r.get("pos"))


def sk_of(w, chars):
    def sk(p):
        while p < len(w) and w[p] in chars:
            p += 1
        return p
    return sk


# ------------------------------------------------------------------ the check
def compare_model_impl(ctx, st, o, res, w, rep, what):
    """model result o (sx of lr_result) against the impl's LR result"""
    tag = o[0]
    if res["kind"] == "exc:Timeout" and tag != 3:
        st["impl_timeouts_model_terminates"] = st.get("impl_timeouts_model_terminates", 0) + 1
        return
    if tag == 3:
        st["model_out_of_fuel"] += 1
        if res["kind"] != "exc:Timeout":
            ctx.violation("model ran out of fuel but the impl terminated with %s" % res["kind"], rep,
                          no_input=True, key="fuel")
        return
    k = res["kind"]
    if k == "ok":
        if tag != 0:
            ctx.violation("%s: impl accepts, model result tag %d" % (what, tag), dict(rep, model=o),
                          no_input=True, key="diff-accept")
            return
        if o[1] != res["tree"]:
            ctx.violation("%s: impl and model trees (with positions) differ" % what,
                          dict(rep, model=o[1], impl=res["tree"]), no_input=True, key="diff-tree")
        mtrace = [(x[1], x[2], w[x[3][0]:x[3][1]]) for x in o[4]]
        if mtrace != [tuple(x) for x in res["trace"]]:
            ctx.violation("%s: impl and model leaf/layout_content traces differ" % what,
                          dict(rep, model=mtrace, impl=res["trace"]), no_input=True, key="diff-trace")
    elif k == "SyntaxError":
        if tag == 4:
            st["layout_errors"] += 1        # raised by the LAYOUT sub-parser
        elif tag != 1 or o[1] != res["pos"]:
            ctx.violation("%s: impl SyntaxError at %r, model %r" % (what, res["pos"], o[:2]),
                          dict(rep, model=o), no_input=True, key="diff-syntaxerror")
    elif k == "DisambiguationError":
        if tag == 4:
            st["layout_errors"] += 1        # raised by the LAYOUT sub-parser
        elif tag != 2:
            # (the impl locates this error at the last stack node's span, the model at the scanned
            #  position: only the kind is compared; the relayout oracle checks the impl's position)
            ctx.violation("%s: impl DisambiguationError at %r, model %r" % (what, res["pos"], o[:2]),
                          dict(rep, model=o), no_input=True, key="diff-diserror")
    else:
        ctx.violation("%s: Parser.parse raised %s (model tag %d)" % (what, k, tag), rep, key="exc-" + k)


def run(ctx):
    jobs, meta = gen_jobs(ctx)
    with mp.Pool(common.NPROC) as pool:
        results = pool.map(_worker, jobs, chunksize=1)
    st = {"base_grammars": len(jobs), "configs": 0, "grammar_errors": 0, "lr_parsers": 0, "lr_refused": {},
          "glr_parsers": 0, "impl_lr_parses": 0, "impl_glr_parses": 0, "pairs_lr": 0, "pairs_glr": 0,
          "pairs_accepting": 0, "pairs_rejecting": 0, "validator_true": 0, "validator_false": 0,
          "model_out_of_fuel": 0, "layout_errors": 0, "layout_positions_checked": 0,
          "layout_vs_ws_inputs": 0, "twin_inputs": 0, "by_config": {}, "glr_ambiguous_pairs": 0,
          "filler_kinds": {}, "std_table_matches": 0, "impl_timeouts": 0, "glr_refused": {}}
    mcases, mmeta = [], []
    distinct = set()
    samples = []
    wsl = [ord(ch) for ch in WS]

    for job, m, res in zip(jobs, meta, results):
        cfgres = res["configs"]
        for cfg, layout, wsp, kind in m["cfgs"]:
            c = cfgres[cfg]
            st["configs"] += 1
            bc = st["by_config"].setdefault(cfg, {"lr": 0, "glr": 0, "pairs": 0})
            if c["gerr"] and c["gerr"].startswith("skipped"):
                st["glr_refused"]["skipped"] = st["glr_refused"].get("skipped", 0) + 1
                continue
            if c["gerr"]:
                st["grammar_errors"] += 1
                ctx.violation("grammar with layout configuration %s is refused: %s" % (cfg, c["gerr"]),
                              {"grammar": c["gtext"]}, no_input=True, key="gerr-" + cfg)
                continue
            has_lr = c.get("lr") == "ok"
            has_glr = c.get("glr") == "ok"
            if has_lr:
                st["lr_parsers"] += 1
                bc["lr"] += 1
            else:
                st["lr_refused"][c.get("lr")] = st["lr_refused"].get(c.get("lr"), 0) + 1
            if has_glr:
                st["glr_parsers"] += 1
                bc["glr"] += 1
            elif c.get("glr") == "Timeout" and c.get("lr") == "Timeout":
                # LALR construction diverges on this grammar whatever the layout (KF-C05): not a C14 matter
                st["glr_refused"]["Timeout"] = st["glr_refused"].get("Timeout", 0) + 1
            else:
                ctx.violation("GLRParser construction fails (%s) for layout configuration %s"
                              % (c.get("glr"), cfg), {"grammar": c["gtext"]}, no_input=True, key="glr-ctor")
            if not has_lr and not has_glr:
                continue
            if has_lr and layout is not None:
                if c["layout_opts"] != [True, False, True, True, True]:
                    ctx.violation("layout sub-parser options differ from the modelled ones: %r"
                                  % (c["layout_opts"],), {"grammar": c["gtext"]}, no_input=True, key="layout-opts")
            pconf = None
            if has_lr:
                pconf = [c["grammar"], c["table"], c["terms"], c["stop"], 1, 1,
                         [ord(ch) for ch in (wsp if wsp is not None else WS)] if layout is None else [],
                         [c["ltable"]] if layout is not None else []]
            skchars = wsp if wsp is not None else WS
            opt = {"layout": cfg, "ws": wsp}
            # ---- per input: losslessness of layout_content, LAYOUT sub-parser positions, twins
            for w, r in c["inputs"].items():
                rep = {"grammar": c["gtext"], "options": opt, "input": w}
                if has_lr:
                    st["impl_lr_parses"] += 1
                    if r["lr"]["kind"] == "ok" and not trace_lossless(r["lr"]["trace"], w):
                        ctx.violation("LR: layout_content of a leaf is not the text between the tokens",
                                      dict(rep, trace=r["lr"]["trace"]), key="layout-content")
                    if r["lr"]["kind"] == "ok" and not r["lr"]["lay_ok"]:
                        ctx.violation("LR: layout_content of an interior node is not that of its first child",
                                      dict(rep, layouts=r["lr"]["lay_all"]), key="layout-content-node")
                    if r["lr"]["kind"] == "exc:Timeout":
                        st["impl_timeouts"] += 1
                    elif r["lr"]["kind"].startswith("exc:"):
                        ctx.violation("Parser.parse raised %s" % r["lr"]["kind"], rep, key="lr-" + r["lr"]["kind"])
                if has_glr:
                    st["impl_glr_parses"] += 1
                    g = r["glr"]
                    if g["kind"] == "forest":
                        for tr in g["traces"]:
                            if not trace_lossless(tr, w):
                                ctx.violation("GLR: layout_content of a leaf is not the text between the tokens",
                                              dict(rep, trace=tr), key="glr-layout-content")
                        if not g.get("lay_ok", True):
                            # observation outside C14 (C08 matter): glr.py _reduce gives an interior node
                            # the layout_content of the *root* of the reduction path (the node before its
                            # first child), LR gives it the layout of its first child.  The value is the
                            # same under ws and LAYOUT, which is all C14 asks, so it is only counted.
                            st["glr_interior_layout_is_not_first_childs"] = \
                                st.get("glr_interior_layout_is_not_first_childs", 0) + 1
                    if g["kind"] == "exc:Timeout":
                        st["impl_timeouts"] += 1
                    elif g["kind"].startswith("exc:") and g["kind"] not in ("exc:LoopError",):
                        ctx.violation("GLRParser.parse raised %s" % g["kind"], rep, key="glr-" + g["kind"])
                if has_lr and w in m["extra"].get(cfg, []):
                    mcases.append((4, [pconf, [[ord(ch) for ch in w], r["rx"]], FUEL, 0]))
                    mmeta.append(("single", c, w, r, None))
                if has_lr and layout is not None:
                    mcases.append((141, [pconf, [[ord(ch) for ch in w], r["rx"]], FUEL, wsl]))
                    mmeta.append(("skip", c, w, r, LAYOUTS[layout][2]))
                if has_lr and "lr_twin" in r:
                    st["twin_inputs"] += 1
                    if r["lr_twin"] != r["lr"] and "exc:Timeout" not in (r["lr_twin"]["kind"], r["lr"]["kind"]):
                        ctx.violation("LAYOUT rule (%s) vs the same parser with ws: results differ" % cfg,
                                      dict(rep, with_layout=r["lr"], with_ws=r["lr_twin"]), key="twin-" + cfg)
                    mcases.append((142, [pconf, [[ord(ch) for ch in w], r["rx"]], FUEL, 0, wsl]))
                    mmeta.append(("twin", c, w, r, None))
            # ---- LAYOUT-equivalent grammar vs the grammar without LAYOUT rule (by names)
            if layout is not None and LAYOUTS[layout][2] and "ws" in cfgres and not cfgres["ws"]["gerr"] \
                    and cfgres["ws"]["inputs"]:
                c0 = cfgres["ws"]
                for w, r in c["inputs"].items():
                    r0 = c0["inputs"].get(w)
                    if r0 is None:
                        continue
                    st["layout_vs_ws_inputs"] += 1
                    rep = {"grammar": c["gtext"], "grammar_ws": c0["gtext"], "options": opt, "input": w}
                    if has_lr and c0.get("lr") == "ok":
                        if "exc:Timeout" not in (r["lr"]["kind"], r0["lr"]["kind"]) and \
                                named_lr(r["lr"], c) != named_lr(r0["lr"], c0):
                            ctx.violation("LR: LAYOUT rule (%s) and ws parameter give different results/positions/"
                                          "layout_content/errors" % cfg,
                                          dict(rep, with_layout=r["lr"], with_ws=r0["lr"]), key="lvw-lr-" + cfg)
                    elif has_lr != (c0.get("lr") == "ok") and "Timeout" not in (c.get("lr"), c0.get("lr")):
                        ctx.violation("LR table construction outcome differs between LAYOUT rule (%s: %s) and ws (%s)"
                                      % (cfg, c.get("lr"), c0.get("lr")), rep, no_input=True, key="lvw-ctor")
                    if has_glr and c0.get("glr") == "ok":
                        if "exc:Timeout" not in (r["glr"]["kind"], r0["glr"]["kind"]) and \
                                named_glr(r["glr"], c) != named_glr(r0["glr"], c0):
                            ctx.violation("GLR: LAYOUT rule (%s) and ws parameter give different forests/positions/"
                                          "layout_content/errors" % cfg,
                                          dict(rep, with_layout=r["glr"], with_ws=r0["glr"]), key="lvw-glr-" + cfg)
            # ---- relayout pairs
            for toks, vs in m["cases"][cfg]:
                w0, sp0 = vs[0]
                for (w1, sp1) in vs[1:]:
                    if w1 == w0:
                        continue
                    Rl, Sl = boundary_pairs(sp0, len(w0), sp1, len(w1))
                    R, S = set(Rl), set(Sl)
                    if has_lr:
                        Rl, Sl = boundary_pairs(sp0, len(w0), sp1, len(w1), c["inputs"][w0]["rx"])
                    rep = {"grammar": c["gtext"], "options": opt, "input": w0, "relayout": w1,
                           "tokens": toks}
                    r0, r1 = c["inputs"][w0], c["inputs"][w1]
                    st["filler_kinds"][kind] = st["filler_kinds"].get(kind, 0) + 1
                    bc["pairs"] += 1
                    if has_lr:
                        st["pairs_lr"] += 1
                        why = rel_lr(r0["lr"], r1["lr"], R, S)
                        if why:
                            ctx.violation("LR (%s): relayout changes the parse: %s" % (cfg, why),
                                          dict(rep, result=r0["lr"], result_relayout=r1["lr"]),
                                          key="lr-relayout-" + cfg)
                        if r0["lr"]["kind"] == "ok":
                            st["pairs_accepting"] += 1
                            distinct.add((c["gtext"], w0, w1))
                            if len(samples) < 4 and len(toks) >= 3 and kind != "ws" and r1["lr"]["kind"] == "ok":
                                samples.append({"grammar": c["gtext"], "input": w0, "relayout": w1,
                                                "impl_tree": r0["lr"]["tree"],
                                                "impl_tree_relayout": r1["lr"]["tree"]})
                        else:
                            st["pairs_rejecting"] += 1
                        mcases.append((140, [pconf, [[ord(ch) for ch in w0], r0["rx"]],
                                             [[ord(ch) for ch in w1], r1["rx"]], FUEL,
                                             [list(x) for x in Rl], [list(x) for x in Sl], 0, 0]))
                        mmeta.append(("pair", c, (w0, w1), (r0, r1), (rep, job["name"], m["need_sep"])))
                    if has_glr:
                        st["pairs_glr"] += 1
                        why = rel_glr(r0["glr"], r1["glr"], R, S)
                        if why:
                            ctx.violation("GLR (%s): relayout changes the parse: %s" % (cfg, why),
                                          dict(rep, result=r0["glr"], result_relayout=r1["glr"]),
                                          key="glr-relayout-" + cfg)
                        if r0["glr"]["kind"] == "forest":
                            distinct.add((c["gtext"], w0, w1, "glr"))
                            if r0["glr"]["n"] > 1:
                                st["glr_ambiguous_pairs"] += 1

    # ---- the std LAYOUT table constant of the Coq development against a fresh dump
    mcases.append((143, []))
    mmeta.append(("std", None, None, None, None))
    outs = common.model_run(mcases)
    nx, xok, xlog = common.coq_crosscheck("C14", mcases, outs, ctx.rng, sample=30 if ctx.quick() else 120)
    if not xok:
        ctx.violation("extraction cross-check failed: OCaml driver and vm_compute disagree",
                      {"log": xlog}, no_input=True)
    for (kind, c, w, r, extra), o in zip(mmeta, outs):
        if kind == "std":
            std = _worker({"name": "std", "rules": "S: 'a' S | 'a';", "termdefs": "",
                           "configs": [("canon", "canon", None)], "inputs": {"canon": []}})["configs"]["canon"]
            dump = [std["grammar"], [s[:4] + [[]] for s in std.get("ltable", [])], std["terms"], std["stop"]]
            if o != dump:
                ctx.violation("the canonical LAYOUT table of C14_std_layout_partial (ltb_std/g_std/terms_std) "
                              "is no longer what the impl builds", {"coq": o, "impl": dump}, no_input=True,
                              key="std-table")
            else:
                st["std_table_matches"] += 1
            continue
        if kind == "skip":
            rep = {"grammar": c["gtext"], "input": w}
            mskip = [(x[0] if x else -1) for x in o[0]]
            iskip = list(r["skip"])
            wsskip = list(o[1])
            # -2: the impl call hit the time limit / another exception (transient under load): inconclusive
            keep = [i for i, x in enumerate(iskip) if x != -2]
            st["layout_positions_inconclusive"] = st.get("layout_positions_inconclusive", 0) + len(iskip) - len(keep)
            mskip = [mskip[i] for i in keep]
            iskip = [iskip[i] for i in keep]
            wsskip = [wsskip[i] for i in keep]
            st["layout_positions_checked"] += len(iskip)
            if mskip != iskip:
                ctx.violation("LAYOUT sub-parser return positions differ between impl and model",
                              dict(rep, model=mskip, impl=iskip), no_input=True, key="diff-skip")
            if extra and iskip != wsskip:
                ctx.violation("ws-equivalent LAYOUT rule (%s) does not skip exactly the ws characters at some "
                              "position" % c["cfg"], dict(rep, layout=iskip, ws=wsskip), key="layout-not-ws")
            continue
        if kind == "single":
            compare_model_impl(ctx, st, o, r["lr"], w, {"grammar": c["gtext"], "input": w}, "LR (%s)" % c["cfg"])
            continue
        if kind == "twin":
            rep = {"grammar": c["gtext"], "input": w}
            if o[0] != o[1]:
                ctx.violation("model: LAYOUT rule and ws give different results although C14_layout_rule_vs_ws "
                              "applies", dict(rep, model=o), no_input=True, key="model-twin")
            compare_model_impl(ctx, st, o[1], r["lr_twin"], w, rep, "ws twin")
            continue
        # pair
        (w0, w1), (r0, r1), (rep, gname, need_sep) = w, r, extra
        compare_model_impl(ctx, st, o[1], r0["lr"], w0, dict(rep, which="input"), "LR (%s)" % c["cfg"])
        compare_model_impl(ctx, st, o[2], r1["lr"], w1, dict(rep, which="relayout"), "LR (%s)" % c["cfg"])
        if o[0] == 1:
            st["validator_true"] += 1
        else:
            st["validator_false"] += 1
            st.setdefault("validator_false_samples", [])
            if len(st["validator_false_samples"]) < 3:
                st["validator_false_samples"].append(rep)
            if not need_sep:
                # single-character string terminals: the boundaries are layout-independent by
                # construction, so the hypotheses of the theorem must be established
                ctx.violation("relayout_check fails on single-character terminals: layout skipping or token "
                              "recognition is not the same at corresponding boundaries", rep, no_input=True,
                              key="validator-false")
    total_pairs = st["pairs_lr"] + st["pairs_glr"]
    if st["validator_true"] == 0 or st["pairs_accepting"] == 0 or st["layout_positions_checked"] == 0:
        ctx.violation("degenerate run: no validated pair / no accepting pair / no LAYOUT positions",
                      {"distribution": st}, no_input=True, key="degenerate")
    cov = {
        "evaluations": st["impl_lr_parses"] + st["impl_glr_parses"],
        "distinct_nontrivial": len(distinct),
        "rule": "curated + seeded random grammars over single-character terminals (all strings up to a length bound "
                "+ sampled sentences) and curated grammars with multi-character/regex terminals (sampled sentences and "
                "their corruptions, tokens always separated); 7 layout configurations (ws, custom ws, four ws-equivalent "
                "LAYOUT rules, LAYOUT with line and nested block comments); per token list the minimal layout and "
                "random relayouts; non-trivial = accepted relayout pair (LR) or forest pair (GLR), distinct by "
                "(grammar text, input, relayout)",
        "samples": samples,
        "traces_validated_against_impl": st["pairs_lr"] * 2 + st["twin_inputs"],
        "relayout_pairs": total_pairs,
        "distribution": st,
        "crosscheck_vm_compute_cases": nx,
        "exhaustive": False,
    }
    return cov


def replay(ctx, rep):
    gt = rep["grammar"]
    opt = rep.get("options", {})
    inputs = [rep["input"]] + ([rep["relayout"]] if "relayout" in rep else [])
    import parglare
    from parglare import GLRParser, Grammar, Parser
    from lib import impl
    g = Grammar.from_string(gt)
    gi = impl.GInfo(g)
    kw = {} if not opt.get("ws") else {"ws": opt["ws"]}
    for cls in (Parser, GLRParser):
        try:
            with impl.quiet():
                p = cls(g, build_tree=True, **kw) if cls is Parser else cls(g, **kw)
        except BaseException as e:  # noqa
            print(cls.__name__, "construction:", impl.exc_kind(e))
            continue
        for w in inputs:
            r = _lr_result(p, w, gi, impl, parglare) if cls is Parser else _glr_result(p, w, gi, impl, parglare)
            print(cls.__name__, repr(w), r)
    return 0
