"""C02 -- GLR forest contains every derivation of the input."""
import multiprocessing as mp

from lib import common, glrcases, glrcorr, refparse

LEVEL = "proof"
ASSUMPTIONS = [
    "the universal claim is REFUTED on the unchanged tree (theorem C02_refuted, known finding KF-C02-lost-derivations); "
    "what is proved is the exactness of the instruments: root_trees is the specification of the trees a forest "
    "represents (C03_count/C03_index tie it to len/forest[i]), tree_ok is an exact derivation checker",
    "per case: every derivation found by the untrusted reference enumerator is certified by tree_ok + token chain and "
    "looked up in root_trees of the impl's forest (computed by the extracted model); a certified derivation that is "
    "absent is a genuine counterexample",
    "an absent derivation is attributed to the listed known finding only if the frozen baseline implementation "
    "(harness/baseline, pinned commit + fix commits) loses exactly the same derivations on the same input",
    "completeness of the reference enumerator is not proved (it can only lose detection power)",
]

KF = "KF-C02-lost-derivations"
CAP = 400


def missing_for(r, c, forest_trees):
    """reference derivations (shapes) absent from the forest; None if not applicable"""
    w = c["input"]
    ref = refparse.Ref(r["grammar"], None, c["rx"], glrcases.sk_ws(w), len(w))
    try:
        trees = ref.sentence_trees(limit=CAP)
    except refparse.TooMany:
        return None, None
    have = set(refparse.shape_of_sx(t) for t in forest_trees)
    return [t for t in trees if t not in have], trees


def run(ctx):
    quick = ctx.quick()
    opts = [{"tables": 1, "chart": 1}, {"tables": 0, "chart": 1}]
    jobs = glrcases.gen_jobs(ctx.rng, quick, opts, nrand=150 if quick else 2500,
                             maxlen=6 if quick else 7, layout_variants=False)
    with mp.Pool(common.NPROC) as pool:
        results = pool.map(glrcases.worker, jobs, chunksize=1)
    st = {"grammars": 0, "inputs": 0, "forests": 0, "compared": 0, "cyclic_or_too_many": 0,
          "ref_trees_total": 0, "forest_trees_total": 0, "missing_cases": 0, "extra_cases": 0,
          "nullable_grammar_cases": 0, "baseline_same": 0, "baseline_differs": 0}
    mcases, meta = [], []
    vcases, vmeta = [], []
    wsl = [ord(ch) for ch in glrcases.WS]
    for ri, r in enumerate(results):
        st["grammars"] += 1
        if r["gerr"] or not r.get("plain"):
            continue
        start = r["grammar"][0][1][0][1]
        for c in r["cases"]:
            st["inputs"] += 1
            if c["status"] == "forest" and c.get("nodes") is not None and not c.get("cyclic"):
                # the verified completeness validator (theorem C02_forest_complete) needs no enumeration:
                # it is run on every acyclic forest, whatever the number of trees
                w = c["input"]
                ch = c.get("chart")
                if ch is not None and len(c["nodes"]) <= 1200:
                    vcases.append((15, [r["grammar"], c["nodes"], [ord(x) for x in w], c["rx"], wsl, start, 0, 1, ch]))
                    vmeta.append((id(r), w))
            if c["status"] == "forest" and c.get("nodes") is not None and not c.get("cyclic") \
                    and c.get("solutions", 0) <= 4 * CAP:
                st["forests"] += 1
                mcases.append((7, [c["nodes"], 4 * CAP]))
                meta.append((ri, r, c))
    outs = common.model_run(mcases)
    vouts = common.model_run(vcases)
    verdict = {k: tuple(o) for k, o in zip(vmeta, vouts)}
    st["validator_runs"] = len(vcases)
    st["validator_verdicts"] = {}
    for o in vouts:
        k = "forest_ok=%d chart_closed=%d forest_complete=%d" % tuple(o)
        st["validator_verdicts"][k] = st["validator_verdicts"].get(k, 0) + 1
    st["complete_by_theorem"] = sum(1 for o in vouts if tuple(o) == (1, 1, 1))
    if any(o[1] != 1 for o in vouts):
        ctx.violation("the chart certificate computed by the harness is not closed (chart_closed fails)",
                      {"count": sum(1 for o in vouts if o[1] != 1)}, no_input=True, key="chart")
    nx, xok, xlog = common.coq_crosscheck("C02", mcases, outs, ctx.rng, sample=20 if quick else 60)
    if not xok:
        ctx.violation("extraction cross-check failed", {"log": xlog}, no_input=True)
    failing = []
    extras = []
    distinct = set()
    samples = []
    cert_cases, cert_meta = [], []
    for (ri, r, c), o in zip(meta, outs):
        if o[0] != 1:
            st["cyclic_or_too_many"] += 1
            continue
        ftrees = o[1]
        miss, trees = missing_for(r, c, ftrees)
        if trees is None:
            st["cyclic_or_too_many"] += 1
            continue
        st["compared"] += 1
        v = verdict.get((id(r), c["input"]))
        if v is not None and v[1] == 1:
            if v == (1, 1, 1) and miss:
                ctx.violation("forest_complete holds (theorem C02_forest_complete: every derivation is in the "
                              "forest) but the reference finds a derivation that is absent (codec/extraction error)",
                              {"grammar": r["gtext"], "options": r["opts"], "input": c["input"]},
                              no_input=True, key="thm-vs-ref")
            if v[0] == 1 and v[2] != 1 and not miss:
                ctx.violation("forest_complete fails on a valid forest although the reference finds every "
                              "derivation in it (validator or reference wrong)",
                              {"grammar": r["gtext"], "options": r["opts"], "input": c["input"]},
                              no_input=True, key="ref-vs-thm")
        st["ref_trees_total"] += len(trees)
        st["forest_trees_total"] += len(ftrees)
        if len(trees) > 1:
            distinct.add((r["gtext"], r["opts"]["tables"], c["input"]))
            if len(samples) < 3 and len(trees) <= 4:
                samples.append({"grammar": r["gtext"], "options": r["opts"], "input": c["input"],
                                "derivations": len(trees), "forest_trees": len(ftrees)})
        refset = set(trees)
        extra = [t for t in ftrees if refparse.shape_of_sx(t) not in refset]
        if extra:
            # a tree of the forest that is not among the reference derivations: either it is not a
            # derivation of the input at all (C01's subject, not C02's) or the reference is incomplete
            st["extra_cases"] += 1
            extras.append((r, c, extra[0]))
        if miss:
            st["missing_cases"] += 1
            failing.append((ri, r, c, miss))
            for t in miss:
                cert_cases.append((5, [r["grammar"], refparse.shape_to_sx(t)]))
                cert_meta.append((r, c, t))
    # an extra tree that IS a derivation of the input would mean the reference missed it
    for (r, c, t), ok in zip(extras, common.model_run([(5, [r["grammar"], t]) for (r, c, t) in extras])):
        w = c["input"]
        leaves = refparse.leaves_of_shape(refparse.shape_of_sx(t))
        sk = glrcases.sk_ws(w)
        pos, chain = sk(0), True
        for (y, s_, e_) in leaves:
            if s_ != pos or c["rx"][y][s_] != e_ - s_:
                chain = False
            pos = sk(e_)
        if ok == 1 and chain and pos == len(w):
            ctx.violation("forest holds a valid derivation the reference enumerator does not produce",
                          {"grammar": r["gtext"], "options": r["opts"], "input": w, "tree": t},
                          no_input=True, key="extra")
        else:
            st["invalid_trees_left_to_C01"] = st.get("invalid_trees_left_to_C01", 0) + 1
    # certify every missing derivation with the verified checker
    certs = common.model_run(cert_cases)
    bad_cert = set()
    for (r, c, t), ok in zip(cert_meta, certs):
        w = c["input"]
        leaves = refparse.leaves_of_shape(t)
        pos = glrcases.sk_ws(w)(0)
        chain = True
        for (y, s, e) in leaves:
            if s != pos or c["rx"][y][s] != e - s:
                chain = False
            pos = glrcases.sk_ws(w)(e)
        if ok != 1 or not chain or pos != len(w) or r["grammar"][t[1]][0] != r["grammar"][0][1][0][1]:
            bad_cert.add((id(r), c["input"]))
            ctx.violation("reference derivation failed certification (harness bug)",
                          {"grammar": r["gtext"], "input": c["input"]}, no_input=True, key="ref-bad")
    # known finding or new violation: same loss with the frozen baseline implementation?
    if failing:
        bjobs = [(r["gname"], r["gtext"], [c["input"]], r["opts"]) for (_, r, c, _) in failing]
        bres = common.baseline_run("lib.glrcases", "worker", bjobs)
        btrees = None
        if bres is not None:
            bm = [(7, [br["cases"][0]["nodes"], 4 * CAP]) if (not br["gerr"] and br["cases"]
                  and br["cases"][0].get("nodes") is not None) else (7, [[], 0]) for br in bres]
            btrees = common.model_run(bm)
        have_kf = any(e["id"] == KF for e in ctx.kf)
        for i, (ri, r, c, miss) in enumerate(failing):
            if (id(r), c["input"]) in bad_cert:
                continue
            rep = {"grammar": r["gtext"], "options": r["opts"], "input": c["input"],
                   "missing_derivations": [refparse.shape_to_sx(t) for t in miss[:3]],
                   "missing_count": len(miss)}
            same = False
            if btrees is not None and btrees[i][0] == 1:
                bmiss, _ = missing_for(r, c, btrees[i][1])
                same = bmiss is not None and set(bmiss) == set(miss)
            if same and have_kf:
                st["baseline_same"] += 1
                ctx.known_finding(KF, "GLR forest lacks %d certified derivation(s), exactly as the baseline "
                                  "implementation does; first seen: grammar %r input %r"
                                  % (len(miss), r["gtext"], c["input"]))
            else:
                st["baseline_differs"] += 1
                ctx.violation("GLR forest lacks %d derivation(s) of the input (certified by tree_ok)" % len(miss),
                              rep, key="missing")
    # ---- GLR driver model vs GLRParser.parse (consume_input on) ---------------------------------
    # the extracted Gallina model of the driver (Model/GLR.v, command 210) and the impl run on
    # the same grammar/table/match matrix/input; accept/reject and the whole forest graph are
    # compared (harness/lib/glrcorr.py)
    gm = glrcorr.run(ctx, consume=True)
    st["glr_model"] = gm
    # ---- end of the GLR driver model block ---------------------------------------------------------
    return {
        "evaluations": st["inputs"] + gm["glr_model_cases"],
        "glr_model_cases": gm["glr_model_cases"],
        "glr_model_agree": gm["glr_model_agree"],
        "distinct_nontrivial": len(distinct),
        "rule": "curated + lexical + seeded random grammars without priorities, LALR and SLR, all strings up to a "
                "length bound; compared when the grammar/input has finitely many (<= %d) derivations; non-trivial = "
                "ambiguous sentence; distinct by (grammar, table kind, input)" % CAP,
        "samples": samples,
        "traces_validated_against_impl": st["compared"] + gm["glr_model_agree"],
        "distribution": st,
        "crosscheck_vm_compute_cases": nx,
        "exhaustive": False,
    }


def replay(ctx, rep):
    r = glrcases.worker(("replay", rep["grammar"], [rep["input"]], rep.get("options", {"tables": 1})))
    c = r["cases"][0]
    print(c["status"], c.get("solutions"))
    return 0
