"""C03 -- forest packs each derivation once; counting and indexing are consistent."""
import multiprocessing as mp

from lib import common, gramgen

LEVEL = "proof"
ASSUMPTIONS = [
    "theorems are about Model/Forest.v (hand-written Gallina model of Parent.solutions, "
    "Tree.__init__/_enumerate_children, get_first_tree, ambiguities); the model is tied to "
    "/repo by running both on the forests the impl's GLRParser returns for generated grammars/inputs",
    "forest dump (harness/lib/impl.py: post-order numbering of Parent objects) is trusted glue",
    "cyclic forests: cyclicity is decided by the harness' DFS, not by a Coq theorem",
]

KF_DUP = "KF-C03-duplicate-packing"


def _worker(job):
    gname, gtext, inputs, cap = job
    import parglare
    from parglare import GLRParser, Grammar
    from parglare.exceptions import LoopError
    from lib import impl
    out = {"gname": gname, "gtext": gtext, "cases": [], "gerr": None}
    try:
        with impl.time_limit(20):
            g = Grammar.from_string(gtext)
            with impl.quiet():
                p = GLRParser(g)
    except BaseException as e:  # noqa
        out["gerr"] = impl.exc_kind(e)
        return out
    gi = impl.GInfo(g)
    for w in inputs:
        c = {"input": w}
        try:
            with impl.time_limit(6):
                forest = p.parse(w)
        except parglare.SyntaxError:
            c["status"] = "reject"
            out["cases"].append(c)
            continue
        except BaseException as e:  # noqa
            c["status"] = "error:" + impl.exc_kind(e)
            out["cases"].append(c)
            continue
        c["status"] = "forest"
        try:
            with impl.time_limit(30):
                try:
                    nodes = impl.dump_forest(forest, gi)
                    c["cyclic"] = False
                except impl.Cyclic:
                    nodes = None
                    c["cyclic"] = True
                try:
                    n = forest.solutions
                    c["solutions"] = n
                    c["len"] = len(forest)
                    c["ambiguities"] = forest.ambiguities
                    c["loop"] = False
                except LoopError:
                    c["loop"] = True
                    n = None
                except OverflowError:
                    # len() of a huge int
                    c["len"] = "overflow"
                    c["ambiguities"] = forest.ambiguities
                    c["loop"] = False
                if nodes is not None and len(nodes) > 3000:
                    c["status"] = "toolarge"
                    out["cases"].append(c)
                    continue
                c["nodes"] = nodes
                if n is not None and nodes is not None:
                    idx = list(range(min(n, cap)))
                    if n > cap:
                        step = max(1, n // cap)
                        idx += list(range(cap, n, step))[:cap]
                        idx.append(n - 1)
                    idx = sorted(set(idx))
                    c["idx"] = idx
                    trees = []
                    for i in idx:
                        a = impl.tree_sx(forest[i], gi)
                        b = impl.tree_sx(forest.get_nonlazy_tree(i), gi)
                        a2 = impl.tree_sx(forest.get_tree(i), gi)
                        trees.append([a, b, a2])
                    c["trees"] = trees
                    c["first"] = impl.node_sx(forest.get_first_tree(), gi)
                    oob = []
                    for i in (n, n + 1, 2 * n + 3):
                        r = []
                        for f in (forest.get_tree, forest.get_nonlazy_tree, forest.__getitem__):
                            try:
                                t = f(i)
                                # lazy trees decode on access
                                impl.tree_sx(t, gi)
                                r.append("tree")
                            except IndexError:
                                r.append("IndexError")
                            except BaseException as e:  # noqa
                                r.append(type(e).__name__)
                        oob.append([i, r])
                    c["oob"] = oob
                    if n <= 300:
                        c["iter_count"] = sum(1 for _ in forest)
                        c["nonlazy_iter_count"] = sum(1 for _ in forest.nonlazy_iter())
        except BaseException as e:  # noqa
            c["status"] = "error-post:" + impl.exc_kind(e)
        out["cases"].append(c)
    return out


def enum_trees(nodes, limit=3000):
    """Independent brute-force enumeration of the trees of a forest dump
    (property oracle, used only to classify disagreements)."""
    memo = {}

    def trees(k):
        if k in memo:
            return memo[k]
        res = []
        for a in nodes[k]:
            if a[0] == 0:
                res.append(("L", a[1], a[2], a[3]))
            else:
                combos = [()]
                for c in a[4]:
                    combos = [x + (t,) for x in combos for t in trees(c)]
                    if len(combos) > limit:
                        raise OverflowError
                res.extend(("N", a[1], a[2], a[3], x) for x in combos)
            if len(res) > limit:
                raise OverflowError
        memo[k] = res
        return res

    return trees(len(nodes) - 1)


def tup(t):
    if t[0] == 0:
        return ("L", t[1], t[2], t[3])
    return ("N", t[1], t[2], t[3], tuple(tup(c) for c in t[4]))


def gen_jobs(ctx):
    rng = ctx.rng
    quick = ctx.quick()
    cap = 24 if quick else 64
    jobs = []
    maxlen = 5 if quick else 7
    from lib import glrcases
    for e in glrcases.corpus():
        if len(e["alphabet"]) == 1:
            ins = [e["alphabet"] * k for k in range(e["maxlen"] + 1)]
        else:
            ins = list(gramgen.all_strings(list(e["alphabet"]), min(e["maxlen"], 6)))
        jobs.append((e["name"], e["text"], ins, cap))
    for name, text in gramgen.CURATED:
        alpha = gramgen.alphabet_of(text)
        ml = maxlen if len(alpha) <= 2 else maxlen - 1
        if len(alpha) >= 4:
            ml = 4 if quick else 5
        inputs = list(gramgen.all_strings(alpha, ml))
        if len(inputs) > (300 if quick else 3000):
            rng.shuffle(inputs)
            inputs = inputs[: (300 if quick else 3000)]
        jobs.append((name, text, inputs, cap))
    # big counts
    for n in ([12, 20, 28, 40] if quick else [12, 25, 40, 60]):
        jobs.append(("ss_big%d" % n, "S: S S | 'a';", ["a" * n], cap))
    jobs.append(("expr_big", "E: E '+' E | E '*' E | 'n';",
                 ["n" + "+n*n" * k for k in ([2, 5] if quick else [2, 5, 8])], cap))
    nrand = 150 if quick else 1500
    for i in range(nrand):
        r = gramgen.random_grammar(rng, max_nt=3, max_alts=3, max_rhs=3)
        if r is None:
            continue
        prods, text = r
        inputs = list(gramgen.all_strings(["a", "b"], 4 if quick else 5))
        for _ in range(6):
            s = gramgen.random_sentence(rng, prods, max_depth=5, max_len=9)
            if s is not None and s not in inputs:
                inputs.append(s)
        jobs.append(("rand%d" % i, text, inputs, cap))
    for i in range(nrand // 3):
        r = gramgen.lexlen_grammar(rng)
        if r is not None:
            jobs.append(("lexlen%d" % i, r[1], list(gramgen.all_strings(["a", "b"], 5 if quick else 6))
                         + ["a" * k for k in range(6, 10)], cap))
        r = gramgen.nullable2_grammar(rng)
        if r is not None:
            jobs.append(("null2_%d" % i, r[1], list(gramgen.all_strings(["a", "b"], 4 if quick else 5)), cap))
        r = gramgen.lexamb_grammar(rng)
        if r is not None:
            jobs.append(("lexamb%d" % i, r[1], list(gramgen.all_strings(["a", "b"], 5 if quick else 6)), cap))
    return jobs


def check_case(ctx, gname, gtext, c, st_out, ix_out, stats):
    """compare one impl case with the model outputs; returns list of problems"""
    probs = []
    kf_dup = False
    nodes = c["nodes"]
    wf, rc, amb, nodup, first, distinct_ok = st_out
    stats["distinct_ok_forests"] = stats.get("distinct_ok_forests", 0) + (1 if distinct_ok else 0)
    if not wf:
        probs.append(("harness", "model says the forest dump is not well-formed"))
        return probs, kf_dup
    n = c["solutions"]
    if c.get("len") not in (n, "overflow"):
        probs.append(("impl", "len(forest)=%r != solutions=%r" % (c.get("len"), n)))
    if n != rc:
        probs.append(("diff", "solutions: impl %r model %r" % (n, rc)))
    if c["ambiguities"] != amb:
        probs.append(("diff", "ambiguities: impl %r model %r" % (c["ambiguities"], amb)))
    if not nodup:
        kf_dup = True
    first_m = first[0] if first else None
    if c["first"] != first_m:
        probs.append(("diff", "get_first_tree differs from model first_tree"))
    seen = {}
    for i, (a, b, a2), (mu, mc) in zip(c["idx"], c["trees"], ix_out[: len(c["idx"])]):
        if a != b:
            probs.append(("impl", "forest[%d]: lazy and non-lazy trees differ" % i))
        if a != a2:
            probs.append(("impl", "forest[%d]: repeated access differs" % i))
        m = mu[0] if mu else None
        if a != m:
            probs.append(("diff", "forest[%d]: impl tree differs from model tree_at" % i))
        if mc != mu:
            probs.append(("model", "tree_at_checked differs from tree_at in bounds at %d" % i))
        if i == 0 and a != c["first"]:
            probs.append(("impl", "get_first_tree() != forest[0]"))
        key = repr(a)
        if key in seen and nodup:
            probs.append(("impl", "forest[%d] == forest[%d] (not pairwise different)" % (seen[key], i)))
        seen.setdefault(key, i)
    for (i, r), (mu, mc) in zip(c["oob"], ix_out[len(c["idx"]):]):
        if mc:
            probs.append(("model", "checked access in range for oob index"))
        for kind in r:
            if kind != "IndexError":
                probs.append(("impl", "index %d >= len %d gives %s instead of IndexError" % (i, n, kind)))
                break
    if "iter_count" in c and (c["iter_count"] != n or c["nonlazy_iter_count"] != n):
        probs.append(("impl", "iteration yields %r/%r trees, len is %r"
                      % (c["iter_count"], c["nonlazy_iter_count"], n)))
    # independent oracle: ambiguities == number of packed nodes with more than one alternative
    # (nodes of the dump = distinct packed-node objects reachable from the root)
    if nodup:
        oamb = sum(1 for nd in nodes if len(nd) > 1)
        if c["ambiguities"] != oamb:
            probs.append(("impl", "forest.ambiguities=%r but %d packed nodes of the forest have more than one "
                          "alternative" % (c["ambiguities"], oamb)))
    # independent oracle on small forests: len == number of distinct trees (when no dups)
    if n <= 400:
        try:
            ts = enum_trees(nodes)
            stats["oracle"] += 1
            if len(ts) != n:
                probs.append(("impl", "solutions=%d but the forest unfolds to %d trees" % (n, len(ts))))
            if distinct_ok and len(set(ts)) != len(ts):
                probs.append(("harness", "forest_distinct_ok holds but the enumerated trees are not distinct "
                              "(contradicts theorem C03_distinct: dump/codec error)"))
            if nodup and len(set(ts)) != len(ts):
                # distinct alternatives but equal trees: e.g. two Parents with the same key
                probs.append(("impl", "forest represents %d trees, only %d distinct"
                              % (len(ts), len(set(ts)))))
            if not nodup and len(set(ts)) == len(ts):
                probs.append(("harness", "nodup flag false but all trees distinct"))
            for i, (a, _, _) in zip(c["idx"], c["trees"]):
                if i < len(ts) and tup(a) != ts[i]:
                    probs.append(("impl", "forest[%d] is not the %d-th tree of the enumeration" % (i, i)))
                    break
        except (OverflowError, RecursionError):
            pass
    return probs, kf_dup


def run(ctx):
    import time
    t0 = time.time()
    jobs = gen_jobs(ctx)
    with mp.Pool(common.NPROC) as pool:
        results = pool.map(_worker, jobs, chunksize=1)
    t_impl = time.time() - t0
    stats = {"grammars": 0, "grammar_errors": {}, "inputs": 0, "forests": 0, "rejects": 0,
             "errors": {}, "cyclic": 0, "ambiguous": 0, "max_solutions_digits": 0,
             "indices_compared": 0, "oob_compared": 0, "oracle": 0, "dup_forests": 0,
             "toolarge": 0}
    mcases = []
    index = []
    for r in results:
        stats["grammars"] += 1
        if r["gerr"]:
            stats["grammar_errors"][r["gerr"]] = stats["grammar_errors"].get(r["gerr"], 0) + 1
            continue
        for c in r["cases"]:
            stats["inputs"] += 1
            st = c["status"]
            if st == "reject":
                stats["rejects"] += 1
                continue
            if st == "toolarge":
                stats["toolarge"] += 1
                continue
            if st != "forest":
                stats["errors"][st] = stats["errors"].get(st, 0) + 1
                # GLR must only fail with SyntaxError: that is C01/C10's business, but a
                # crash while reading the forest is ours
                if st.startswith("error-post"):
                    ctx.violation("reading the forest crashed: %s" % st,
                                  {"grammar": r["gtext"], "input": c["input"]})
                continue
            stats["forests"] += 1
            if c["cyclic"] or c.get("loop"):
                stats["cyclic"] += 1
                if c["cyclic"] != c.get("loop"):
                    ctx.violation("LoopError %s but forest cyclic=%s" % (c.get("loop"), c["cyclic"]),
                                  {"grammar": r["gtext"], "input": c["input"]})
                continue
            n = c["solutions"]
            stats["max_solutions_digits"] = max(stats["max_solutions_digits"], len(str(n)))
            if n > 1:
                stats["ambiguous"] += 1
            allidx = c["idx"] + [i for i, _ in c["oob"]]
            mcases.append((1, c["nodes"]))
            mcases.append((2, [c["nodes"], allidx]))
            index.append((r, c))
    t1 = time.time()
    outs = common.model_run(mcases)
    stats["timing_s"] = {"impl": round(t_impl, 1), "model": round(time.time() - t1, 1)}
    nx, xok, xlog = common.coq_crosscheck("C03", mcases, outs, ctx.rng, sample=60 if ctx.quick() else 200)
    if not xok:
        ctx.violation("extraction cross-check failed: OCaml driver and vm_compute disagree",
                      {"log": xlog}, no_input=True)
    distinct = set()
    samples = []
    # forests with duplicate alternatives are instances of the listed finding only if the frozen baseline
    # implementation returns the very same forest on the same grammar and input
    dupcases = [(r, c) for k, (r, c) in enumerate(index) if outs[2 * k][0] and not outs[2 * k][3]]
    base_same = {}
    if dupcases:
        bjobs = [(r["gname"], r["gtext"], [c["input"]], 4) for r, c in dupcases]
        bres = common.baseline_run("props.c03", "_worker", bjobs)
        for (r, c), br in zip(dupcases, bres or []):
            bc = br["cases"][0] if br and not br.get("gerr") and br.get("cases") else None
            base_same[(id(r), c["input"])] = bool(bc) and bc.get("nodes") == c.get("nodes")
    for k, (r, c) in enumerate(index):
        st_out = outs[2 * k]
        ix_out = outs[2 * k + 1]
        probs, kf_dup = check_case(ctx, r["gname"], r["gtext"], c, st_out, ix_out, stats)
        if kf_dup and not base_same.get((id(r), c["input"]), False):
            kf_dup = False
            stats["dup_forests_not_in_baseline"] = stats.get("dup_forests_not_in_baseline", 0) + 1
            probs.append(("impl", "a packed node holds two identical alternatives (the baseline implementation "
                                  "returns another forest for this input: not the listed finding)"))
        stats["indices_compared"] += len(c["idx"])
        stats["oob_compared"] += len(c["oob"])
        if c["solutions"] > 1:
            distinct.add((r["gtext"], c["input"]))
        if len(samples) < 3 and c["solutions"] > 1 and len(c["nodes"]) < 12:
            samples.append({"grammar": r["gtext"], "input": c["input"], "solutions": c["solutions"],
                            "ambiguities": c["ambiguities"], "forest": c["nodes"],
                            "indices": c["idx"][:5]})
        if kf_dup:
            stats["dup_forests"] += 1
            if any(e["id"] == KF_DUP for e in ctx.kf):
                ctx.known_finding(KF_DUP, "packed node with two identical alternatives "
                                  "(glr.py Parent.merge appends without equality check); "
                                  "first seen: grammar %r input %r" % (r["gtext"], c["input"]))
            else:
                probs.append(("impl", "a packed node holds two identical alternatives"))
        # a duplicate alternative explains count/distinctness mismatches of the same forest
        # a problem shown on the impl alone (concrete failing input) is reported in preference to a
        # model/impl disagreement about the same forest
        probs.sort(key=lambda pw: 0 if pw[0] == "impl" else 1)
        for who, what in probs:
            if kf_dup and who == "impl" and ("distinct" in what or "pairwise" in what):
                continue
            rep = {"grammar": r["gtext"], "input": c["input"], "who": who,
                   "how_to_rerun": "./check C03 --replay <this file>",
                   "impl": {"solutions": c["solutions"], "ambiguities": c["ambiguities"]},
                   "model": {"stats": st_out}}
            ctx.violation(what, rep, no_input=(who in ("diff", "model", "harness")
                                              and not _impl_wrong(c, what)))
            break
    cov = {
        "evaluations": stats["inputs"],
        "distinct_nontrivial": len(distinct),
        "rule": "curated ambiguous/nullable/cyclic grammars with all strings up to a length bound, big-count "
                "inputs, and seeded random productive grammars (<=3 nonterminals) with all strings over {a,b}; "
                "a case is non-trivial when the impl returned a forest with >1 tree; distinct by (grammar, input)",
        "samples": samples,
        "traces_validated_against_impl": stats["forests"],
        "distribution": dict(stats, timing_total=round(time.time() - t0, 1)),
        "crosscheck_vm_compute_cases": nx,
        "exhaustive": False,
    }
    return cov


def _impl_wrong(c, what):
    return False


def replay(ctx, rep):
    job = ("replay", rep["grammar"], [rep["input"]], 64)
    r = _worker(job)
    print(r["cases"][0] if r["cases"] else r)
    return 0
