"""C12 -- Table cache is transparent whatever its age, origin or completeness."""
import json
import multiprocessing as mp
import os
import shutil
import tempfile

from lib import common, gramgen

LEVEL = "proof"
ASSUMPTIONS = [
    "theorems (Properties/C12.v): persistence round trip for every grammar and every well-formed table "
    "(table_wfb, also evaluated on the impl's real tables); an absent, older, truncated or otherwise unloadable "
    ".pgc is treated as absent, in every state of the directory; cache transparency for all histories with one "
    "option fingerprint, no touch of the .pgc and a strictly advancing clock (interrupted writes allowed), for "
    "every grammar loader that reads only its imported_files and every table builder; three refutation witnesses "
    "show each remaining hypothesis is necessary",
    "the cache machine (Model/Cache.v) and the persistence model (Model/Persist.v) are tied to /repo by running "
    "generated histories in temporary grammar directories (mtimes forced with os.utime) and comparing, per step, "
    "the cache decision, the bytes and mtime of the .pgc, the constructed table or the exception",
    "create_table and Grammar.from_file are parameters of the model; per case the harness supplies their values "
    "from the impl run in a cache-free copy of the directory",
    "json: a strict byte prefix of a written .pgc never decodes (checked on every prefix examined); "
    "json.dumps(sort_keys=True) is a function of the value",
    "a crash during save_table is taken to leave some byte prefix of the complete file",
    "the .pgec error-hint cache is not modelled",
]

BASE = 1_000_000_000
KF_OPTIONS = "KF-C12-options-not-in-key"
KF_STALE = "KF-C12-validity-by-mtime-only"

EXC_CODE = {"JSONDecodeError": [1, 1], "KeyError": [1, 2], "IndexError": [1, 3],
            "AttributeError": [1, 4], "SRConflicts": [1, 5], "RRConflicts": [1, 6]}
OTHER_TAGS = ["GrammarError", "Timeout", "RecursionError", "TypeError", "ValueError"]


def exc_sx(kind):
    if kind in EXC_CODE:
        return EXC_CODE[kind]
    tag = OTHER_TAGS.index(kind) + 1 if kind in OTHER_TAGS else 50
    return [1, 7, tag]


# ------------------------------------------------------------------ options
def fingerprint(kind, opts):
    """(itemset_type, prefer_shifts, prefer_shifts_over_empty, lexical_disambiguation)
    as passed to create_table by Parser / GLRParser / pglr compile"""
    if kind == "compile":
        return (1, bool(opts.get("ps")), bool(opts.get("pse")), True)
    itemset = 0 if opts.get("tables") == "SLR" else 1
    ps, pse, ld = opts.get("ps"), opts.get("pse"), opts.get("ld")
    if kind == "lr":
        return (itemset, True if ps is None else ps, True if pse is None else pse,
                True if ld is None else ld)
    return (itemset, False if ps is None else ps, False if pse is None else pse,
            False if ld is None else ld)


def fp_code(fp):
    return fp[0] * 8 + (4 if fp[1] else 0) + (2 if fp[2] else 0) + (1 if fp[3] else 0)


def parser_kwargs(opts):
    from parglare.tables import LALR, SLR
    kw = {"tables": SLR if opts.get("tables") == "SLR" else LALR}
    if opts.get("ps") is not None:
        kw["prefer_shifts"] = opts["ps"]
    if opts.get("pse") is not None:
        kw["prefer_shifts_over_empty"] = opts["pse"]
    if opts.get("ld") is not None:
        kw["lexical_disambiguation"] = opts["ld"]
    return kw


# ------------------------------------------------------------------ impl side (worker)
class Names:
    def __init__(self):
        self.ids = {}
        self.strs = [None]

    def __call__(self, sym):
        if sym is None:
            return 0
        s = sym if isinstance(sym, str) else sym.fqn
        if s not in self.ids:
            self.ids[s] = len(self.strs)
            self.strs.append(s)
        return self.ids[s]


def dump_ptable(table, nm):
    states = []
    for s in table.states:
        acts = []
        for t, al in s.actions.items():
            acts.append([nm(t), [[a.action,
                                  [] if a.state is None else [a.state.state_id],
                                  [] if a.prod is None else [a.prod.prod_id]] for a in al]])
        gotos = [[nm(nt), st.state_id] for nt, st in s.gotos.items()]
        flags = [1 if f else 0 for f in s.finish_flags]
        states.append([s.state_id, nm(s.symbol), acts, gotos, flags])
    return states


def dump_marks(table, nm):
    sr = [[c.state.state_id, nm(c.term), [p.prod_id for p in c.productions]]
          for c in table.sr_conflicts]
    rr = [[c.state.state_id, nm(c.term), [p.prod_id for p in c.productions]]
          for c in table.rr_conflicts]
    dyn = sorted([s.state_id, nm(t)] for s in table.states for t in s.dynamic)
    return [sr, rr, dyn]


def dump_pgram(g, nm):
    terms = [[nm(k), 1 if t.dynamic else 0] for k, t in g.terminals.items()]
    nonterms = [nm(k) for k in g.nonterminals]
    prods = [[len(p.rhs), 1 if p.dynamic else 0] for p in g.productions]
    return [terms, nonterms, prods]


def ser_to_sx(ser, nm):
    """python value written to a .pgc -> the model's jtable encoding"""
    out = []
    for st in ser:
        acts = [[nm(fqn), [[a["action"],
                            [a["state_id"]] if "state_id" in a else [],
                            [a["prod_id"]] if "prod_id" in a else []] for a in al]]
                for fqn, al in st["actions"]]
        gotos = [[nm(fqn), sid] for fqn, sid in st["gotos"]]
        out.append([st["state_id"], nm(st["symbol"]), acts, gotos,
                    [1 if f else 0 for f in st["finish_flags"]]])
    return out


def sx_to_ser(sx, strs):
    """the model's jtable -> the python value json.dump would be given"""
    out = []
    for sid, sym, acts, gotos, flags in sx:
        jacts = []
        for t, al in acts:
            jl = []
            for kind, st, pr in al:
                a = {"action": kind}
                if st:
                    a["state_id"] = st[0]
                if pr:
                    a["prod_id"] = pr[0]
                jl.append(a)
            jacts.append([strs[t], jl])
        out.append({"state_id": sid, "symbol": strs[sym], "actions": jacts,
                    "gotos": [[strs[n], s] for n, s in gotos],
                    "finish_flags": [bool(f) for f in flags]})
    return out


def parse_all(parser, kind, inputs):
    """results per input; after the first timeout (looping parse of a cyclic grammar) the
    remaining inputs are not tried; such entries are never compared"""
    import parglare
    from lib import impl
    res = []
    dead = False
    for w in inputs:
        if dead:
            res.append(["untried"])
            continue
        try:
            with impl.time_limit(2):
                r = parser.parse(w)
                if kind == "lr":
                    res.append(["ok", r.to_str()])
                else:
                    res.append(["ok", len(r), r.to_str() if len(r) <= 30 else ""])
        except parglare.SyntaxError as e:
            res.append(["SyntaxError", e.location.start_position])
        except impl.Timeout:
            res.append(["untried"])
            dead = True
        except BaseException as e:  # noqa
            res.append(["exc", impl.exc_kind(e)])
    return res


def parses_differ(a, b):
    """index of the first input on which two parse_all results differ (ignoring
    untried/timed-out entries), or None"""
    for i, (x, y) in enumerate(zip(a or [], b or [])):
        if x[0] == "untried" or y[0] == "untried":
            continue
        if x != y:
            return i
    return None


def build_parser(path, kind, opts, inputs, nm):
    """Grammar.from_file + Parser/GLRParser; everything observable about the result"""
    from parglare import GLRParser, Grammar, Parser
    from lib import impl
    out = {}
    try:
        with impl.time_limit(20), impl.quiet():
            g = Grammar.from_file(path)
            cls = Parser if kind == "lr" else GLRParser
            p = cls(g, build_tree=True, **parser_kwargs(opts))
    except BaseException as e:  # noqa
        out["outcome"] = impl.exc_kind(e)
        return out
    out["outcome"] = "ok"
    try:
        out["table"] = dump_ptable(p.table, nm)
        out["marks"] = dump_marks(p.table, nm)
    except BaseException as e:  # noqa
        out["table"] = "undumpable:" + impl.exc_kind(e)
        out["marks"] = None
    out["parses"] = parse_all(p, kind, inputs)
    return out


def set_mtime(path, t):
    os.utime(path, (BASE + t, BASE + t))


def rel_mtime(path):
    return os.stat(path).st_mtime_ns // 1_000_000_000 - BASE


def snap(pgc):
    if not os.path.exists(pgc):
        return None
    st = os.stat(pgc)
    return (st.st_mtime_ns, st.st_size, st.st_ino)


def _scenario_worker(sc):
    tmp = tempfile.mkdtemp(prefix="c12_")
    try:
        return _run_scenario(sc, tmp)
    except BaseException as e:  # noqa
        import traceback
        return {"name": sc["name"], "fatal": traceback.format_exc()[-1500:]}
    finally:
        shutil.rmtree(tmp, ignore_errors=True)


def _run_scenario(sc, tmp):
    from parglare import Grammar
    from parglare.tables import create_table
    from lib import impl
    nm = Names()
    fnames = list(sc["files"])
    work = os.path.join(tmp, "work")
    os.mkdir(work)
    cur = {}
    for f in fnames:
        open(os.path.join(work, f), "w").write(sc["files"][f][0])
        set_mtime(os.path.join(work, f), 0)
        cur[f] = 0
    root = os.path.join(work, sc["root"])
    pgc = os.path.splitext(root)[0] + ".pgc"
    inputs = sc["inputs"]
    out = {"name": sc["name"], "steps": [], "gmap": [], "ginfo": [], "cmap": [], "oracle": {},
           "skip": None}
    gids = {}
    created = {}
    n_oracle = [0]

    def oracle_dir():
        n_oracle[0] += 1
        d = os.path.join(tmp, "o%d" % n_oracle[0])
        os.mkdir(d)
        for f in fnames:
            open(os.path.join(d, f), "w").write(sc["files"][f][cur[f]])
        return d

    def ensure(kind, opts):
        """model parameters and cache-free oracle for the current contents"""
        vs = tuple(cur[f] for f in fnames)
        fp = fingerprint(kind, opts)
        d = None
        if vs not in gids:
            d = oracle_dir()
            with impl.time_limit(20), impl.quiet():
                g = Grammar.from_file(os.path.join(d, sc["root"]))
            gid = len(gids) + 1
            gids[vs] = gid
            imp = []
            for p in g.imported_files:
                imp.append(fnames.index(os.path.basename(p)) + 1)
            out["gmap"].append([[[i + 1, cur[f]] for i, f in enumerate(fnames)], gid])
            out["ginfo"].append([gid, imp, dump_pgram(g, nm)])
        gid = gids[vs]
        if (gid, fp) not in created:
            d = d or oracle_dir()
            with impl.quiet():
                g = Grammar.from_file(os.path.join(d, sc["root"]))
            try:
                with impl.time_limit(20), impl.quiet():
                    t = create_table(g, fp[0], 1, fp[1], fp[2], lexical_disambiguation=fp[3])
                created[(gid, fp)] = [0, dump_ptable(t, nm)]
            except impl.Timeout:
                raise
            except BaseException as e:  # noqa
                created[(gid, fp)] = exc_sx(impl.exc_kind(e))
            out["cmap"].append([gid, fp_code(fp), created[(gid, fp)]])
        if kind != "compile":
            okey = "%d/%s/%s" % (gid, kind, json.dumps(opts, sort_keys=True))
            if okey not in out["oracle"]:
                if len(fnames) == 1:
                    # the oracle the property names: same grammar text, no file, no cache
                    out["oracle"][okey] = build_from_string(sc["files"][fnames[0]][cur[fnames[0]]],
                                                            kind, opts, inputs, nm)
                else:
                    d2 = oracle_dir()      # a fresh copy of the directory without any cache file
                    out["oracle"][okey] = build_parser(os.path.join(d2, sc["root"]), kind, opts,
                                                       inputs, nm)
                    shutil.rmtree(d2, ignore_errors=True)
            return gid, fp, okey
        return gid, fp, None

    try:
        for now, op in sc["history"]:
            st = {"op": op[0]}
            if op[0] in ("construct", "crash"):
                kind, opts = op[1], op[2]
                gid, fp, okey = ensure(kind, opts)
                before = snap(pgc)
                r = build_parser(root, kind, opts, inputs, nm)
                after = snap(pgc)
                written = after is not None and after != before
                if written:
                    if op[0] == "crash":
                        data = open(pgc, "rb").read()
                        k = min(len(data) - 1, int(op[3] * len(data)))
                        open(pgc, "wb").write(data[:k])
                        st["crash_k"] = [k, len(data)]
                    set_mtime(pgc, now)
                st.update({"gid": gid, "fp": fp_code(fp), "okey": okey, "written": written})
                if op[0] == "construct":
                    st["result"] = r
            elif op[0] == "compile":
                gid, fp, _ = ensure("compile", op[1])
                from click.testing import CliRunner
                from parglare.cli import pglr
                before = snap(pgc)
                args = (["--prefer-shifts"] if op[1].get("ps") else []) + \
                       (["--prefer-shifts-over-empty"] if op[1].get("pse") else []) + ["compile", root]
                with impl.time_limit(30):
                    res = CliRunner().invoke(pglr, args)
                after = snap(pgc)
                written = after is not None and after != before
                if written:
                    set_mtime(pgc, now)
                st.update({"gid": gid, "fp": fp_code(fp), "written": written,
                           "exit": res.exit_code})
            elif op[0] == "edit":
                p = os.path.join(work, op[1])
                open(p, "w").write(sc["files"][op[1]][op[2]])
                cur[op[1]] = op[2]
                set_mtime(p, now)
            elif op[0] == "touch":
                set_mtime(os.path.join(work, op[1]), now)
            elif op[0] == "touch_cache":
                if os.path.exists(pgc):
                    set_mtime(pgc, now)
            elif op[0] == "rm_cache":
                if os.path.exists(pgc):
                    os.remove(pgc)
            st["mtimes"] = [rel_mtime(os.path.join(work, f)) for f in fnames]
            if os.path.exists(pgc):
                st["pgc"] = [rel_mtime(pgc), open(pgc, "rb").read().decode("utf-8", "replace")]
            else:
                st["pgc"] = None
            out["steps"].append(st)
    except impl.Timeout:
        out["skip"] = "timeout"
    except BaseException as e:  # noqa
        import traceback
        out["skip"] = "setup:" + impl.exc_kind(e) + ":" + traceback.format_exc()[-600:]
    out["names"] = nm.strs
    return out


def build_from_string(text, kind, opts, inputs, nm):
    from parglare import GLRParser, Grammar, Parser
    from lib import impl
    out = {}
    try:
        with impl.time_limit(20), impl.quiet():
            g = Grammar.from_string(text)
            cls = Parser if kind == "lr" else GLRParser
            p = cls(g, build_tree=True, **parser_kwargs(opts))
    except BaseException as e:  # noqa
        out["outcome"] = impl.exc_kind(e)
        return out
    out["outcome"] = "ok"
    out["table"] = dump_ptable(p.table, nm)
    out["marks"] = dump_marks(p.table, nm)
    out["parses"] = parse_all(p, kind, inputs)
    return out


# ---- persistence round trip on the impl -------------------------------------
def _persist_worker(job):
    from parglare import Grammar
    from parglare.tables import create_table
    from parglare.tables.persist import table_from_serializable, table_to_serializable
    from lib import impl
    import copy
    import random
    name, text, text2, fps, seed = job
    mr = random.Random(seed)
    nm = Names()
    out = {"name": name, "text": text, "text2": text2, "cases": [], "skip": None}
    try:
        with impl.time_limit(20), impl.quiet():
            g = Grammar.from_string(text)
            g2 = Grammar.from_string(text2)
    except BaseException as e:  # noqa
        out["skip"] = impl.exc_kind(e)
        return out
    out["g"] = dump_pgram(g, nm)
    out["g2"] = dump_pgram(g2, nm)
    for fp in fps:
        c = {"fp": fp}
        try:
            with impl.time_limit(20), impl.quiet():
                t = create_table(g, fp[0], 1, fp[1], fp[2], lexical_disambiguation=fp[3])
        except BaseException as e:  # noqa
            c["create"] = impl.exc_kind(e)
            out["cases"].append(c)
            continue
        c["create"] = "ok"
        c["table"] = dump_ptable(t, nm)
        c["marks"] = dump_marks(t, nm)
        ser = table_to_serializable(t)
        data = json.dumps(ser, sort_keys=True)
        c["ser"] = ser_to_sx(ser, nm)
        c["bytes"] = data
        for key, gg in (("load", g), ("load2", g2)):
            try:
                with impl.time_limit(20), impl.quiet():
                    # a fresh Grammar object, as a later process would have
                    gg_new = Grammar.from_string(text if gg is g else text2)
                    t2 = table_from_serializable(json.loads(data), gg_new)
                c[key] = ["ok", dump_ptable(t2, nm), dump_marks(t2, nm)]
                if key == "load":
                    try:
                        c["bytes_again"] = json.dumps(table_to_serializable(t2), sort_keys=True)
                    except BaseException as e:  # noqa
                        c["bytes_again"] = "exc:" + impl.exc_kind(e)
            except BaseException as e:  # noqa
                c[key] = [impl.exc_kind(e)]
        # malformed stream: a complete JSON document that is not what save_table wrote
        mser = copy.deepcopy(ser)
        kind = mr.choice(["drop_state", "dup_cell", "bad_prod", "bad_term", "bad_goto", "bad_symbol",
                          "dup_state"])
        stt = mr.choice(mser)
        if kind == "drop_state":
            mser.pop()
        elif kind == "dup_state":
            mser.append(copy.deepcopy(stt))
        elif kind == "dup_cell" and stt["actions"]:
            cell = copy.deepcopy(mr.choice(stt["actions"]))
            cell[1] = cell[1] + cell[1]
            stt["actions"].append(cell)
        elif kind == "bad_prod":
            for a in [a for st_ in mser for cl in st_["actions"] for a in cl[1] if "prod_id" in a][:1]:
                a["prod_id"] = 999
        elif kind == "bad_term" and stt["actions"]:
            mr.choice(stt["actions"])[0] = "no.such"
        elif kind == "bad_goto" and stt["gotos"]:
            mr.choice(stt["gotos"])[0] = "no.such"
        elif kind == "bad_symbol":
            stt["symbol"] = "no.such"
        try:
            with impl.time_limit(20), impl.quiet():
                t3 = table_from_serializable(json.loads(json.dumps(mser, sort_keys=True)),
                                             Grammar.from_string(text))
            ml = ["ok", dump_ptable(t3, nm), dump_marks(t3, nm)]
        except BaseException as e:  # noqa
            ml = [impl.exc_kind(e)]
        c["mut"] = {"kind": kind, "ser": ser_to_sx(mser, nm), "load": ml}
        out["cases"].append(c)
    out["names"] = nm.strs
    return out


# ---- every byte prefix of a written .pgc --------------------------------------
def _prefix_worker(job):
    from lib import impl
    name, text, kind, opts, ks_spec, inputs = job
    tmp = tempfile.mkdtemp(prefix="c12p_")
    nm = Names()
    out = {"name": name, "text": text, "kind": kind, "opts": opts, "rows": [], "skip": None}
    try:
        root = os.path.join(tmp, "g.pg")
        pgc = os.path.join(tmp, "g.pgc")
        open(root, "w").write(text)
        set_mtime(root, 0)
        oracle = build_from_string(text, kind, opts, inputs, nm)
        first = build_parser(root, kind, opts, inputs, nm)
        if not os.path.exists(pgc):
            out["skip"] = "no cache written (%s)" % first["outcome"]
            return out
        data = open(pgc, "rb").read()
        out["len"] = len(data)
        out["oracle_outcome"] = oracle["outcome"]
        if ks_spec == "all":
            ks = list(range(len(data)))
        else:
            ks = sorted(set(ks_spec(len(data))))
        for k in ks:
            open(pgc, "wb").write(data[:k])
            set_mtime(pgc, 5)
            try:
                json.loads(data[:k].decode("utf-8"))
                decodes = True
            except ValueError:
                decodes = False
            before = snap(pgc)
            r = build_parser(root, kind, opts, inputs, nm)
            rewritten = snap(pgc) != before
            try:
                repaired = json.loads(open(pgc, "rb").read().decode("utf-8")) == json.loads(data)
            except (ValueError, OSError):
                repaired = False
            same = (r["outcome"] == oracle["outcome"] and r.get("table") == oracle.get("table")
                    and r.get("marks") == oracle.get("marks")
                    and parses_differ(r.get("parses"), oracle.get("parses")) is None)
            out["rows"].append([k, decodes, r["outcome"], rewritten and repaired, same])
        return out
    except BaseException as e:  # noqa
        out["skip"] = "setup:" + impl.exc_kind(e)
        return out
    finally:
        shutil.rmtree(tmp, ignore_errors=True)


# ------------------------------------------------------------------ generators
DYN_GRAMMARS = [
    ("dyn_prod", "E: E '+' E {dynamic} | E '*' E | 'n';"),
    ("dyn_term", "S: A S | A;\nterminals\nA: 'a' {dynamic};"),
    ("dyn_rr", "S: A 'x' | B 'x'; A: 'a' {dynamic}; B: 'a';"),
    ("prior", "E: E '+' E {left, 1} | E '*' E {left, 2} | 'n';"),
    ("lexamb", "S: A | B;\nterminals\nA: /a+/;\nB: 'aa';"),
]

OPTS_LR_DEFAULT = {}
OPTS_POOL = [
    {}, {"tables": "SLR"}, {"ps": False, "pse": False}, {"ps": True}, {"pse": True, "ps": False},
    {"ld": False}, {"ld": True}, {"ps": False, "pse": False, "ld": False},
    {"tables": "SLR", "ps": False, "pse": False, "ld": True},
]
# option sets under which Parser and GLRParser ask for the same table
OPTS_UNIFORM = [
    {"ps": False, "pse": False, "ld": False}, {"ps": True, "pse": True, "ld": True},
    {"ps": False, "pse": True, "ld": True, "tables": "SLR"}, {"ps": False, "pse": False, "ld": True},
]


def rename_prods(prods, mapping):
    return [(mapping.get(l, l), [[mapping.get(s, s) for s in a] for a in alts]) for l, alts in prods]


def sentences(rng, prods, alpha, n_all=3, n_rand=5):
    base = list(gramgen.all_strings(alpha, n_all))
    rng.shuffle(base)
    base = base[:9]
    for _ in range(n_rand):
        s = gramgen.random_sentence(rng, prods, max_depth=5, max_len=8) if prods else None
        if s is not None and s not in base:
            base.append(s)
    return base


def gen_files(rng):
    """a grammar directory: {file: [version texts]}, root, alphabet, prods of root v0"""
    shape = rng.random()
    nver = rng.choice([2, 2, 3])
    if shape < 0.55:
        vers = []
        prods0 = None
        pool = gramgen.CURATED + DYN_GRAMMARS
        for i in range(nver):
            if rng.random() < 0.3:
                name, text = rng.choice(pool)
                prods = None
            else:
                r = gramgen.random_grammar(rng, max_nt=3, max_alts=3, max_rhs=3,
                                           p_empty=rng.choice([0.0, 0.15]))
                if r is None:
                    name, text = rng.choice(pool)
                    prods = None
                else:
                    prods, text = r
            if i == 0:
                prods0 = prods
            vers.append(text)
        alpha = sorted({c for t in vers for c in gramgen.alphabet_of(t)} or {"a"})
        return {"g.pg": vers}, "g.pg", alpha, prods0
    chain = shape > 0.88
    sub_map = {"S": "A", "A": "B", "B": "C"}

    def sub_versions(prefix_import=None):
        out = []
        for _ in range(nver):
            r = None
            while r is None:
                r = gramgen.random_grammar(rng, max_nt=2, max_alts=3, max_rhs=3,
                                           p_empty=rng.choice([0.0, 0.15]))
            prods = rename_prods(r[0], sub_map)
            text = gramgen.gr_text(prods)
            if prefix_import and rng.random() < 0.7:
                text = "import '%s' as b;\n" % prefix_import + text.replace("A:", "A: b.A 'a' |", 1)
            out.append(text)
        return out

    root_templates = [
        "import 'a.pg' as a;\nS: a.A;",
        "import 'a.pg' as a;\nS: a.A S | a.A;",
        "import 'a.pg' as a;\nS: 'c' a.A | a.A 'c' a.A;",
        "import 'a.pg' as a;\nS: S 'c' a.A | a.A;",
        "S: 'c' S | 'c';",
    ]
    roots = [rng.choice(root_templates[:4])]
    for _ in range(nver - 1):
        roots.append(rng.choice(root_templates))
    files = {"g.pg": roots, "a.pg": sub_versions("b.pg" if chain else None)}
    if chain:
        files["b.pg"] = sub_versions(None)
    return files, "g.pg", ["a", "b", "c"], None


def gen_history(rng, files, disciplined):
    fnames = list(files)
    n = rng.randint(4, 11)
    h = []
    now = 0
    if disciplined:
        opts = rng.choice(OPTS_UNIFORM)
        optsets = [("lr", opts), ("glr", opts)]
        if fingerprint("compile", {"ps": opts["ps"], "pse": opts["pse"]}) == fingerprint("lr", opts):
            comp = {"ps": opts["ps"], "pse": opts["pse"]}
        else:
            comp = None
    else:
        k = rng.choice([1, 2, 2, 3])
        optsets = [(rng.choice(["lr", "glr"]), rng.choice(OPTS_POOL)) for _ in range(k)]
        comp = {"ps": rng.random() < 0.5, "pse": rng.random() < 0.5}
    for i in range(n):
        if disciplined:
            now += rng.choice([1, 1, 2, 5])
        else:
            r = rng.random()
            if r < 0.75:
                now += rng.choice([1, 1, 3])
            elif r < 0.9:
                now += 0            # same mtime tick
            else:
                now = max(0, now - rng.choice([1, 2, 4]))   # a backdated mtime (cp -p, tar, git)
        x = rng.random()
        if i == 0 or x < 0.42:
            kind, opts = rng.choice(optsets)
            op = ("construct", kind, opts)
        elif x < 0.60:
            f = rng.choice(fnames)
            op = ("edit", f, rng.randrange(len(files[f])))
        elif x < 0.70:
            op = ("touch", rng.choice(fnames))
        elif x < 0.78 and comp is not None:
            op = ("compile", comp)
        elif x < 0.84:
            op = ("rm_cache",)
        elif x < 0.92:
            kind, opts = (rng.choice(["lr", "glr"]), rng.choice(OPTS_POOL)) if rng.random() < 0.5 \
                else rng.choice(optsets)
            op = ("crash", kind, opts, rng.choice([0.0, rng.random(), rng.random(), 0.999]))
        elif not disciplined:
            op = ("touch_cache",)
        else:
            kind, opts = rng.choice(optsets)
            op = ("construct", kind, opts)
        h.append((now, op))
    # always end with a construction so that the last state is observed
    kind, opts = rng.choice(optsets)
    h.append((now + (1 if disciplined else rng.choice([0, 1])), ("construct", kind, opts)))
    return h


EXPR = "E: E '+' E | E '*' E | 'n';"
EXPR2 = "E: E '+' E | 'n';"
CURATED_SCENARIOS = [
    # the witnesses of the known findings (replayed on every run) ...
    ("kf-lr-then-glr", {"g.pg": [EXPR]},
     [(1, ("construct", "lr", {})), (2, ("construct", "glr", {}))]),
    ("kf-glr-then-lr", {"g.pg": [EXPR]},
     [(1, ("construct", "glr", {})), (2, ("construct", "lr", {}))]),
    ("kf-compile-then-lr", {"g.pg": [EXPR]},
     [(1, ("compile", {"ps": False, "pse": False})), (2, ("construct", "lr", {}))]),
    ("ok-truncated", {"g.pg": [EXPR]},
     [(1, ("crash", "lr", {}, 0.5)), (2, ("construct", "lr", {}))]),
    ("ok-empty-file", {"g.pg": [EXPR]},
     [(1, ("crash", "glr", {}, 0.0)), (2, ("construct", "glr", {}))]),
    ("kf-touched-cache", {"g.pg": [EXPR, EXPR2]},
     [(1, ("construct", "glr", {})), (2, ("edit", "g.pg", 1)), (3, ("touch_cache",)),
      (4, ("construct", "glr", {}))]),
    ("kf-same-tick", {"g.pg": [EXPR, EXPR2]},
     [(5, ("construct", "glr", {})), (5, ("edit", "g.pg", 1)), (6, ("construct", "glr", {}))]),
    # ... and histories inside the class of C12_cache_transparent_partial
    ("ok-crash-other-options", {"g.pg": [EXPR, EXPR2]},
     [(1, ("construct", "glr", {})), (2, ("edit", "g.pg", 1)), (3, ("crash", "lr", {}, 0.7)),
      (4, ("construct", "glr", {})), (5, ("construct", "glr", {}))]),
    ("ok-reuse", {"g.pg": [EXPR, EXPR2]},
     [(1, ("construct", "glr", {})), (2, ("construct", "glr", {})), (3, ("edit", "g.pg", 1)),
      (4, ("construct", "glr", {})), (5, ("touch", "g.pg")), (6, ("construct", "glr", {})),
      (7, ("rm_cache",)), (8, ("construct", "glr", {}))]),
    ("ok-import-edit", {"g.pg": ["import 'a.pg' as a;\nS: a.A S | a.A;"],
                        "a.pg": ["A: 'a' | 'b' A;", "A: 'a' 'a' | 'b';"]},
     [(1, ("construct", "lr", {})), (2, ("construct", "lr", {})), (3, ("edit", "a.pg", 1)),
      (4, ("construct", "lr", {})), (5, ("construct", "lr", {}))]),
    ("ok-older-than-import", {"g.pg": ["import 'a.pg' as a;\nS: a.A S | a.A;"],
                              "a.pg": ["A: 'a' | 'b' A;", "A: 'a' 'a' | 'b';"]},
     [(1, ("construct", "glr", {})), (2, ("touch", "g.pg")), (3, ("edit", "a.pg", 1)),
      (4, ("touch", "g.pg")), (5, ("construct", "glr", {}))]),
]


def gen_scenarios(ctx):
    rng = ctx.rng
    out = []
    for name, files, h in CURATED_SCENARIOS:
        alpha = sorted({c for v in files.values() for t in v for c in gramgen.alphabet_of(t)})
        inputs = sentences(rng, None, alpha, 3, 0) + ["n+n*n+n", "n+n+n", "ab", "aab"]
        out.append({"name": name, "files": files, "root": "g.pg", "history": h,
                    "inputs": inputs, "disciplined": name.startswith("ok-")})
    n = 260 if ctx.quick() else 5000
    for i in range(n):
        files, root, alpha, prods0 = gen_files(rng)
        disc = rng.random() < 0.4
        h = gen_history(rng, files, disc)
        out.append({"name": "rand%d" % i, "files": files, "root": root, "history": h,
                    "inputs": sentences(rng, prods0, alpha), "disciplined": disc})
    return out


def disciplined_prefixes(sc):
    """for each step i: is history[:i+1] in the syntactic class of
    C12_cache_transparent_partial (one fingerprint among completed constructions, .pgc
    untouched, strict clock; interrupted writes allowed)"""
    t = 0
    fps = set()
    ok = True
    out = []
    for now, op in sc["history"]:
        if now <= t:
            ok = False
        t = now
        if op[0] == "touch_cache":
            ok = False
        if op[0] == "construct":
            fps.add(fingerprint(op[1], op[2]))
        if op[0] == "compile":
            fps.add(fingerprint("compile", op[1]))
        if len(fps) > 1:
            ok = False
        out.append(ok)
    return out


def op_sx(sc, op):
    fnames = list(sc["files"])
    if op[0] == "construct":
        return [0, 1 if op[1] == "lr" else 0, fp_code(fingerprint(op[1], op[2]))]
    if op[0] == "compile":
        return [1, fp_code(fingerprint("compile", op[1]))]
    if op[0] == "crash":
        return [2, fp_code(fingerprint(op[1], op[2]))]
    if op[0] == "edit":
        return [3, fnames.index(op[1]) + 1, op[2]]
    if op[0] == "touch":
        return [4, fnames.index(op[1]) + 1]
    if op[0] == "touch_cache":
        return [5]
    return [6]


# ------------------------------------------------------------------ the check
def run(ctx):
    quick = ctx.quick()
    rng = ctx.rng
    st = {"scenarios": 0, "skipped": {}, "steps": 0, "constructs": 0, "loads": 0, "creates": 0,
          "load_errors": {}, "disciplined_scenarios": 0, "disciplined_constructs": 0,
          "wild_constructs": 0, "property_failures": {}, "ops": {}, "shapes": {},
          "parses_compared": 0, "bytes_compared": 0, "broken_files": 0}
    samples = []
    distinct = set()

    scenarios = gen_scenarios(ctx)
    # persistence jobs
    pjobs = []
    texts = [t for _, t in gramgen.CURATED + DYN_GRAMMARS]
    for i in range(60 if quick else 800):
        r = gramgen.random_grammar(rng, max_nt=3, max_alts=3, max_rhs=3, p_empty=rng.choice([0.0, 0.2]))
        if r:
            texts.append(r[1])
    for i, t in enumerate(texts):
        t2 = rng.choice(texts)
        fps = [(1, True, True, True), (1, False, False, False)]
        fps.append((rng.choice([0, 1]), rng.random() < 0.5, rng.random() < 0.5, rng.random() < 0.5))
        pjobs.append(("p%d" % i, t, t2, fps, rng.randrange(1 << 30)))
    # prefix jobs
    xjobs = []
    # the last one has non-ASCII terminal names: whatever encoding the cache is written in, a byte
    # prefix that ends inside a multi-byte character must be treated like any other damaged cache
    ptexts = [EXPR, "S: 'a' S | 'a';", "S: A A; A: 'a' | 'a' 'a';", "S: '\u03bb' S | '\u2192';"]
    if not quick:
        ptexts += [t for _, t in gramgen.CURATED[:12]]
    for i, t in enumerate(ptexts):
        for kind, opts in (("lr", {}), ("glr", {})):
            alpha = gramgen.alphabet_of(t)
            xjobs.append(("x%d%s" % (i, kind), t, kind, opts, "all",
                          list(gramgen.all_strings(alpha, 2))[:5] + ["n+n*n"]))

    import time
    tm = {}
    t0 = time.time()
    with mp.Pool(common.NPROC) as pool:
        a_sc = pool.map_async(_scenario_worker, scenarios, chunksize=2)
        a_p = pool.map_async(_persist_worker, pjobs, chunksize=4)
        a_x = pool.map_async(_split_prefix, _prefix_chunks(xjobs), chunksize=1)
        sres = a_sc.get()
        pres = a_p.get()
        xres = a_x.get()
    tm["impl_pool_s"] = round(time.time() - t0, 1)

    mcases = []
    meta = []
    # ---------------- histories
    for sc, r in zip(scenarios, sres):
        if r.get("fatal"):
            ctx.violation("scenario worker crashed (machinery error)", {"scenario": sc, "log": r["fatal"]},
                          no_input=True, key="worker-crash")
            continue
        if r["skip"]:
            k = ":".join(r["skip"].split(":")[:2])[:60]
            st["skipped"][k] = st["skipped"].get(k, 0) + 1
            st.setdefault("skip_samples", [])
            if len(st["skip_samples"]) < 3:
                st["skip_samples"].append({"files": sc["files"], "why": r["skip"][-300:]})
            continue
        files_sx = [[i + 1, 0, 0] for i in range(len(sc["files"]))]
        hist_sx = [[now, op_sx(sc, op)] for now, op in sc["history"]]
        mcases.append((121, [files_sx, r["gmap"], r["ginfo"], r["cmap"], hist_sx]))
        meta.append(("hist", sc, r))
    # ---------------- persistence
    for job, r in zip(pjobs, pres):
        if r["skip"]:
            st["skipped"]["persist:" + r["skip"]] = st["skipped"].get("persist:" + r["skip"], 0) + 1
            continue
        for c in r["cases"]:
            if c["create"] != "ok":
                continue
            mcases.append((120, [r["g"], c["table"], r["g2"]]))
            meta.append(("persist", r, c))
            mcases.append((120, [r["g"], c["mut"]["ser"], r["g2"]]))
            meta.append(("mut", r, c))
    t0 = time.time()
    outs = common.model_run(mcases)
    tm["model_s"] = round(time.time() - t0, 1)
    t0 = time.time()
    small = [i for i, c in enumerate(mcases) if len(common.sx_dump(c[1])) < 2500]
    nx, xok, xlog = common.coq_crosscheck("C12", [mcases[i] for i in small], [outs[i] for i in small],
                                          rng, sample=12 if quick else 60)
    tm["crosscheck_s"] = round(time.time() - t0, 1)
    t0 = time.time()
    if not xok:
        ctx.violation("extraction cross-check failed: OCaml driver and vm_compute disagree",
                      {"log": xlog}, no_input=True)

    pst = {"tables": 0, "wf": 0, "reload_ok": 0, "mismatch_loads": {}, "with_conflicts": 0,
           "with_dynamic": 0, "malformed_loads": {}}
    for (kind, a, b), o in zip(meta, outs):
        if kind == "hist":
            eval_history(ctx, st, a, b, o, samples, distinct)
        elif kind == "mut":
            k2 = b["mut"]["kind"] + ":" + b["mut"]["load"][0]
            pst["malformed_loads"][k2] = pst["malformed_loads"].get(k2, 0) + 1
            if not load_agrees(o[2], b["mut"]["load"]):
                ctx.violation("table_from_serializable on a malformed document (%s) differs from the model: impl %s"
                              % (b["mut"]["kind"], b["mut"]["load"][0]),
                              {"grammar": a["text"], "mutation": b["mut"]["kind"], "model": o[2],
                               "impl": b["mut"]["load"]}, no_input=True, key="from_ser-malformed")
        else:
            eval_persist(ctx, pst, a, b, o, distinct)
    xst = eval_prefixes(ctx, xjobs, xres)
    tm["evaluate_s"] = round(time.time() - t0, 1)

    cov = {
        "evaluations": st["constructs"] + pst["tables"] + xst["prefixes"],
        "distinct_nontrivial": len(distinct),
        "rule": "histories: curated witnesses + seeded random histories (4-12 steps of construct Parser/GLRParser "
                "under varying tables/prefer_shifts/prefer_shifts_over_empty/lexical_disambiguation, edit, touch, "
                "pglr compile, interrupted write, touch/remove .pgc; clock advancing, same tick or backdated) over "
                "directories with 1-3 grammar files (root, import, import chain), 40% inside the class of the "
                "partial theorem; non-trivial = a construction that loaded the cache, plus round-tripped tables "
                "with conflicts; persistence: curated + random grammars x 3 option sets, reload under the same and "
                "under a different grammar; prefixes: every byte prefix of the .pgc of small grammars",
        "samples": samples[:4],
        "traces_validated_against_impl": st["steps"],
        "distribution": {"histories": st, "persistence": pst, "prefixes": xst},
        "crosscheck_vm_compute_cases": nx,
        "phase_times": tm,
        "exhaustive": False,
    }
    return cov


def _prefix_chunks(xjobs):
    """split the prefix range of each job over several workers"""
    out = []
    for j in xjobs:
        for part in range(4):
            out.append((j, part, 4))
    return out


def _split_prefix(arg):
    job, part, nparts = arg
    name, text, kind, opts, _, inputs = job

    def ks(n):
        return [k for k in range(n) if k % nparts == part]
    return _prefix_worker((name, text, kind, opts, ks, inputs))


MODEL_EXC = {1: "JSONDecodeError", 2: "KeyError", 3: "IndexError", 4: "AttributeError",
             5: "SRConflicts", 6: "RRConflicts"}


def model_outcome(res):
    """model result sx -> (outcome string, table or None)"""
    if res[0] == 0:
        return "ok", res[1]
    if res[1] == 7:
        tag = res[2]
        return (OTHER_TAGS[tag - 1] if 1 <= tag <= len(OTHER_TAGS) else "other%d" % tag), None
    return MODEL_EXC[res[1]], None


def eval_history(ctx, st, sc, r, o, samples, distinct):
    trace, run_out, spec_out = o
    strs = r["names"]
    st["scenarios"] += 1
    discs = disciplined_prefixes(sc)
    if discs and discs[-1]:
        st["disciplined_scenarios"] += 1
    shape = "%d-file" % len(sc["files"])
    st["shapes"][shape] = st["shapes"].get(shape, 0) + 1
    rep_base = {"scenario": {"files": sc["files"], "root": sc["root"],
                             "history": sc["history"], "inputs": sc["inputs"]},
                "how": "write the version-0 files into an empty directory, apply the history "
                       "(os.utime for mtimes), compare each construction with a cache-free one"}
    writer = None
    n_constr = 0
    if len(trace) != len(r["steps"]):
        ctx.violation("model trace length differs from the history", rep_base, no_input=True)
        return
    for i, ((now, op), ist, (mobs, mfs)) in enumerate(zip(sc["history"], r["steps"], trace)):
        st["steps"] += 1
        st["ops"][op[0]] = st["ops"].get(op[0], 0) + 1
        disc = discs[i]
        rep = dict(rep_base, step=i, op=list(op), now=now)
        agree = True
        # ---- file system after the step
        mfiles, mcache = mfs
        if [m[1] for m in mfiles] != ist["mtimes"]:
            ctx.violation("grammar file mtimes differ from the model (harness/model bookkeeping)",
                          dict(rep, model=mfiles, impl=ist["mtimes"]), no_input=True, key="mtimes")
            agree = False
        if not mcache:
            if ist["pgc"] is not None:
                ctx.violation("model: no .pgc after step, impl has one", rep, no_input=True, key="fs-exists")
                agree = False
        else:
            if ist["pgc"] is None:
                ctx.violation("model: .pgc present after step, impl has none", rep, no_input=True,
                              key="fs-missing")
                agree = False
            else:
                tc, content = mcache
                if tc != ist["pgc"][0]:
                    ctx.violation("mtime of the .pgc differs from the model: %r vs %r" % (ist["pgc"][0], tc),
                                  rep, no_input=True, key="fs-mtime")
                    agree = False
                if content[0] == 0:
                    want = json.dumps(sx_to_ser(content[1], strs), sort_keys=True)
                    st["bytes_compared"] += 1
                    if want != ist["pgc"][1]:
                        ctx.violation("bytes of the .pgc differ from the serialisation the model predicts",
                                      dict(rep, model=want[:400], impl=ist["pgc"][1][:400]), no_input=True,
                                      key="fs-bytes")
                        agree = False
                else:
                    st["broken_files"] += 1
                    try:
                        json.loads(ist["pgc"][1])
                        ctx.violation("a strict byte prefix of a .pgc decodes as JSON (model assumption)",
                                      dict(rep, content=ist["pgc"][1][:200]), no_input=True, key="prefix-decodes")
                        agree = False
                    except ValueError:
                        pass
        # ---- cache decision
        if op[0] in ("construct", "compile", "crash"):
            if op[0] == "construct":
                branch = mobs[0]
                created = branch == 0
            else:
                # model reports no observation: infer the write from the file system
                created = ist["written"]
            if op[0] == "construct" and ist["written"] != created:
                ctx.violation("cache decision differs: impl %s the .pgc, model branch %d"
                              % ("wrote" if ist["written"] else "did not write", branch),
                              rep, no_input=True, key="decision")
                agree = False
            if ist["written"]:
                if op[0] == "crash":
                    writer = ("broken",)
                else:
                    writer = ("full", ist["fp"], ist["gid"])
        if op[0] == "rm_cache":
            writer = None
        if op[0] != "construct":
            continue
        # ---- the constructed parser: model vs impl
        st["constructs"] += 1
        n_constr += 1
        if disc:
            st["disciplined_constructs"] += 1
        else:
            st["wild_constructs"] += 1
        res = ist["result"]
        branch, mres = mobs
        mout, mtab = model_outcome(mres)
        if branch == 2:
            st["loads"] += 1
            distinct.add((json.dumps(sc["files"], sort_keys=True), json.dumps(sc["history"][:i + 1])))
            if mout not in ("ok", "SRConflicts", "RRConflicts"):
                st["load_errors"][mout] = st["load_errors"].get(mout, 0) + 1
        elif branch == 0:
            st["creates"] += 1
        if mout != res["outcome"]:
            ctx.violation("construction outcome differs: impl %s, model %s" % (res["outcome"], mout),
                          dict(rep, model_branch=branch), no_input=True, key="outcome")
            agree = False
        elif mout == "ok" and mtab != res.get("table"):
            ctx.violation("constructed table differs from the model's", dict(rep, model=mtab, impl=res.get("table")),
                          no_input=True, key="table")
            agree = False
        if run_out[n_constr - 1] != mres:
            ctx.violation("run_hist and trace disagree inside the model", rep, no_input=True, key="run-trace")
        # ---- property oracle: the same construction with no cache
        orc = r["oracle"][ist["okey"]]
        sout, stab = model_outcome(spec_out[n_constr - 1])
        if sout != orc["outcome"] or (sout == "ok" and stab != orc.get("table")):
            ctx.violation("spec_hist (cache-free model) differs from the cache-free impl parser: %s vs %s"
                          % (sout, orc["outcome"]), rep, no_input=True, key="spec-oracle")
            agree = False
        st["parses_compared"] += len(res.get("parses") or [])
        diffs = []
        if res["outcome"] != orc["outcome"]:
            diffs.append("outcome %s instead of %s" % (res["outcome"], orc["outcome"]))
        else:
            if res.get("table") != orc.get("table"):
                diffs.append("table differs")
            if res.get("marks") != orc.get("marks"):
                diffs.append("conflicts/dynamic marks differ")
            di = parses_differ(res.get("parses"), orc.get("parses"))
            if di is not None:
                diffs.append("input %r: %r instead of %r" % (sc["inputs"][di], res["parses"][di][:2],
                                                            orc["parses"][di][:2]))
                rep["input"] = sc["inputs"][di]
        if not diffs:
            continue
        what = "; ".join(diffs[:2])
        rep["impl"] = {k: res.get(k) for k in ("outcome", "parses")}
        rep["cache_free"] = {k: orc.get(k) for k in ("outcome", "parses")}
        mech = None
        if agree and branch == 2 and not disc and writer is not None:
            if writer[0] == "broken":
                mech = None       # repaired: a broken file must be rebuilt, any failure is a violation
            elif writer[2] != ist["gid"]:
                mech = KF_STALE
            elif writer[1] != ist["fp"]:
                mech = KF_OPTIONS
        key = mech or "none"
        st["property_failures"][key] = st["property_failures"].get(key, 0) + 1
        if mech is None:
            ctx.violation("parser built through the cache differs from the cache-free parser (%s)%s"
                          % (what, " on a history inside the class of C12_cache_transparent_partial" if disc else ""),
                          rep, key="property")
        else:
            if len(samples) < 4:
                samples.append({"finding": mech, "files": sc["files"], "history": sc["history"][:i + 1],
                                "observed": what})
            kf_report(ctx, mech, sc, i, what)


KF_TEXT = {
    KF_OPTIONS: "a .pgc written under other parser options/kind is loaded (create_load_table keys the cache by "
                "existence and mtime only)",
    KF_STALE: "a .pgc whose mtime is not older than the grammar files but which was built from other grammar "
              "content (touched .pgc, backdated or same-tick edit) is loaded",
}


def kf_report(ctx, mech, sc, i, what):
    listed = {e["id"] for e in ctx.kf}
    if mech not in listed:
        ctx.violation("failure matching mechanism %s which is not a listed known finding" % mech,
                      {"scenario": sc, "step": i, "observed": what}, key="unlisted-" + mech)
        return
    ctx.known_finding(mech, "%s; first seen: files %s history %s: %s"
                      % (KF_TEXT[mech], json.dumps(sc["files"]), json.dumps(sc["history"][:i + 1]), what))


def load_agrees(m, il):
    """model from_ser result (sx) vs impl table_from_serializable result"""
    if m[0] == 0:
        return il[0] == "ok" and il[1] == m[1] and m[2][0] == 0 and \
            canon_marks(m[2][1]) == canon_marks(il[2])
    return il[0] == MODEL_EXC.get(m[1], "?")


def eval_persist(ctx, pst, r, c, o, distinct):
    wf, mser, mload, mmarks, mload2, mser2 = o
    pst["tables"] += 1
    rep = {"grammar": r["text"], "fingerprint": list(c["fp"]), "other_grammar": r["text2"]}
    if c["marks"][0] or c["marks"][1]:
        pst["with_conflicts"] += 1
        distinct.add(("persist", r["text"], tuple(c["fp"])))
    if c["marks"][2]:
        pst["with_dynamic"] += 1
    # validator on the impl's real table
    if wf != 1:
        ctx.violation("table_wfb fails on a table built by create_table (hypothesis creates_wf)", rep,
                      no_input=True, key="wf")
    else:
        pst["wf"] += 1
    if mser != c["ser"]:
        ctx.violation("table_to_serializable differs from the model's to_ser", dict(rep, model=mser, impl=c["ser"]),
                      no_input=True, key="to_ser")
    if mmarks[0] != 0 or canon_marks(mmarks[1]) != canon_marks(c["marks"]):
        ctx.violation("conflicts/dynamic marks of a created table differ from the model's calc_marks",
                      dict(rep, model=mmarks, impl=c["marks"]), no_input=True, key="marks")
    for key, m in (("load", mload), ("load2", mload2)):
        il = c[key]
        ok = load_agrees(m, il)
        if key == "load2":
            k2 = il[0]
            pst["mismatch_loads"][k2] = pst["mismatch_loads"].get(k2, 0) + 1
        if not ok:
            ctx.violation("table_from_serializable (%s grammar) differs from the model's from_ser: impl %s"
                          % ("same" if key == "load" else "other", il[0]),
                          dict(rep, model=m, impl=il), no_input=True, key="from_ser-" + key)
    # property oracle on the impl alone
    il = c["load"]
    if il[0] != "ok":
        ctx.violation("loading a just-saved table raises %s" % il[0], rep, key="rt-raise")
        return
    pst["reload_ok"] += 1
    if il[1] != c["table"]:
        ctx.violation("save + load changes actions/gotos/finish flags", dict(rep, before=c["table"], after=il[1]),
                      key="rt-table")
    if canon_marks(il[2]) != canon_marks(c["marks"]):
        ctx.violation("save + load changes conflicts or dynamic marks",
                      dict(rep, before=c["marks"], after=il[2]), key="rt-marks")
    if c.get("bytes_again") != c["bytes"]:
        ctx.violation("saving the reloaded table is not byte-identical", rep, key="rt-bytes")
    if not mser2 or json.dumps(sx_to_ser(mser2[0], r["names"]), sort_keys=True) != c["bytes"]:
        ctx.violation("model: to_ser of the reloaded table differs from the saved bytes", rep, no_input=True,
                      key="rt-model-bytes")


def canon_marks(m):
    sr, rr, dyn = m
    return [sr, rr, sorted(set(tuple(d) for d in dyn))]


def eval_prefixes(ctx, xjobs, xres):
    xst = {"files": 0, "prefixes": 0, "outcomes": {}, "bytes": []}
    seen = set()
    for r in xres:
        if r["skip"]:
            xst.setdefault("skipped", []).append(r["skip"])
            continue
        if r["name"] not in seen:
            seen.add(r["name"])
            xst["files"] += 1
            xst["bytes"].append(r["len"])
        for k, decodes, outcome, rewritten, same in r["rows"]:
            xst["prefixes"] += 1
            xst["outcomes"][outcome] = xst["outcomes"].get(outcome, 0) + 1
            rep = {"grammar": r["text"], "kind": r["kind"], "options": r["opts"], "prefix_bytes": k,
                   "file_bytes": r["len"],
                   "how": "build the parser once, truncate g.pgc to prefix_bytes bytes, build again"}
            if decodes:
                ctx.violation("a strict byte prefix of a .pgc decodes as JSON (model assumption)", rep,
                              no_input=True, key="prefix-decodes")
            # repaired defect (fixed: KF-C12-partial-file-not-rejected): a truncated file must be
            # treated as absent -- same parser as with no cache, file rewritten in full
            if not same:
                ctx.violation("parser built over a truncated .pgc differs from the cache-free parser: %s "
                              "(%d-byte prefix of a %d-byte file)" % (outcome, k, r["len"]), rep,
                              key="prefix-property")
            elif not rewritten:
                ctx.violation("truncated .pgc was not rewritten with the complete table", rep,
                              key="prefix-not-repaired")
    return xst


def replay(ctx, rep):
    sc = rep.get("scenario")
    if not sc:
        print("replay file carries no scenario; content:", json.dumps(rep)[:2000])
        return 1
    sc = dict(sc, name="replay", disciplined=False,
              history=[(h[0], tuple(tuple(x) if isinstance(x, list) else x for x in h[1]))
                       for h in sc["history"]])
    r = _scenario_worker(sc)
    if r.get("fatal") or r.get("skip"):
        print("could not run:", r.get("fatal") or r.get("skip"))
        return 1
    files_sx = [[i + 1, 0, 0] for i in range(len(sc["files"]))]
    hist_sx = [[now, op_sx(sc, op)] for now, op in sc["history"]]
    o = common.model_run([(121, [files_sx, r["gmap"], r["ginfo"], r["cmap"], hist_sx])])[0]
    st = {"scenarios": 0, "skipped": {}, "steps": 0, "constructs": 0, "loads": 0, "creates": 0,
          "load_errors": {}, "disciplined_scenarios": 0, "disciplined_constructs": 0,
          "wild_constructs": 0, "property_failures": {}, "ops": {}, "shapes": {},
          "parses_compared": 0, "bytes_compared": 0, "broken_files": 0}
    eval_history(ctx, st, sc, r, o, [], set())
    for i, s in enumerate(r["steps"]):
        print(i, sc["history"][i], "written=%s" % s.get("written"),
              (s.get("result") or {}).get("outcome"), (s.get("result") or {}).get("parses"))
    print("property failures:", st["property_failures"])
    for k, v in ctx._viol.items():
        print("STILL FAILING:", v[1])
    return 1 if ctx._viol else 0
