"""C18 -- The dynamic disambiguation filter sees every marked decision and only those."""
import multiprocessing as mp
import random

from lib import common

LEVEL = "proof"
ASSUMPTIONS = [
    "theorems (Properties/C18.v) are about the LR driver model with a stateful abstract filter "
    "(Model/DynFilter.v wraps Model/LRDriver.v: lr_step = do_action after lr_decide, the filter sits in between); "
    "they hold for every filter, table, scanner, input and amount of fuel",
    "the filtered LR model is tied to /repo by differential runs: the impl runs with a recording filter "
    "(accept-all / reject one production / precedence-encoding / seeded random verdicts), the model replays the "
    "recorded verdict list; result (tree with positions, error kind, position/state) and the whole call trace "
    "(action, states, production, sub-result trees, token ahead, position, verdict) must be equal",
    "hypotheses of the theorems are validated on the impl's real tables each run: shift_sym_ok (always), "
    "cells_single (whenever the impl builds the LR parser without a filter), production 0 unmarked",
    "GLR has no Gallina driver model in this framework: for GLR the same statements (trace shape, every marked node "
    "of the forest approved with exactly its children, accept-all = no filter, reject-one-production = the unfiltered "
    "forest minus the trees using it, precedence filter = static priorities) are checked on the impl only -- tests, "
    "not proofs",
    "precedence-filter = static-priorities is not proved (C18_precedence_filter is T3); it is checked differentially "
    "on LR and GLR",
    "recognizers are an oracle: the match matrix is computed with the impl's own recognizer objects",
]

WS = "\n\r\t "
FUEL = 20000
TREE_CAP = 150
KF_ID = "KF-C18-lr-accepted-empty-reduction-dropped"

OP_TEXTS = ["+", "-", "*", "/", "^", "%", "&", "@"]


# ------------------------------------------------------------------ grammar specs
def spec_text(spec, variant):
    """variant: 'dyn' (marks, no priorities), 'static' (priorities, no marks),
    'mixed' (both).  Production order is the same in all variants."""
    if spec.get("raw"):
        return spec["raw"][variant]
    alts = []
    for op in spec["ops"]:
        meta = []
        if variant in ("static", "mixed"):
            meta += [op["assoc"], str(op["level"])]
        if variant in ("dyn", "mixed") and op["pdyn"]:
            meta.append("dynamic")
        alts.append("E %s E%s" % (op["tname"], (" {%s}" % ", ".join(meta)) if meta else ""))
    pre = spec.get("prefix")
    if pre:
        meta = []
        if variant in ("static", "mixed"):
            meta += [pre["assoc"], str(pre["level"])]
        if variant in ("dyn", "mixed") and pre["pdyn"]:
            meta.append("dynamic")
        alts.append("%s E%s" % (pre["tname"], (" {%s}" % ", ".join(meta)) if meta else ""))
    if spec.get("parens"):
        alts.append("lpar E rpar")
    for a in spec["atoms"]:
        alts.append(a)
    head = "E"
    if spec.get("rule_level") and variant == "dyn":
        # the same marks written once, as rule-level meta-data (E {dynamic}: ...): every production of E
        # is marked then, which is what the spec's per-production marks say for this spec
        alts = [a.replace(" {dynamic}", "") for a in alts]
        head = "E {dynamic}"
    lines = [head + ": " + "\n | ".join(alts) + ";", "terminals"]
    seen = set()
    terms = [(op["tname"], op["text"], op["tdyn"]) for op in spec["ops"]]
    if pre:
        terms.append((pre["tname"], pre["text"], pre["tdyn"]))
    for tn, tx, td in terms:
        if tn in seen:
            continue
        seen.add(tn)
        lines.append("%s: '%s'%s;" % (tn, tx, " {dynamic}" if td and variant in ("dyn", "mixed") else ""))
    if spec.get("parens"):
        lines += ["lpar: '(';", "rpar: ')';"]
    for a in spec["atoms"]:
        lines.append("%s: '%s';" % (a, a))
    return "\n".join(lines) + "\n"


RAW = [
    # families with EMPTY productions (the corner where the LR driver prefers silently)
    ("kf_witness", "S: A 'a' 'c' | 'a' 'b';\nA: EMPTY {dynamic};\n", ["ac", "ab", "a", "abc", ""]),
    ("opt_sign", "E: E plus E {dynamic} | M 'n';\nM: minus {dynamic} | EMPTY {dynamic};\n"
                 "terminals\nplus: '+' {dynamic};\nminus: '-' {dynamic};\n",
     ["n", "-n", "n+n", "n+-n", "-n+n+n", "n+", "+n", "n n"]),
    ("opt_tail", "S: 'a' B 'c' | 'a' 'b' 'd';\nB: 'b' {dynamic} | EMPTY {dynamic};\n",
     ["ac", "abc", "abd", "ab", "a"]),
    ("two_empty", "S: A 'x' | B 'y';\nA: EMPTY {dynamic};\nB: EMPTY {dynamic};\n", ["x", "y", "", "xy"]),
    ("empty_vs_reduce", "S: L 'e';\nL: L I {dynamic} | I;\nI: 'i' O;\nO: 'o' {dynamic} | EMPTY {dynamic};\n",
     ["ie", "ioe", "iie", "ioioe", "ioie", "e", "io"]),
]


def gen_spec(rng, i):
    nops = rng.choice([1, 2, 2, 3, 3, 4])
    texts = rng.sample(OP_TEXTS, nops)
    mark_mode = rng.choice(["full", "full", "subset", "subset", "none", "prods", "terms"])
    ops = []
    nlev = rng.randint(1, nops)
    for j, tx in enumerate(texts):
        lvl = rng.randint(1, nlev)
        if mark_mode == "full":
            pd, td = True, True
        elif mark_mode == "none":
            pd, td = False, False
        elif mark_mode == "prods":
            pd, td = True, False
        elif mark_mode == "terms":
            pd, td = False, True
        else:
            pd, td = rng.random() < 0.6, rng.random() < 0.6
        ops.append({"tname": "op%d" % j, "text": tx, "level": lvl,
                    "assoc": rng.choice(["left", "left", "right"]), "pdyn": pd, "tdyn": td})
    spec = {"name": "op%d" % i, "ops": ops, "atoms": ["n"] if rng.random() < 0.7 else ["n", "x"],
            "parens": rng.random() < 0.35, "mark_mode": mark_mode}
    r = rng.random()
    if r < 0.3:
        # prefix operator, sometimes sharing the terminal of a binary operator
        share = rng.random() < 0.4
        base = rng.choice(ops)
        pd = (mark_mode in ("full", "prods")) or (mark_mode == "subset" and rng.random() < 0.6)
        if share:
            spec["prefix"] = {"tname": base["tname"], "text": base["text"], "tdyn": base["tdyn"],
                              "level": rng.randint(1, nlev + 1), "assoc": "left", "pdyn": pd}
        else:
            spec["prefix"] = {"tname": "pre", "text": "~",
                              "tdyn": (mark_mode in ("full", "terms")) or
                                      (mark_mode == "subset" and rng.random() < 0.6),
                              "level": rng.randint(1, nlev + 1), "assoc": "left", "pdyn": pd}
    if mark_mode in ("full", "prods") and all(o["pdyn"] for o in ops) and \
            (not spec.get("prefix") or spec["prefix"]["pdyn"]) and i % 2 == 0:
        spec["rule_level"] = True
    return spec


def gen_expr(rng, spec, nops):
    """token list of a random expression with nops binary operators"""
    def atom(depth):
        r = rng.random()
        if spec.get("prefix") and r < 0.2 and depth < 3:
            return [spec["prefix"]["text"]] + atom(depth + 1)
        if spec.get("parens") and r < 0.35 and depth < 2:
            return ["("] + expr(rng.randint(0, 2), depth + 1) + [")"]
        return [rng.choice(spec["atoms"])]

    def expr(n, depth):
        out = atom(depth)
        for _ in range(n):
            out.append(rng.choice(spec["ops"])["text"])
            out += atom(depth)
        return out
    return expr(nops, 0)


def render(rng, toks):
    mode = rng.randrange(3)
    if mode == 0:
        return "".join(toks)
    if mode == 1:
        return " ".join(toks)
    return "".join(t + rng.choice(["", " ", "  ", "\n", "\t"]) for t in toks)


def corrupt(rng, toks, spec):
    toks = list(toks)
    r = rng.randrange(4)
    alphabet = [o["text"] for o in spec["ops"]] + spec["atoms"] + ["(", ")", "?"]
    if r == 0 and toks:
        del toks[rng.randrange(len(toks))]
    elif r == 1:
        toks.insert(rng.randrange(len(toks) + 1), rng.choice(alphabet))
    elif r == 2 and toks:
        toks[rng.randrange(len(toks))] = rng.choice(alphabet)
    else:
        toks.append(rng.choice(alphabet))
    return toks


def gen_jobs(ctx):
    rng = ctx.rng
    quick = ctx.quick()
    jobs = []
    for name, text, inputs in RAW:
        spec = {"name": name, "raw": {"dyn": text, "static": None, "mixed": None}, "atoms": [], "ops": []}
        jobs.append({"spec": spec, "inputs": inputs, "seed": rng.randrange(1 << 30),
                     "nrand": 6 if quick else 16})
    # the grammar of the impl's own test, with its two inputs
    jobs.append({"spec": {"name": "testsuite", "ops": [
        {"tname": "op_sum", "text": "+", "level": 1, "assoc": "left", "pdyn": True, "tdyn": True},
        {"tname": "op_mul", "text": "*", "level": 2, "assoc": "left", "pdyn": True, "tdyn": True}],
        "atoms": ["n"], "parens": False, "mark_mode": "full"},
        "inputs": ["n + n * n + n", "n * n + n * n", "n", "n+n", "n+n+n", "n*n*n", "n+", "n n"],
        "seed": rng.randrange(1 << 30), "nrand": 4 if quick else 10})
    ngr = 70 if quick else 600
    maxops = 4 if quick else 6
    for i in range(ngr):
        spec = gen_spec(rng, i)
        inputs = set()
        for n in range(0, maxops + 1):
            for _ in range(2 if quick else 4):
                inputs.add(render(rng, gen_expr(rng, spec, n)))
        for _ in range(3 if quick else 6):
            inputs.add(render(rng, corrupt(rng, gen_expr(rng, spec, rng.randint(0, 3)), spec)))
        inputs.add("")
        jobs.append({"spec": spec, "inputs": sorted(inputs), "seed": rng.randrange(1 << 30),
                     "nrand": 2 if quick else 4})
    return jobs


# ------------------------------------------------------------------ impl side
def _tok_of(context, action):
    """the token the decision is about: the token ahead of the head that acts.  In GLR a SHIFT
    call's context is the Parent link to the *new* head, whose token_ahead is not set; the
    token being shifted is context.token there (as in the impl's own test)."""
    from parglare import SHIFT
    if action is SHIFT and hasattr(context, "root"):
        return context.token
    return context.token_ahead


def _mk_filter(fspec, rec, g):
    """A recording filter.  rec: list of call records holding live objects."""
    from parglare import REDUCE, SHIFT
    kind = fspec[0]
    state = {"n": 0, "rng": None}

    def decide(action, from_state, production, context):
        if kind == "acc":
            return True
        if kind == "rejprod":
            return not (action is REDUCE and production.prod_id == fspec[1])
        if kind == "rejpl":
            return not (action is REDUCE and production.prod_id == fspec[1]
                        and context.token_ahead.symbol.name == fspec[2])
        if kind == "rand":
            return state["rng"].random() < fspec[2]
        if kind == "prec":
            plev, tlev = fspec[1], fspec[2]

            def reduce_ok(prod, tok_sym):
                if prod.prod_id not in plev or tok_sym.name not in tlev:
                    return True
                lv, assoc = plev[prod.prod_id]
                return lv > tlev[tok_sym.name] or (lv == tlev[tok_sym.name] and assoc == "left")
            sym = _tok_of(context, action).symbol
            if action is REDUCE:
                return reduce_ok(production, sym)
            reds = [a for a in from_state.actions.get(sym, []) if a.action is REDUCE]
            if not reds:
                return True
            return not reduce_ok(reds[0].prod, sym)
        raise ValueError(kind)

    def filt(context, from_state, to_state, action, production, subresults):
        if action is None:
            state["n"] = 0
            if kind == "rand":
                state["rng"] = random.Random(fspec[1])
            rec.append({"k": "init", "ctx": context,
                        "allnone": from_state is None and to_state is None and production is None
                        and subresults is None})
            return None
        v = bool(decide(action, from_state, production, context))
        merged = revisit = False
        if hasattr(context, "root"):
            if action is SHIFT:
                merged = bool(context.head.parents)
            else:
                import sys
                fr = sys._getframe(1)
                for _ in range(6):
                    if fr is None:
                        break
                    if fr.f_code.co_name == "_do_reductions":
                        revisit = fr.f_locals.get("update_parent") is not None
                        break
                    fr = fr.f_back
        rec.append({"merged": merged, "revisit": revisit,
                    "root_id": context.root.id if hasattr(context, "root") else None,"k": "S" if action is SHIFT else ("R" if action is REDUCE else "?"),
                    "from": from_state, "to": to_state, "prod": production,
                    "subs": list(subresults) if subresults is not None else None,
                    "subs_is_list": subresults is None or isinstance(subresults, list),
                    "ahead": _tok_of(context, action), "token": getattr(context, "token", None),
                    "pos": context.position, "v": v})
        return v
    return filt


def _shape_errors(rec, glr):
    """property oracle on the recorded calls (independent of the model)"""
    from parglare import REDUCE, SHIFT
    errs = []
    if not rec or rec[0]["k"] != "init":
        errs.append("first call is not the initial all-None call")
        return errs
    if not rec[0]["allnone"]:
        errs.append("initial call has non-None arguments")
    if rec[0]["ctx"].state.state_id != 0:
        errs.append("initial call context is not in state 0")
    for i, c in enumerate(rec[1:], 1):
        if c["k"] == "init":
            errs.append("a second initial call (call %d)" % i)
            continue
        if c["k"] == "?":
            errs.append("call %d: action is neither SHIFT nor REDUCE" % i)
            continue
        ah = c["ahead"]
        if ah is None:
            cellacts = None
        else:
            cellacts = c["from"].actions.get(ah.symbol)
        if c["k"] == "S":
            if not c["to"].symbol.dynamic:
                errs.append("call %d: SHIFT to a state whose symbol is not dynamic" % i)
            if c["prod"] is not None or c["subs"] is not None:
                errs.append("call %d: SHIFT call carries production/subresults" % i)
            if cellacts is None or not any(a.action is SHIFT and a.state is c["to"] for a in cellacts):
                errs.append("call %d: SHIFT not offered by the table for the token ahead" % i)
            # (in LR context.token is the token being shifted only when the head was created by a
            #  reduction -- parser.py:773-775 -- so it is checked for GLR only; see the report)
            if glr and (c["token"] is None or c["token"].symbol is not c["to"].symbol):
                errs.append("call %d: context.token is not the token being shifted" % i)
        else:
            p = c["prod"]
            if not p.dynamic:
                errs.append("call %d: REDUCE of a production that is not dynamic" % i)
            if cellacts is None or not any(a.action is REDUCE and a.prod is p for a in cellacts):
                errs.append("call %d: REDUCE not offered by the table for the token ahead" % i)
            if not c["subs_is_list"] or c["subs"] is None or len(c["subs"]) != len(p.rhs):
                errs.append("call %d: subresults is not a list of len(rhs)" % i)
            else:
                for j, s in enumerate(c["subs"]):
                    sym = s.head.state.symbol if glr else s.symbol
                    if sym is not p.rhs[j] and sym.fqn != p.rhs[j].fqn:
                        errs.append("call %d: subresult %d is not a %s" % (i, j, p.rhs[j].name))
                        break
    return errs


def _approved_errors_lr(tree, rec):
    """every dynamic leaf/node of the LR result was put to the filter (the node with
    exactly its children) and accepted"""
    errs = []
    acc_r = [c for c in rec if c["k"] == "R" and c["v"]]
    acc_s = [c for c in rec if c["k"] == "S" and c["v"]]
    stack = [tree]
    while stack:
        n = stack.pop()
        if n.is_term():
            if n.symbol.dynamic and not any(c["ahead"] is n.token or
                                            (c["ahead"].symbol is n.symbol and c["pos"] == n.start_position)
                                            for c in acc_s):
                errs.append("leaf %s@%d of a dynamic terminal has no accepted SHIFT call"
                            % (n.symbol.name, n.start_position))
        else:
            if n.production.dynamic and not any(
                    c["prod"] is n.production and len(c["subs"]) == len(n.children)
                    and all(a is b for a, b in zip(c["subs"], n.children)) for c in acc_r):
                errs.append("node of dynamic production %d [%d,%d) has no accepted REDUCE call with its children"
                            % (n.production.prod_id, n.start_position, n.end_position))
            stack.extend(n.children)
    return errs


def _approved_errors_glr(forest, rec):
    errs = []
    acc_r = {}
    for c in rec:
        if c["k"] == "R" and c["v"]:
            acc_r.setdefault(id(c["prod"]), []).append(c["subs"])
    # a shift link is identified by the token and the GSS node it starts from
    acc_s = set((id(c["token"]), c["root_id"]) for c in rec if c["k"] == "S" and c["v"])
    seen = set()
    stack = [forest.result]
    while stack:
        par = stack.pop()
        if id(par) in seen:
            continue
        seen.add(id(par))
        for poss in par.possibilities:
            if poss.is_term():
                if poss.symbol.dynamic and (id(poss.token), par.root.id) not in acc_s:
                    errs.append("forest leaf %s@%d of a dynamic terminal has no accepted SHIFT call"
                                % (poss.symbol.name, poss.start_position))
            else:
                if poss.production.dynamic and not any(
                        len(s) == len(poss.children) and all(a is b for a, b in zip(s, poss.children))
                        for s in acc_r.get(id(poss.production), [])):
                    errs.append("forest node of dynamic production %d [%d,%d) has no accepted REDUCE call "
                                "with its children" % (poss.production.prod_id, poss.start_position,
                                                       poss.end_position))
                stack.extend(poss.children)
    return errs


def _tok_sx(tok, gi):
    if tok is None:
        return []
    return [gi.term_index(tok.symbol), len(tok.value)]


def _trace_sx_lr(rec, gi):
    from lib import impl
    out = []
    for c in rec:
        if c["k"] == "init":
            out.append([0, 1])
        elif c["k"] == "S":
            out.append([1, c["from"].state_id, c["to"].state_id, _tok_sx(c["ahead"], gi), c["pos"],
                        1 if c["v"] else 0])
        else:
            out.append([2, c["from"].state_id, c["prod"].prod_id, [impl.node_sx(s, gi) for s in c["subs"]],
                        _tok_sx(c["ahead"], gi), c["pos"], 1 if c["v"] else 0])
    return out


def _run_lr(p, w, fspec, g, gi):
    """one LR parse under a recording filter; returns the observables"""
    import parglare
    from parglare import REDUCE
    from lib import impl
    rec = p._c18_rec
    del rec[:]
    steps = p._c18_steps
    del steps[:]
    r = {}
    tree = None
    try:
        with impl.time_limit(10):
            tree = p.parse(w)
        r["kind"] = "ok"
        r["tree"] = impl.node_sx(tree, gi)
    except parglare.SyntaxError as e:
        r["kind"] = "SyntaxError"
        r["pos"] = e.location.start_position
    except parglare.DisambiguationError as e:
        r["kind"] = "DisambiguationError"
        r["pos"] = e.location.start_position
    except parglare.exceptions.DynamicDisambiguationConflict as e:
        r["kind"] = "DDC"
        r["st"] = e.state.state_id
    except IndexError:
        r["kind"] = "IndexError"
    except BaseException as e:  # noqa
        r["kind"] = "exc:" + impl.exc_kind(e)
    if p.dynamic_filter is not None:
        try:
            r["trace"] = _trace_sx_lr(rec, gi)
            r["shape"] = _shape_errors(rec, glr=False)
            r["approved"] = _approved_errors_lr(tree, rec) if tree is not None else []
        except BaseException as e:  # noqa
            r["shape"] = ["oracle crashed: %s %s" % (type(e).__name__, e)]
            r["trace"] = []
            r["approved"] = []
        # accepted => taken: the steps where several actions survived the filter and the
        # driver went on without raising DynamicDisambiguationConflict
        over = []
        for kept in steps:
            if len(kept) < 2:
                continue
            if len([a for a in kept if a.action is parglare.SHIFT or
                    (a.action is REDUCE and len(a.prod.rhs))]) > 1:
                continue   # DynamicDisambiguationConflict is raised
            taken = kept[0]
            if taken.action is REDUCE and len(taken.prod.rhs) == 0:
                taken = kept[1]
            for a in kept:
                if a is not taken and a.dynamic:
                    over.append([impl.dump_action(a),
                                 1 if (a.action is REDUCE and len(a.prod.rhs) == 0) else 0])
        r["passed_over"] = over
        r["ncalls"] = len(rec)
        r["stale_token"] = len([c for c in rec if c["k"] == "S" and c["token"] is not c["ahead"]])
    del rec[:]
    del steps[:]
    return r


def _forest_obs(f, gi, want_trees=True):
    from lib import impl
    o = {"kind": "ok", "nsol": len(f)}
    try:
        o["forest"] = impl.dump_forest(f, gi)
    except impl.Cyclic:
        o["forest"] = "cyclic"
    if want_trees and o["nsol"] <= TREE_CAP:
        o["trees"] = sorted(common.sx_dump(strip_pos(impl.tree_sx(f[i], gi))) for i in range(o["nsol"]))
    return o


def strip_pos(t):
    if t[0] == 0:
        return [0, t[1], t[2], t[3]]
    return [1, t[1], [strip_pos(c) for c in t[4]]]


def prods_in(txt_tree):
    """production ids used in a stripped tree"""
    out = set()
    st = [txt_tree]
    while st:
        t = st.pop()
        if t[0] == 1:
            out.add(t[1])
            st.extend(t[2])
    return out


def has_node_before(t, k, y, stop):
    """stripped tree t has a node of production k whose span is followed by a token of
    terminal y (STOP after the last leaf)"""
    leaves = []
    hits = []

    def go(n):
        if n[0] == 0:
            leaves.append(n[1])
            return
        for c in n[2]:
            go(c)
        if n[1] == k:
            hits.append(len(leaves))      # index of the leaf that follows the node
    go(t)
    for i in hits:
        nxt = leaves[i] if i < len(leaves) else stop
        if nxt == y:
            return True
    return False


def _run_glr(p, w, gi):
    import parglare
    from lib import impl
    rec = p._c18_rec
    del rec[:]
    r = {}
    f = None
    try:
        with impl.time_limit(15):
            f = p.parse(w)
            r = _forest_obs(f, gi)
    except parglare.SyntaxError as e:
        r = {"kind": "SyntaxError", "pos": e.location.start_position}
    except BaseException as e:  # noqa
        r = {"kind": "exc:" + impl.exc_kind(e)}
    if p.dynamic_filter is not None:
        try:
            r["shape"] = _shape_errors(rec, glr=True)
            r["approved"] = _approved_errors_glr(f, rec) if f is not None else []
        except BaseException as e:  # noqa
            r["shape"] = ["oracle crashed: %s %s" % (type(e).__name__, e)]
            r["approved"] = []
        r["ncalls"] = len(rec)
        r["nrej"] = len([c for c in rec if c["k"] != "init" and not c["v"]])
        r["merged_shift_calls"] = len([c for c in rec if c.get("merged")])
        r["revisit_reduce_calls"] = len([c for c in rec if c.get("revisit")])
    del rec[:]
    return r


def _build(cls, g, fspec, **kw):
    """parser with a recording filter; the per-step lists kept by _dynamic_disambiguation are
    recorded through an instance-level wrapper (nothing in /repo is touched)"""
    from lib import impl
    rec = []
    filt = None if fspec[0] == "none" else _mk_filter(fspec, rec, g)
    with impl.time_limit(20), impl.quiet():
        p = cls(g, dynamic_filter=filt, **kw)
    p._c18_rec = rec
    p._c18_steps = []
    if hasattr(p, "_dynamic_disambiguation"):
        orig = p._dynamic_disambiguation

        def wrapped(context, actions, _orig=orig, _steps=p._c18_steps):
            kept = _orig(context, actions)
            _steps.append(list(kept))
            return kept
        p._dynamic_disambiguation = wrapped
    return p


def _filters_for(job, g, spec_has_prec, rng):
    fl = [("acc",)]
    nprods = len(g.productions)
    cands = list(range(1, nprods))
    rng.shuffle(cands)
    for k in cands[:2]:
        fl.append(("rejprod", k))
    tnames = [t.name for t in g.terminals.values() if t.name not in ("EMPTY",)]
    for _ in range(2):
        fl.append(("rejpl", rng.choice(cands), rng.choice(tnames)))
    for _ in range(job["nrand"]):
        fl.append(("rand", rng.randrange(1 << 30), rng.choice([0.5, 0.75, 0.9])))
    return fl


def _prec_tables(spec, g):
    """production id -> (level, assoc); terminal name -> level of its binary production"""
    plev, tlev = {}, {}
    pid = 1
    for op in spec["ops"]:
        plev[pid] = (op["level"], op["assoc"])
        tlev[op["tname"]] = op["level"]
        pid += 1
    if spec.get("prefix"):
        plev[pid] = (spec["prefix"]["level"], spec["prefix"]["assoc"])
        tlev.setdefault(spec["prefix"]["tname"], spec["prefix"]["level"])
    return plev, tlev


def _worker(job):
    import parglare  # noqa
    from parglare import GLRParser, Grammar, Parser
    from lib import impl
    spec = job["spec"]
    rng = random.Random(job["seed"])
    out = {"name": spec["name"], "spec": spec, "gerr": None, "lr": [], "glr": [], "prec": []}
    gtext = spec_text(spec, "dyn")
    out["gtext"] = gtext
    try:
        with impl.time_limit(20):
            g = Grammar.from_string(gtext)
    except BaseException as e:  # noqa
        out["gerr"] = impl.exc_kind(e) + ": " + str(e)[:200]
        return out
    gi = impl.GInfo(g)
    out["grammar"] = impl.model_grammar(gi)
    out["terms"] = impl.dump_terms(gi)
    out["stop"] = impl.stop_id(gi)
    out["term_names"] = [t.name for t in gi.terms]
    out["dyn_terms"] = [i for i, t in enumerate(gi.terms) if getattr(t, "dynamic", False)]
    out["dyn_prods"] = [p.prod_id for p in g.productions if p.dynamic]
    inputs = job["inputs"]
    out["rx"] = {w: impl.rx_matrix(gi, w) for w in inputs}
    filters = _filters_for(job, g, not spec.get("raw"), rng)

    # ---- LR
    for ps, pse in ((False, False), (True, True), (False, True)):
        kw = dict(build_tree=True, prefer_shifts=ps, prefer_shifts_over_empty=pse)
        c = {"ps": ps, "pse": pse, "runs": []}
        try:
            p0 = _build(Parser, g, ("none",), **kw)
            c["nofilter"] = "ok"
        except BaseException as e:  # noqa
            p0 = None
            c["nofilter"] = impl.exc_kind(e)
        try:
            pf = _build(Parser, g, ("acc",), **kw)
            c["withfilter"] = "ok"
        except BaseException as e:  # noqa
            pf = None
            c["withfilter"] = impl.exc_kind(e)
        if pf is not None:
            c["table"] = impl.dump_table(pf.table, gi)
            c["table_nofilter_same"] = (p0 is None) or impl.dump_table(p0.table, gi) == c["table"]
        base = {}
        if p0 is not None:
            for w in inputs:
                base[w] = _run_lr(p0, w, ("none",), g, gi)
            c["base"] = base
        if pf is not None:
            for fspec in filters:
                try:
                    p = _build(Parser, g, fspec, **kw)
                except BaseException as e:  # noqa
                    c["runs"].append({"fspec": fspec, "cerr": impl.exc_kind(e)})
                    continue
                res = {w: _run_lr(p, w, fspec, g, gi) for w in inputs}
                # a second parse with the same parser object: the initial call again, same trace
                if inputs:
                    w0 = inputs[len(inputs) // 2]
                    again = _run_lr(p, w0, fspec, g, gi)
                    c.setdefault("again", []).append([fspec, w0, again == res[w0]])
                c["runs"].append({"fspec": fspec, "res": res})
        out["lr"].append(c)

    # ---- GLR
    try:
        gp0 = _build(GLRParser, g, ("none",))
        gbase = {w: _run_glr(gp0, w, gi) for w in inputs}
        out["glr_base"] = gbase
        for fspec in filters[:7]:
            gp = _build(GLRParser, g, fspec)
            out["glr"].append({"fspec": fspec, "res": {w: _run_glr(gp, w, gi) for w in inputs}})
    except BaseException as e:  # noqa
        out["glr_err"] = impl.exc_kind(e) + ": " + str(e)[:200]

    # ---- precedence filter vs static priorities
    if not spec.get("raw"):
        try:
            plev, tlev = _prec_tables(spec, g)
            fprec = ("prec", plev, tlev)
            gs = Grammar.from_string(spec_text(spec, "static"))
            gis = impl.GInfo(gs)
            same_numbering = [t.name for t in gi.terms] == [t.name for t in gis.terms] and \
                len(g.productions) == len(gs.productions)
            full = all(o["pdyn"] and o["tdyn"] for o in spec["ops"]) and \
                (not spec.get("prefix") or (spec["prefix"]["pdyn"] and spec["prefix"]["tdyn"]))
            pr = {"full": full, "same_numbering": same_numbering, "res": {}}
            try:
                ps_static = _build(Parser, gs, ("none",), build_tree=True, prefer_shifts=False,
                                   prefer_shifts_over_empty=False)
            except BaseException as e:  # noqa
                out["prec"] = None
                out["static_cerr"] = impl.exc_kind(e)
                return out
            gl_static = _build(GLRParser, gs, ("none",))
            try:
                pl_dyn = _build(Parser, g, fprec, build_tree=True, prefer_shifts=False,
                                prefer_shifts_over_empty=False)
            except BaseException as e:  # noqa
                pl_dyn = None
                pr["lr_dyn_cerr"] = impl.exc_kind(e)
            gl_dyn = _build(GLRParser, g, fprec)
            # mixed: static priorities and marks together (the filter only sees resolved cells)
            gm = Grammar.from_string(spec_text(spec, "mixed"))
            gim = impl.GInfo(gm)
            pl_mixed = _build(Parser, gm, fprec, build_tree=True, prefer_shifts=False,
                              prefer_shifts_over_empty=False)
            for w in inputs:
                e = {"static_lr": _run_lr(ps_static, w, ("none",), gs, gis),
                     "static_glr": _run_glr(gl_static, w, gis),
                     "dyn_glr": _run_glr(gl_dyn, w, gi),
                     "mixed_lr": _run_lr(pl_mixed, w, fprec, gm, gim)}
                if pl_dyn is not None:
                    e["dyn_lr"] = _run_lr(pl_dyn, w, fprec, g, gi)
                    e["dyn_lr"].pop("trace", None)
                e["mixed_lr"].pop("trace", None)
                pr["res"][w] = e
            out["prec"] = pr
        except BaseException as e:  # noqa
            out["prec_err"] = impl.exc_kind(e) + ": " + str(e)[:300]
    return out


# ------------------------------------------------------------------ main process
def fdesc(fspec):
    if fspec[0] == "prec":
        return ["prec", {str(k): list(v) for k, v in fspec[1].items()}, fspec[2]]
    return list(fspec)


LAYOUT_RULE = "LAYOUT: LayoutItem | LAYOUT LayoutItem | EMPTY;\nLayoutItem: WS;\n"


def _layout_probe_worker(job):
    """the same grammar with ws-based layout and with an equivalent LAYOUT rule: the filter must be
    consulted for exactly the same decisions (layout is parsed by an internal parser that the
    filter has nothing to do with)"""
    from parglare import GLRParser, Grammar, Parser
    from lib import impl
    spec = job["spec"]
    out = {"name": spec["name"], "rows": []}
    text = spec_text(spec, "dyn")
    head, tail = text.split("terminals\n", 1)
    ltext = head + LAYOUT_RULE + "terminals\n" + tail + "WS: /\\s+/;\n"
    out["gtext"], out["ltext"] = text, ltext

    def sig(rec):
        res = []
        for c in rec:
            if c["k"] == "init":
                res.append(["init"])
            else:
                res.append([c["k"], getattr(c.get("prod"), "prod_id", None), bool(c["v"])])
        return res
    try:
        for cls, cname in ((Parser, "lr"), (GLRParser, "glr")):
            for fspec in (("acc",), ("rand", job["seed"], 0.75)):
                with impl.time_limit(20), impl.quiet():
                    pa = _build(cls, Grammar.from_string(text), fspec)
                    pb = _build(cls, Grammar.from_string(ltext), fspec)
                for w in job["inputs"]:
                    obs = []
                    for p in (pa, pb):
                        del p._c18_rec[:]
                        try:
                            with impl.time_limit(10):
                                r = p.parse(w)
                            kind = "ok:%s" % (len(r) if cname == "glr" else "tree")
                        except BaseException as e:  # noqa
                            kind = impl.exc_kind(e)
                        obs.append([kind, sig(p._c18_rec)])
                        del p._c18_rec[:]
                    out["rows"].append([cname, list(fspec[:1]), w, obs[0], obs[1]])
    except BaseException as e:  # noqa
        out["err"] = impl.exc_kind(e) + ": " + str(e)[:200]
    return out


def layout_probe(ctx, st, jobs):
    pj = []
    for j in jobs:
        spec = j["spec"]
        if spec.get("raw") or len(pj) >= (8 if ctx.quick() else 60):
            continue
        ins = []
        for _ in range(6):
            toks = gen_expr(ctx.rng, spec, ctx.rng.randint(1, 4))
            ins.append(" ".join(toks))
            ins.append("".join(t + ctx.rng.choice(["", " ", "\n "]) for t in toks))
        pj.append({"spec": spec, "inputs": ins, "seed": ctx.rng.randrange(1 << 30)})
    with mp.Pool(common.NPROC) as pool:
        outs = pool.map(_layout_probe_worker, pj, chunksize=1)
    st["layout_probe_grammars"] = len(outs)
    st["layout_probe_parses"] = 0
    for o in outs:
        if o.get("err"):
            if "Timeout" in o["err"]:
                continue
            ctx.violation("LAYOUT-rule variant of a filter grammar could not be run: %s" % o["err"],
                          {"grammar": o.get("ltext")}, no_input=True, key="layout-probe-err")
            continue
        for cname, fspec, w, a, b in o["rows"]:
            st["layout_probe_parses"] += 1
            if "Timeout" in (a[0], b[0]):
                continue
            if a != b:
                ctx.violation("%s: with a LAYOUT rule the filter is consulted differently than with the equivalent "
                              "whitespace skipping (%d vs %d calls, outcome %s vs %s)"
                              % (cname, len(a[1]), len(b[1]), a[0], b[0]),
                              {"grammar": o["ltext"], "ws_grammar": o["gtext"], "input": w, "filter": fspec,
                               "calls_ws": a[1][:12], "calls_layout": b[1][:12]}, key="layout-filter-" + cname)
                break


def run(ctx):
    jobs = gen_jobs(ctx)
    with mp.Pool(common.NPROC) as pool:
        results = pool.map(_worker, jobs, chunksize=1)
    st = {"grammars": 0, "grammar_errors": 0, "lr_configs": 0, "lr_nofilter_constructed": 0,
          "lr_withfilter_constructed": 0, "lr_construct_errors": {}, "lr_runs": 0, "lr_kinds": {},
          "lr_calls": 0, "lr_rejections": 0, "lr_model_compared": 0, "glr_runs": 0, "glr_kinds": {},
          "glr_calls": 0, "glr_rejections": 0, "glr_acc_vs_nofilter": 0, "glr_rejprod_checked": 0,
          "glr_rejprod_pruned_nontrivially": 0, "prec_lr_compared": 0, "prec_glr_compared": 0,
          "prec_partial_glr_contains_static": 0, "prec_mixed_compared": 0, "acc_vs_nofilter_lr": 0,
          "tables_checked": 0, "cells_single_true": 0, "model_out_of_fuel": 0, "mark_modes": {},
          "second_parse_same": 0, "filters": {}, "kf_instances": 0, "glr_rejpl_checked": 0,
          "glr_rejpl_pruned_nontrivially": 0, "glr_merged_head_shift_calls": 0,
          "glr_revisit_reduce_calls": 0, "lr_shift_calls_with_stale_context_token": 0}
    layout_probe(ctx, st, jobs)
    mcases, meta = [], []
    wsl = [ord(c) for c in WS]
    distinct = set()
    samples = []

    def rep_of(r, c, fspec, w, glr=False):
        d = {"grammar": r["gtext"], "parser": "GLR" if glr else "LR", "filter": fdesc(fspec), "input": w}
        if c is not None:
            d["options"] = {"prefer_shifts": c["ps"], "prefer_shifts_over_empty": c["pse"]}
        return d

    for r in results:
        st["grammars"] += 1
        if r["gerr"]:
            st["grammar_errors"] += 1
            ctx.violation("generated operator grammar rejected by Grammar.from_string: %s" % r["gerr"],
                          {"grammar": r["gtext"]}, no_input=True, key="gerr")
            continue
        mm = r["spec"].get("mark_mode", "raw")
        st["mark_modes"][mm] = st["mark_modes"].get(mm, 0) + 1
        if 0 in r["dyn_prods"]:
            ctx.violation("production 0 (augmented) is marked dynamic: hypothesis of C18_lr_result_approved fails",
                          {"grammar": r["gtext"]}, no_input=True, key="dyn0")
        for k in ("glr_err", "prec_err"):
            if k in r:
                ctx.violation("machinery/impl error in %s: %s" % (k, r[k]), {"grammar": r["gtext"]},
                              no_input=True, key=k)
        # ---------------- LR
        for c in r["lr"]:
            st["lr_configs"] += 1
            if c["nofilter"] == "ok":
                st["lr_nofilter_constructed"] += 1
            if c["withfilter"] != "ok":
                st["lr_construct_errors"][c["withfilter"]] = st["lr_construct_errors"].get(c["withfilter"], 0) + 1
                if c["nofilter"] == "ok":
                    ctx.violation("Parser builds without a filter but raises %s with one" % c["withfilter"],
                                  rep_of(r, c, ("acc",), ""), key="construct")
                continue
            st["lr_withfilter_constructed"] += 1
            if not c["table_nofilter_same"]:
                ctx.violation("the LR table differs with and without a dynamic_filter",
                              rep_of(r, c, ("acc",), ""), no_input=True, key="table-differs")
            mcases.append((181, [r["grammar"], c["table"]]))
            meta.append(("checks", r, c, None, None))
            for ag in c.get("again", []):
                if ag[2]:
                    st["second_parse_same"] += 1
                else:
                    ctx.violation("a second parse with the same parser object gives a different result/trace "
                                  "(filter not re-initialised at the start of every parse?)",
                                  rep_of(r, c, ag[0], ag[1]), key="second-parse")
            pconf = [r["grammar"], c["table"], r["terms"], r["stop"], 1, 1, wsl, []]
            for run_ in c["runs"]:
                fspec = run_["fspec"]
                if "cerr" in run_:
                    ctx.violation("Parser construction failed with filter %s: %s" % (fspec[0], run_["cerr"]),
                                  rep_of(r, c, fspec, ""), no_input=True, key="cerr")
                    continue
                st["filters"][fspec[0]] = st["filters"].get(fspec[0], 0) + 1
                for w, res in run_["res"].items():
                    st["lr_runs"] += 1
                    st["lr_kinds"][res["kind"]] = st["lr_kinds"].get(res["kind"], 0) + 1
                    st["lr_calls"] += res["ncalls"]
                    st["lr_shift_calls_with_stale_context_token"] += res.get("stale_token", 0)
                    rep = rep_of(r, c, fspec, w)
                    for e in res["shape"]:
                        ctx.violation("LR filter call trace violates the property: " + e, rep,
                                      key="lr-shape:" + e.split(":")[-1][:40])
                    for e in res["approved"]:
                        ctx.violation("LR result contains a marked decision the filter did not approve: " + e,
                                      rep, key="lr-approved")
                    for a, is_empty in res["passed_over"]:
                        if is_empty:
                            st["kf_instances"] += 1
                            ctx.known_finding(KF_ID, "LR: the filter accepted an EMPTY reduction of a dynamic "
                                              "production, the driver silently took another action of the cell")
                        else:
                            ctx.violation("LR: the filter accepted action %r but the driver took another one "
                                          "without raising DynamicDisambiguationConflict" % (a,), rep,
                                          key="lr-accepted-not-taken")
                    verdicts = [1] + [x[-1] for x in res["trace"][1:]]
                    st["lr_rejections"] += verdicts.count(0)
                    pin = [[ord(ch) for ch in w], r["rx"][w]]
                    mcases.append((180, [pconf, pin, FUEL, 0, r["dyn_terms"], r["dyn_prods"], verdicts]))
                    meta.append(("parse", r, c, fspec, w))
                    # stateless filters: direct oracles
                    if fspec[0] == "rejprod" and res["kind"] == "ok":
                        k = fspec[1]
                        used = prods_in(strip_pos(res["tree"]))
                        if k in r["dyn_prods"] and k in used:
                            ctx.violation("LR: every reduction of production %d was rejected, the result uses it"
                                          % k, rep, key="lr-rejected-taken")
                    if fspec[0] == "rejprod" and fspec[1] not in r["dyn_prods"]:
                        if any(x[0] == 2 and x[2] == fspec[1] for x in res["trace"]):
                            ctx.violation("LR: the filter was asked about unmarked production %d" % fspec[1],
                                          rep, key="lr-unmarked-asked")
                    if fspec[0] == "acc" and "base" in c:
                        st["acc_vs_nofilter_lr"] += 1
                        b = c["base"][w]
                        if (b["kind"], b.get("tree"), b.get("pos")) != (res["kind"], res.get("tree"), res.get("pos")):
                            ctx.violation("LR: accept-all filter gives %s, no filter gives %s"
                                          % (res["kind"], b["kind"]), rep, key="lr-acc-vs-none")
                    if res["kind"] == "ok" and res["ncalls"] > 1:
                        distinct.add((r["gtext"], c["ps"], c["pse"], repr(fspec), w))
                        if len(samples) < 4 and len(w) > 4 and verdicts.count(0):
                            samples.append(dict(rep, impl_result=res["kind"], calls=res["ncalls"],
                                                rejected=verdicts.count(0)))
        # ---------------- GLR
        gb = r.get("glr_base", {})
        for run_ in r["glr"]:
            fspec = run_["fspec"]
            for w, res in run_["res"].items():
                st["glr_runs"] += 1
                st["glr_kinds"][res["kind"]] = st["glr_kinds"].get(res["kind"], 0) + 1
                st["glr_calls"] += res.get("ncalls", 0)
                st["glr_rejections"] += res.get("nrej", 0)
                st["glr_merged_head_shift_calls"] += res.get("merged_shift_calls", 0)
                st["glr_revisit_reduce_calls"] += res.get("revisit_reduce_calls", 0)
                rep = rep_of(r, None, fspec, w, glr=True)
                if res["kind"].startswith("exc:"):
                    ctx.violation("GLRParser.parse raised %s under a filter" % res["kind"], rep, key="glr-exc")
                    continue
                for e in res.get("shape", []):
                    ctx.violation("GLR filter call trace violates the property: " + e, rep,
                                  key="glr-shape:" + e.split(":")[-1][:40])
                for e in res.get("approved", []):
                    ctx.violation("GLR forest contains a marked decision the filter did not approve: " + e,
                                  rep, key="glr-approved")
                b = gb.get(w)
                if b is None:
                    continue
                if res["kind"] == "ok" and res.get("ncalls", 0) > 1:
                    distinct.add((r["gtext"], "glr", repr(fspec), w))
                if fspec[0] == "acc":
                    st["glr_acc_vs_nofilter"] += 1
                    if (b["kind"], b.get("nsol"), b.get("forest"), b.get("pos")) != \
                            (res["kind"], res.get("nsol"), res.get("forest"), res.get("pos")):
                        ctx.violation("GLR: accept-all filter gives %s/%s solutions, no filter gives %s/%s"
                                      % (res["kind"], res.get("nsol"), b["kind"], b.get("nsol")), rep,
                                      key="glr-acc-vs-none")
                if fspec[0] == "rejprod":
                    k = fspec[1]
                    if b["kind"] == "ok" and "trees" in b:
                        st["glr_rejprod_checked"] += 1
                        if k in r["dyn_prods"]:
                            exp = [t for t in b["trees"] if k not in prods_in(common.sx_parse(t))]
                            if 0 < len(exp) < len(b["trees"]):
                                st["glr_rejprod_pruned_nontrivially"] += 1
                        else:
                            exp = b["trees"]
                        got = res.get("trees", []) if res["kind"] == "ok" else []
                        if res["kind"] == "ok" and "trees" not in res:
                            continue
                        if got != exp:
                            ctx.violation("GLR: rejecting every reduction of production %d (%s) gives %d trees, "
                                          "expected the %d unfiltered trees that do not use it"
                                          % (k, "dynamic" if k in r["dyn_prods"] else "not dynamic", len(got),
                                             len(exp)), rep, key="glr-rejprod")
                    elif b["kind"] == "SyntaxError" and res["kind"] == "ok":
                        ctx.violation("GLR: input rejected without a filter is accepted with a rejecting filter",
                                      rep, key="glr-rej-accepts")
                if fspec[0] == "rejpl" and not r["spec"].get("raw"):
                    k, yname = fspec[1], fspec[2]
                    y = r["term_names"].index(yname)
                    if b["kind"] == "ok" and "trees" in b and not (res["kind"] == "ok" and "trees" not in res):
                        st["glr_rejpl_checked"] += 1
                        if k in r["dyn_prods"]:
                            exp = [t for t in b["trees"]
                                   if not has_node_before(common.sx_parse(t), k, y, r["stop"])]
                            if 0 < len(exp) < len(b["trees"]):
                                st["glr_rejpl_pruned_nontrivially"] += 1
                        else:
                            exp = b["trees"]
                        got = res.get("trees", []) if res["kind"] == "ok" else []
                        if got != exp:
                            ctx.violation("GLR: rejecting the reductions of production %d (%s) before %s gives %d "
                                          "trees, expected %d (the unfiltered trees without such a node)"
                                          % (k, "dynamic" if k in r["dyn_prods"] else "not dynamic", yname,
                                             len(got), len(exp)), rep, key="glr-rejpl")
                    elif b["kind"] == "SyntaxError" and res["kind"] == "ok":
                        ctx.violation("GLR: input rejected without a filter is accepted with a rejecting filter",
                                      rep, key="glr-rej-accepts")
        # ---------------- precedence filter = static priorities
        pr = r.get("prec") or None
        if pr and pr["same_numbering"]:
            for w, e in pr["res"].items():
                rep = {"grammar": r["gtext"], "static_grammar": spec_text(r["spec"], "static"), "input": w,
                       "filter": "precedence-encoding"}
                for k in ("dyn_glr", "dyn_lr", "mixed_lr"):
                    if k in e:
                        for x in e[k].get("shape", []):
                            ctx.violation("%s filter call trace violates the property: %s" % (k, x), rep,
                                          key="prec-shape")
                        for x in e[k].get("approved", []):
                            ctx.violation("%s result holds an unapproved marked decision: %s" % (k, x), rep,
                                          key="prec-approved")
                s_lr, s_glr = e["static_lr"], e["static_glr"]
                # the mixed grammar: table already resolved, the filter agrees with it
                st["prec_mixed_compared"] += 1
                m = e["mixed_lr"]
                if (m["kind"], strip_pos(m["tree"]) if m["kind"] == "ok" else m.get("pos")) != \
                        (s_lr["kind"], strip_pos(s_lr["tree"]) if s_lr["kind"] == "ok" else s_lr.get("pos")):
                    ctx.violation("LR with static priorities + marks + precedence filter differs from static "
                                  "priorities alone (%s vs %s)" % (m["kind"], s_lr["kind"]), rep, key="prec-mixed")
                if pr["full"]:
                    if "dyn_lr" in e:
                        st["prec_lr_compared"] += 1
                        d = e["dyn_lr"]
                        if (d["kind"], d.get("tree"), d.get("pos")) != (s_lr["kind"], s_lr.get("tree"), s_lr.get("pos")):
                            ctx.violation("LR: precedence-encoding filter gives %s, equivalent static priorities "
                                          "give %s (or a different tree)" % (d["kind"], s_lr["kind"]), rep,
                                          key="prec-lr")
                        elif d["kind"] == "ok":
                            distinct.add((r["gtext"], "prec-lr", w))
                    st["prec_glr_compared"] += 1
                    d = e["dyn_glr"]
                    if d["kind"] != s_glr["kind"] or (d["kind"] == "ok" and
                                                      (d["nsol"] != 1 or d.get("trees") != s_glr.get("trees"))):
                        ctx.violation("GLR: precedence-encoding filter gives %s/%s trees, static priorities "
                                      "give %s/%s" % (d["kind"], d.get("nsol"), s_glr["kind"], s_glr.get("nsol")),
                                      rep, key="prec-glr")
                else:
                    # partial marks: the filter only ever rejects what the static table rejects,
                    # so the static tree must survive in the forest
                    d = e["dyn_glr"]
                    if s_glr["kind"] == "ok" and s_glr.get("nsol") == 1 and "trees" in s_glr:
                        if d["kind"] == "ok" and "trees" in d:
                            st["prec_partial_glr_contains_static"] += 1
                            if s_glr["trees"][0] not in d["trees"]:
                                ctx.violation("GLR with partial marks: the precedence filter removed the tree "
                                              "chosen by the static priorities", rep, key="prec-partial")
                        elif d["kind"] != "ok":
                            ctx.violation("GLR with partial marks and precedence filter rejects (%s) an input "
                                          "the static grammar parses" % d["kind"], rep, key="prec-partial-rej")

    # ---------------- the model
    outs = common.model_run(mcases)
    nx, xok, xlog = common.coq_crosscheck("C18", mcases, outs, ctx.rng, sample=30 if ctx.quick() else 120)
    if not xok:
        ctx.violation("extraction cross-check failed: OCaml driver and vm_compute disagree",
                      {"log": xlog}, no_input=True)
    for (kind, r, c, fspec, w), o in zip(meta, outs):
        if kind == "checks":
            st["tables_checked"] += 1
            cs, sso = o
            if sso != 1:
                ctx.violation("shift_sym_ok fails on the impl's table (a SHIFT under terminal y leads to a state "
                              "whose symbol is not y): hypothesis of C18_lr_result_approved",
                              rep_of(r, c, ("acc",), ""), no_input=True, key="shift_sym_ok")
            if cs == 1:
                st["cells_single_true"] += 1
            elif c["nofilter"] == "ok":
                ctx.violation("cells_single fails on a table the impl builds an LR parser from without a filter: "
                              "hypothesis of C18_lr_accept_all", rep_of(r, c, ("acc",), ""), no_input=True,
                              key="cells_single")
            continue
        res = [x for x in c["runs"] if x["fspec"] == fspec][0]["res"][w]
        rep = rep_of(r, c, fspec, w)
        st["lr_model_compared"] += 1
        mres, mtrace, left, dropped = o
        if mres[0] == 0 and mres[1][0] == 3:
            st["model_out_of_fuel"] += 1
            if res["kind"] != "exc:Timeout":
                ctx.violation("model ran out of fuel, impl terminated with %s" % res["kind"], rep, no_input=True,
                              key="fuel")
            continue
        if mres[0] == 0:
            lr = mres[1]
            mk = {0: "ok", 1: "SyntaxError", 2: "DisambiguationError", 4: "LayoutError", 5: "crash"}[lr[0]]
            mobs = (mk, lr[1] if lr[0] == 0 else None, lr[1] if lr[0] in (1, 2) else None, None)
        elif mres[0] == 1:
            mobs = ("DDC", None, None, mres[2])
        else:
            mobs = ("IndexError", None, None, None)
        iobs = (res["kind"], res.get("tree"), res.get("pos"), res.get("st"))
        if mobs != iobs:
            ctx.violation("LR under a filter: impl gives %s, model gives %s (same verdicts)"
                          % (iobs[0], mobs[0]), dict(rep, impl=iobs, model=mobs), no_input=True, key="diff-result")
        if mtrace != res["trace"]:
            ctx.violation("LR filter call traces differ between impl and model",
                          dict(rep, impl_trace=res["trace"], model_trace=mtrace), no_input=True, key="diff-trace")
        elif left != 0:
            ctx.violation("model consumed fewer verdicts than the impl recorded", rep, no_input=True,
                          key="diff-verdicts")
        # mechanism predicate of the known finding, evaluated by the model
        if sorted(common.sx_dump(x[2]) for x in dropped) != sorted(common.sx_dump(a) for a, _ in res["passed_over"]):
            ctx.violation("accepted-but-passed-over actions differ between impl and model",
                          dict(rep, impl=res["passed_over"], model=dropped), no_input=True, key="diff-dropped")

    cov = {
        "evaluations": st["lr_runs"] + st["glr_runs"] + st["prec_lr_compared"] + st["prec_glr_compared"],
        "distinct_nontrivial": len(distinct),
        "rule": "seeded operator grammars (1-4 binary operators over random precedence levels and associativities, "
                "optional prefix operator -- sometimes on the terminal of a binary one --, optional parentheses), "
                "marks: all / none / productions only / terminals only / random subset; curated grammars with EMPTY "
                "productions; parsers LR x {prefer_shifts, prefer_shifts_over_empty} and GLR; filters accept-all, "
                "reject one production (marked or not), seeded random verdicts, precedence-encoding; inputs: random "
                "expressions with 0..N operators in three layouts plus corrupted ones; non-trivial = accepted parse "
                "during which the filter was consulted; distinct by (grammar, parser, options, filter, input)",
        "samples": samples,
        "traces_validated_against_impl": st["lr_model_compared"],
        "distribution": st,
        "crosscheck_vm_compute_cases": nx,
        "exhaustive": False,
    }
    return cov


def replay(ctx, rep):
    from parglare import GLRParser, Grammar, Parser
    from lib import impl
    g = Grammar.from_string(rep["grammar"])
    gi = impl.GInfo(g)
    f = rep.get("filter", ["acc"])
    if isinstance(f, str):
        print("precedence replay: see grammar/static_grammar/input in the file")
        return 0
    fspec = tuple(f)
    if fspec[0] == "prec":
        fspec = ("prec", {int(k): tuple(v) for k, v in f[1].items()}, f[2])
    if rep.get("parser") == "GLR":
        p = _build(GLRParser, g, fspec)
        print(_run_glr(p, rep["input"], gi))
    else:
        o = rep.get("options", {})
        p = _build(Parser, g, fspec, build_tree=True, prefer_shifts=o.get("prefer_shifts", False),
                   prefer_shifts_over_empty=o.get("prefer_shifts_over_empty", False))
        print(_run_lr(p, rep["input"], fspec, g, gi))
    return 0
