"""C16 -- tables and forests are deterministic across processes and hash seeds.

Every generated case (grammar text, options, inputs) is evaluated by `_worker` in several
interpreter processes started with different PYTHONHASHSEED values; the observables the
property names (sha256 of the sorted-key JSON dump of the table, conflict lists and
messages, to_str() of forest[0..n) in order, packed forest, error texts) must be identical in
all of them, identical for a second construction in the same process, identical when the
iteration order of every `set` created by parglare.tables / parglare.closure / parglare.glr
is replaced by an injected adversarial permutation, and equal to what the extracted Coq
model computes from the automaton-phase output (rows, finish flags, conflicts, bytes)."""
import hashlib
import json
import os
import pickle
import subprocess
import threading

from lib import common, gramgen

LEVEL = "proof"
ASSUMPTIONS = [
    "theorems are about Model/Determ.v: the REDUCE phase of create_table, sort_state_actions, calc_finish_flags, "
    "the conflict lists and the bytes of json.dumps(table_to_serializable(table), sort_keys=True), parametric in the "
    "order in which every lookahead set is iterated (any permutation, per state and item)",
    "PARTIAL: the automaton phase of create_table (closure, LALR merge/propagation, FIRST/FOLLOW) and the GLR driver are "
    "not modelled; that they never iterate a set of symbols is checked by running the impl under different "
    "PYTHONHASHSEEDs in separate processes and under injected set-iteration orders (a `set` subclass with a permuted "
    "__iter__ installed in the module namespaces of parglare.tables/closure/glr), comparing state numbering, items, "
    "lookahead sets, gotos, forests and trees: tests, not theorems",
    "CPython: set iteration order of str-hashed objects is modelled as an arbitrary permutation; hashes of small ints "
    "and dict insertion order do not depend on PYTHONHASHSEED (language/implementation guarantee, trusted)",
    "the hypothesis of the sorting theorem (distinct sort keys among the terminals of a row, tin_okb) is evaluated by "
    "the extracted checker on the data of every impl table; it cannot fail for grammars written in the grammar language",
    "a difference seen only under an injected order is followed by a search over 64 real hash seeds for a failing process",
]

TREE_CAP = 24


# ------------------------------------------------------------------ impl side (runs in the seeded subprocesses)
def _sha(obj):
    return hashlib.sha256(json.dumps(obj, sort_keys=True, default=str).encode()).hexdigest()[:16]


def _norm_sets(text):
    """LRItem.__str__ prints the lookahead set as '{a, b, c}' in set iteration order; the conflict
    report means the same thing whatever that order is, so the members are sorted before comparing"""
    import re
    return re.sub(r"\{([^{}\n]*)\}", lambda m: "{" + ", ".join(sorted(m.group(1).split(", "))) + "}", text)


class _Perm:
    """Installs a `set` subclass with an adversarial iteration order in the namespaces of the
    modules that create sets of grammar symbols.  seed -1: reverse of the fqn order, -2: fqn order,
    otherwise a shuffle drawn from a generator seeded per installation."""

    def __init__(self, seed):
        self.seed = seed

    def __enter__(self):
        import random
        import parglare.closure as C
        import parglare.glr as G
        import parglare.tables as T
        rng = random.Random(self.seed)
        seed = self.seed

        class PermSet(set):
            __slots__ = ()

            def __iter__(self):
                l = list(set.__iter__(self))
                l.sort(key=lambda x: (type(x).__name__, getattr(x, "fqn", None) or repr(x)))
                if seed == -1:
                    l.reverse()
                elif seed >= 0:
                    rng.shuffle(l)
                return iter(l)

        self.mods = (T, C, G)
        for m in self.mods:
            m.set = PermSet
        return self

    def __exit__(self, *a):
        for m in self.mods:
            try:
                del m.set
            except AttributeError:
                pass


def _term_info(t):
    from parglare.grammar import RegExRecognizer, StringRecognizer
    r = t.recognizer
    if type(r) is StringRecognizer:
        kind, ln, rl = 0, len(r.value), 0
    elif type(r) is RegExRecognizer:
        kind, ln, rl = (1 if t.keyword else 2), 0, len(r._regex)
        if t.keyword:
            ln = max(0, rl - 4)
    else:
        kind, ln, rl = 2, 0, 0
    fin = 0 if t.finish is None else (2 if t.finish else 1)
    return [[ord(ch) for ch in t.fqn], t.prior, kind, ln, rl, fin]


def _mk_grammar(gtext):
    """Grammar from a text, or from a set of files {"files": {name: text}, "root": name} written
    to a fresh temporary directory (import-based grammars)."""
    from parglare import Grammar
    if isinstance(gtext, str):
        return Grammar.from_string(gtext)
    import tempfile
    d = tempfile.mkdtemp(prefix="c16_")
    try:
        for name, text in gtext["files"].items():
            with open(os.path.join(d, name), "w") as f:
                f.write(text)
        g = Grammar.from_file(os.path.join(d, gtext["root"]))
        g.file_path = None          # no .pgc is written next to the temporary files
        return g
    finally:
        import shutil
        shutil.rmtree(d, ignore_errors=True)


def _observe(gtext, opts, inputs, dump=False):
    """Everything the property says must not depend on the process.  Returns (obs, detail)."""
    import parglare
    from parglare import GLRParser, Grammar, Parser
    from parglare.grammar import EMPTY
    from parglare.tables import LALR, SLR, first, follow
    from parglare.tables.persist import table_to_serializable
    from lib import impl
    obs = {"gerr": None}
    detail = {}
    kw = dict(tables=LALR if opts["tables"] else SLR, prefer_shifts=opts["ps"],
              prefer_shifts_over_empty=opts["pse"], lexical_disambiguation=opts["lexdis"],
              consume_input=opts.get("consume", True))
    # LALR construction diverges on some grammars (KF-C05): the state budget hook makes that outcome
    # deterministic (a wall-clock limit would not be)
    try:
        with impl.time_limit(60), impl.quiet():
            g = _mk_grammar(gtext)
            os.environ["PARGLARE_VERIF_MAX_STATES"] = "120"
            p = GLRParser(g, **kw)
    except BaseException as e:  # noqa
        obs["gerr"] = "%s: %s" % (impl.exc_kind(e), str(e)[:400])
        return obs, detail
    finally:
        os.environ.pop("PARGLARE_VERIF_MAX_STATES", None)
    gi = impl.GInfo(g)
    table = p.table
    slr = not opts["tables"]
    fol = follow(g, first(g)) if slr else None
    # ---- output of the automaton phase (state numbering, items, lookaheads, gotos)
    struct = []
    tin = []
    for s in table.states:
        items, fols = [], []
        for it in s.items:
            la = fol.get(it.production.symbol, set()) if slr else it.follow
            la = sorted(gi.term_index(t) for t in set.__iter__(la)) if isinstance(la, set) else []
            at_end = it.position == len(it.production.rhs)
            items.append([it.production.prod_id, it.position])
            fols.append(la if at_end else [])
        gotos = [[gi.sym(nt)[1], st.state_id] for nt, st in s.gotos.items()]
        struct.append([s.symbol.fqn, items, fols, gotos])
        shifts = []
        for t, acts in s.actions.items():
            for a in acts:
                d = impl.dump_action(a)
                if d[0] == 0:
                    shifts.append([gi.term_index(t), d[1]])
        tin.append([[ord(ch) for ch in s.symbol.fqn], items, shifts, gotos, fols])
    obs["struct"] = _sha(struct)
    # ---- finished table
    rows = [[[gi.term_index(t), [impl.dump_action(a) for a in al]] for t, al in s.actions.items()]
            for s in table.states]
    flags = [[1 if f else 0 for f in s.finish_flags] for s in table.states]
    obs["rows"] = _sha([rows, flags])
    ser = json.dumps(table_to_serializable(table), sort_keys=True)
    obs["ser"] = hashlib.sha256(ser.encode()).hexdigest()
    sr = [[c.state.state_id, gi.term_index(c.term), [pr.prod_id for pr in c.productions]]
          for c in table.sr_conflicts]
    rr = [[c.state.state_id, gi.term_index(c.term), [pr.prod_id for pr in c.productions]]
          for c in table.rr_conflicts]
    texts = [str(c) for c in table.sr_conflicts + table.rr_conflicts]
    obs["conflicts"] = _sha([sr, rr, [_norm_sets(x) for x in texts]])
    # the raw text prints every item's lookahead set in iteration order (LRItem.__str__): recorded, not compared
    obs["_conflict_text_raw"] = _sha(texts)
    obs["n_states"] = len(table.states)
    obs["n_conf"] = len(sr) + len(rr)
    obs["maxla"] = max([len(f) for st in struct for f in st[2]] or [0])
    # ---- LR parser: conflict exceptions and their text
    try:
        with impl.time_limit(60), impl.quiet():
            g2 = _mk_grammar(gtext)
            os.environ["PARGLARE_VERIF_MAX_STATES"] = "120"
            lp = Parser(g2, **kw)
        obs["lr"] = "ok"
    except BaseException as e:  # noqa
        lp = None
        obs["lr"] = "%s: %s" % (impl.exc_kind(e), _sha(str(e)))
    finally:
        os.environ.pop("PARGLARE_VERIF_MAX_STATES", None)
    if dump:
        prods = []
        for pr in g.productions:
            rhs = [gi.sym(s) for s in list.__iter__(pr.rhs) if s is not EMPTY]
            prods.append([rhs, pr.prior, pr.assoc, 1 if pr.nops else 0, 1 if pr.nopse else 0])
        # inside create_table production 0 is S' -> start STOP
        conf = [prods, [_term_info(t) for t in gi.terms],
                [[ord(ch) for ch in n.fqn] for n in gi.nonterms], impl.stop_id(gi),
                1 if opts["ps"] else 0, 1 if opts["pse"] else 0, 1 if opts["lexdis"] else 0]
        detail = {"conf": conf, "tin": tin, "rows": rows, "flags": flags, "sr": sr, "rr": rr,
                  "ser": ser, "prod0": [gi.sym(s) for s in list.__iter__(g.productions[0].rhs)]}
    # ---- forests
    res = []
    for w in inputs:
        c = {"lr": None}
        try:
            with impl.time_limit(30):
                forest = p.parse(w)
            n = forest.solutions
            c["status"] = "forest"
            c["n"] = n
            c["amb"] = forest.ambiguities
            try:
                c["nodes"] = _sha(impl.dump_forest(forest, gi))
            except impl.Cyclic:
                c["nodes"] = "cyclic"
            with impl.time_limit(30):
                c["trees"] = _sha([forest[i].to_str() for i in range(min(n, TREE_CAP))]) \
                    if c["nodes"] != "cyclic" else "cyclic"
        except parglare.SyntaxError as e:
            c["status"] = "SyntaxError"
            c["err"] = _sha([str(e), e.location.start_position])
        except BaseException as e:  # noqa
            c["status"] = "exc:" + impl.exc_kind(e)
        if lp is not None:
            # the LR driver loops forever on cyclic unit rules (A: A): wall-clock limit, and the rest of
            # the job's LR parses are skipped after the first one that hits it
            try:
                with impl.time_limit(2):
                    c["lr"] = _sha(repr(lp.parse(w)))
            except impl.Timeout:
                c["lr"] = "Timeout"
                lp = None
            except BaseException as e:  # noqa
                c["lr"] = "%s:%s" % (impl.exc_kind(e), _sha(str(e)))
        res.append(c)
    obs["inputs"] = res
    return obs, detail


def _worker(job):
    """job: dict(name, gtext, opts, inputs, dump, repeat, perms)"""
    out = {"name": job["name"], "hashseed": os.environ.get("PYTHONHASHSEED")}
    obs, detail = _observe(job["gtext"], job["opts"], job["inputs"], dump=job.get("dump", False))
    out["obs"] = obs
    out["detail"] = detail
    if job.get("repeat"):
        out["again"] = _observe(job["gtext"], job["opts"], job["inputs"])[0]
    out["perm"] = []
    for ps in job.get("perms", []):
        with _Perm(ps):
            o = _observe(job["gtext"], job["opts"], job["inputs"])[0]
        out["perm"].append((ps, o))
    return out


# ------------------------------------------------------------------ running a job list under one hash seed
def run_seeded(seed, jobs, nproc, timeout=1500):
    env = dict(os.environ)
    env["PYTHONHASHSEED"] = str(seed)
    env["PYTHONPATH"] = common.REPO
    env["VERIF_JOBS"] = str(nproc)
    p = subprocess.run(["/venv/bin/python", os.path.join(common.VERIF, "harness", "run_worker.py"),
                        "props.c16", "_worker"], input=pickle.dumps(jobs), stdout=subprocess.PIPE,
                       stderr=subprocess.PIPE, env=env, timeout=timeout)
    if p.returncode != 0:
        raise RuntimeError("seeded worker process (PYTHONHASHSEED=%s) failed: %s"
                           % (seed, p.stderr.decode(errors="replace")[-1500:]))
    out = pickle.loads(p.stdout)
    if not os.path.realpath(out["parglare_file"]).startswith(os.path.realpath(common.REPO)):
        raise RuntimeError("seeded worker imported parglare from %s" % out["parglare_file"])
    for r in out["results"]:
        if r["hashseed"] != str(seed):
            raise RuntimeError("seeded worker ran with PYTHONHASHSEED=%r" % r["hashseed"])
    return out["results"]


def run_all_seeds(seeds, joblists, par):
    """joblists[i] is the job list for seeds[i]; `par` processes at a time"""
    results = [None] * len(seeds)
    errs = []
    sem = threading.Semaphore(par)
    nproc = max(1, common.NPROC // par)

    def go(i):
        with sem:
            try:
                results[i] = run_seeded(seeds[i], joblists[i], nproc)
            except Exception as e:  # noqa
                errs.append(str(e))

    ths = [threading.Thread(target=go, args=(i,)) for i in range(len(seeds))]
    for t in ths:
        t.start()
    for t in ths:
        t.join()
    if errs:
        raise RuntimeError("; ".join(errs[:3]))
    return results


# ------------------------------------------------------------------ generators
NAME_POOL = ["a", "b", "c", "d", "e", "x", "y", "z", "+", "-", "*", "/", "^", "%", "=", "<", ">", "!", "&", "|",
             "==", "!=", "<=", ">=", "&&", "||", "->", "::", "~~", "if", "then", "else", "while", "do", "end",
             "let", "in", "fn", "ret", "Aa", "BB", "q0", "q1", "k9", "zz", "é", "λ", "ab", "ba", "abc", "cab"]

MALFORMED = [
    ("bad_undefined", "S: A 'b' | C;\nA: 'a';"),
    ("bad_syntax", "S: 'a' | ;;"),
    ("bad_dup_term", "S: A B;\nterminals\nA: 'a';\nB: 'a';"),
    ("bad_empty_mid", "S: 'a' EMPTY 'b';"),
    ("bad_no_rule", "terminals\nA: 'a';"),
    ("bad_regex", "S: A;\nterminals\nA: /(/;"),
    ("bad_left_rec_only", "S: S 'a';"),
    ("bad_multi_undefined", "S: X Y Z W 'a';\nX: Q1 | Q2 | Q3;"),
]

CLASSICS = [
    ("lalr_not_slr", "S: L '=' R | R; L: '*' R | 'i'; R: L;"),
    ("nqlalr", "S: 'a' 'g' 'd' | 'a' A 'c' | 'b' A 'd' | 'b' 'g' 'c'; A: B; B: 'g';"),
    ("first_leak", "S: B 'x' | B T 'y'; B: 'q'; T: A 'x'; A: 'a' | EMPTY;"),
    ("exprT", "E: E '+' T | T; T: T '*' F | F; F: '(' E ')' | 'i';"),
    ("prio", "E: E '+' E {left, 1} | E '*' E {left, 2} | E '^' E {right, 3} | '-' E {4} | '(' E ')' | 'n';"),
    ("prio_mixed", "E: E '+' E {left, 1} | E '*' E {2} | E '^' E {right, 2} | E '?' E | 'n';"),
    ("nops", "S: 'i' S {nops} | 'i' S 'e' S | 'x';"),
    ("nopse", "S: A 'a' B; A: EMPTY {nopse} | 'a'; B: EMPTY | 'a' B;"),
    ("kw", "S: I S | I; I: ID | 'if' | 'iff' | NUM;\nterminals\nKEYWORD: /\\w+/;\nID: /[a-z]+/;\nNUM: /\\d+/ {15};"),
    ("dyn_prior_terms", "S: A S | A; A: X | Y | Z;\nterminals\nX: /a+/ {12};\nY: /a/ {prefer};\nZ: 'a' {finish};"),
]


def _q(n):
    return "'%s'" % n.replace("\\", "\\\\").replace("'", "\\'")


def gen_operator(rng, i):
    k = rng.randint(3, 10)
    ops = rng.sample([n for n in NAME_POOL if not n[0].isalnum() or len(n) > 1], k)
    alts = []
    for op in ops:
        mark = []
        r = rng.random()
        if r < 0.35:
            mark.append(rng.choice(["left", "right"]))
        if rng.random() < 0.55:
            mark.append(str(rng.randint(1, 4)))
        if rng.random() < 0.1:
            mark.append(rng.choice(["nops", "nopse"]))
        alts.append("E %s E%s" % (_q(op), " {%s}" % ", ".join(mark) if mark else ""))
    if rng.random() < 0.5:
        alts.append("%s E {%d}" % (_q(rng.choice(ops)), rng.randint(1, 5)))
    if rng.random() < 0.5:
        alts.append("'(' E ')'")
    if rng.random() < 0.3:
        alts.append("E E {%d}" % rng.randint(1, 3))
    alts.append("'n'")
    text = "E: " + " | ".join(alts) + ";"
    inputs = []
    for _ in range(6):
        m = rng.randint(1, 4)
        toks = ["n"]
        for _ in range(m):
            toks += [rng.choice(ops), "n"]
        inputs.append(" ".join(toks))
    inputs.append("n " + ops[0])
    return ("ops%d" % i, text, inputs)


def gen_statements(rng, i):
    k = rng.randint(3, 8)
    kws = rng.sample(NAME_POOL, k + 3)
    stm, opts_rules, shapes = [], [], []
    for j in range(k):
        o = "O%d" % j
        rest = rng.choice(["X", "X X", o, ""])
        otok = kws[(j + 1) % k] if rng.random() < 0.5 else kws[k]
        stm.append(("%s %s %s" % (_q(kws[j]), o, rest)).strip())
        opts_rules.append("%s: %s | EMPTY;" % (o, _q(otok)))
        shapes.append((kws[j], otok, rest, o))
    text = "P: P St | EMPTY;\nSt: %s;\n%s\nX: %s | %s;" % (
        " | ".join(stm), "\n".join(opts_rules), _q(kws[k + 1]), _q(kws[k + 2]))
    inputs = []
    for _ in range(6):
        toks = []
        for _ in range(rng.randint(1, 4)):
            kw, otok, rest, o = rng.choice(shapes)
            toks.append(kw)
            if rng.random() < 0.5:
                toks.append(otok)
            for r in rest.split():
                if r == "X":
                    toks.append(rng.choice(kws[k + 1:k + 3]))
                elif rng.random() < 0.5:
                    toks.append(otok)
        inputs.append(" ".join(toks))
    inputs.append(" ".join(rng.choice(kws) for _ in range(3)))
    return ("stm%d" % i, text, inputs)


def gen_wide_random(rng, i):
    nt = rng.randint(5, 12)
    names = rng.sample(NAME_POOL, nt)
    r = gramgen.random_grammar(rng, max_nt=rng.randint(2, 5), max_alts=3, max_rhs=3,
                               terms=tuple(_q(n) for n in names),
                               p_empty=rng.choice([0.0, 0.15, 0.3]), p_nt=rng.choice([0.4, 0.55]))
    if r is None:
        return None
    prods, text = r
    inputs = []
    d = dict(prods)

    def sent(sym, depth):
        if sym.startswith("'"):
            return [sym[1:-1].replace("\\'", "'").replace("\\\\", "\\")]
        alts = d[sym]
        if depth <= 0:
            alts = [a for a in alts if all(s.startswith("'") for s in a)] or None
            if alts is None:
                return None
        out = []
        for s in rng.choice(alts):
            x = sent(s, depth - 1)
            if x is None:
                return None
            out += x
        return out

    for _ in range(12):
        s = sent(prods[0][0], 5)
        if s is not None and len(s) <= 10:
            inputs.append(" ".join(s))
    inputs = sorted(set(inputs))[:6]
    inputs.append(" ".join(rng.choice(names) for _ in range(3)))
    return ("wide%d" % i, text, inputs)


def gen_lexical(rng, i):
    """regex / keyword / string terminals with priorities, prefer/finish marks: exercises the sort key"""
    k = rng.randint(3, 7)
    names = ["T%d" % j for j in range(k)]
    rng.shuffle(names)
    decl = []
    words = rng.sample(["a", "ab", "abc", "b", "ba", "if", "iff", "x", "xy", "aa"], k)
    for j, n in enumerate(names):
        kind = rng.random()
        marks = []
        if rng.random() < 0.4:
            marks.append(str(rng.randint(8, 13)))
        if rng.random() < 0.15:
            marks.append(rng.choice(["prefer", "finish", "nofinish"]))
        m = " {%s}" % ", ".join(marks) if marks else ""
        if kind < 0.45:
            decl.append("%s: %s%s;" % (n, _q(words[j]), m))
        elif kind < 0.8:
            decl.append("%s: /%s%s/%s;" % (n, words[j], rng.choice(["", "+", "*b?", "[a-z]*"]), m))
        else:
            decl.append("%s: /[a-z]+/%s;" % (n, m))
    kwdecl = "KEYWORD: /\\w+/;\n" if rng.random() < 0.3 else ""
    text = "S: S I | I;\nI: %s;\nterminals\n%s%s" % (" | ".join(names), kwdecl, "\n".join(decl))
    inputs = [" ".join(rng.choice(words) for _ in range(rng.randint(1, 4))) for _ in range(5)]
    inputs.append("".join(rng.choice(words) for _ in range(3)))
    return ("lex%d" % i, text, inputs)


def gen_jobs(ctx):
    rng = ctx.rng
    quick = ctx.quick()
    cases = []      # (family, name, text, inputs)
    for n, t in gramgen.CURATED:
        alpha = gramgen.alphabet_of(t)
        ins = list(gramgen.all_strings(alpha, 4 if len(alpha) <= 2 else 3))
        if len(ins) > 24:
            rng.shuffle(ins)
            ins = sorted(ins[:24])
        cases.append(("curated", n, t, ins))
    for n, t in CLASSICS:
        alpha = gramgen.alphabet_of(t) or ["a", "if", "1"]
        ins = [" ".join(rng.choice(alpha) for _ in range(rng.randint(1, 5))) for _ in range(8)]
        cases.append(("classic", n, t, sorted(set(ins))))
    for n, t in MALFORMED:
        cases.append(("malformed", n, t, []))
    n_small = 60 if quick else 600
    for i in range(n_small):
        r = gramgen.random_grammar(rng, max_nt=3, max_alts=3, max_rhs=3,
                                   p_empty=rng.choice([0.0, 0.15, 0.3]))
        if r is None:
            continue
        prods, text = r
        ins = list(gramgen.all_strings(["a", "b"], 2))
        for _ in range(10):
            s = gramgen.random_sentence(rng, prods, max_depth=5, max_len=8)
            if s is not None and s not in ins:
                ins.append(s)
        cases.append(("small", "rand%d" % i, text, ins))
    from lib import glrcases
    for e in glrcases.corpus():
        ins = [e["alphabet"] * k for k in range(e["maxlen"] + 1)] if len(e["alphabet"]) == 1 else \
            list(gramgen.all_strings(list(e["alphabet"]), 4))
        cases.append(("corpus", e["name"], e["text"], ins))
    for i in range(max(n_small // 3, 60)):
        # nullable rules on top of an ambiguous/recursive symbol: the GLR revisit sets
        # (several already-processed heads traversing one state) are exercised here
        r = gramgen.unary_nullable_grammar(rng, two_nts=True if i % 2 else None)
        if r is None:
            continue
        cases.append(("unary", "unary%d" % i, r[1], ["b" * k for k in range(0, 8)]))
    for i in range(20 if quick else 200):
        r = gramgen.nullable2_grammar(rng)
        if r is not None:
            cases.append(("nullable2", "null2_%d" % i, r[1], list(gramgen.all_strings(["a", "b"], 4))))
    # import-based grammars: terminals with the same unqualified name in different modules
    for i in range(12 if quick else 120):
        r1, r2 = rng.sample([r"[a-z]+", r"[a-z0-9]+", r"\\w+", r"[a-c]+", r"[a-z]\\w*"], 2)
        nm = rng.choice(["W", "WORD", "Tok", "id"])
        rules = ["S: A m1.%s | A m2.%s | m1.X | m2.Y" % (nm, nm), "A: 'x'"]
        if rng.random() < 0.5:
            rules[0] += " | A B m2.%s m1.%s" % (nm, nm)
            rules.append("B: 'x' | EMPTY")
        files = {"root.pg": "import 'm1.pg' as m1;\nimport 'm2.pg' as m2;\n" + ";\n".join(rules) + ";\n",
                 "m1.pg": "X: 'p' %s;\nterminals\n%s: /%s/;\n" % (nm, nm, r1),
                 "m2.pg": "Y: 'q' %s;\nterminals\n%s: /%s/;\n" % (nm, nm, r2)}
        cases.append(("imports", "imp%d" % i, {"files": files, "root": "root.pg"},
                      ["x abc", "x ab1", "p abc", "q a1", "x x ab ab", "x"]))
    n_wide = 50 if quick else 500
    for i in range(n_wide):
        for gen, fam in ((gen_operator, "operators"), (gen_statements, "statements"),
                         (gen_wide_random, "wide"), (gen_lexical, "lexical")):
            r = gen(rng, i)
            if r is not None:
                cases.append((fam, r[0], r[1], r[2]))
    # reduce/reduce conflicts settled by production priorities, the two completed items having different
    # lookahead sets: every lookahead of the winner keeps its REDUCE whatever order the sets are walked in
    for i in range(8 if quick else 60):
        las = rng.sample(["'x'", "'y'", "'z'", "'w'", "'v'", "'u'"], rng.randint(3, 6))
        shared = rng.sample(las, rng.randint(1, 2))
        pa, pb = sorted(rng.sample([3, 5, 8, 12, 15], 2))        # A, with the larger lookahead set, loses
        alts = ["A %s" % t for t in las] + ["B %s" % t for t in shared]
        if i % 4 >= 2:
            rng.shuffle(alts)
        rules = ["A: 'a' {%d}" % pa, "B: 'a' {%d}" % pb]
        if i % 2:
            rules.reverse()
        text = "S: %s;\n%s;" % (" | ".join(alts), ";\n".join(rules))
        cases.append(("rrprio", "rrprio%d" % i, text, ["a " + t.strip("'") for t in las] + ["a", "a a"]))
    # consume_input off: one parse accepts several sentence prefixes (several accepted heads whose
    # root links are folded into one forest root): the order of the forest's trees must not depend
    # on the process either
    for n, t, alpha in [("pre_list", "S: S 'a' | 'a';", "a"), ("pre_a_aa", "S: 'a' | 'a' 'a' | S S;", "a"),
                        ("pre_ab", "S: A | S A; A: 'a' | 'a' 'b' | 'b';", "ab"),
                        ("pre_null", "S: A S | EMPTY; A: 'a' | 'a' 'a';", "a")]:
        cases.append(("prefix", n, t, list(gramgen.all_strings(list(alpha), 5 if len(alpha) == 1 else 4))))
    jobs = []
    for k, (fam, name, text, ins) in enumerate(cases):
        opts = {"tables": 0 if rng.random() < 0.3 else 1, "ps": rng.random() < 0.4,
                "pse": rng.random() < 0.4, "lexdis": rng.random() < 0.8}
        if fam == "prefix" or (fam in ("small", "curated", "unary", "nullable2") and rng.random() < 0.25):
            opts["consume"] = False
        jobs.append({"fam": fam, "name": name, "gtext": text, "opts": opts, "inputs": ins})
        if fam in ("corpus", "unary"):
            # the grammars on which order-dependent GLR behaviour was seen before: also under GLRParser's
            # default options, whatever the random draw above gave
            jobs.append({"fam": fam, "name": name + "_dflt", "gtext": text, "inputs": ins,
                         "opts": {"tables": 1, "ps": False, "pse": False, "lexdis": False}})
    return jobs


# ------------------------------------------------------------------ comparison
def _timed_out(o):
    return "Timeout" in str(o.get("gerr")) or "Timeout" in str(o.get("lr")) or \
        any("Timeout" in str(c.get("status")) or "Timeout" in str(c.get("lr")) for c in o.get("inputs") or [])


def diff_obs(a, b):
    """names of the observables in which two observation records differ (a record in which a
    wall-clock limit fired is not comparable: counted by the caller, never a verdict)"""
    out = []
    if _timed_out(a) or _timed_out(b):
        return out
    for k in sorted(set(a) | set(b)):
        if k == "inputs" or k.startswith("_"):
            continue
        if a.get(k) != b.get(k):
            out.append(k)
    ia, ib = a.get("inputs") or [], b.get("inputs") or []
    if len(ia) != len(ib):
        out.append("inputs")
    else:
        for i, (x, y) in enumerate(zip(ia, ib)):
            for k in sorted(set(x) | set(y)):
                if x.get(k) != y.get(k):
                    out.append("input[%d].%s" % (i, k))
    return out


def _kind(d):
    """group differences for the violation key"""
    ks = set()
    for x in d:
        ks.add(x.split(".")[-1] if x.startswith("input[") else x)
    return "+".join(sorted(ks))


def search_seed(job, ref_obs, n=64):
    """look for a real PYTHONHASHSEED under which the job's observables differ from ref_obs"""
    j = dict(job, dump=False, repeat=False, perms=[])
    seeds = list(range(100, 100 + n))
    try:
        res = run_all_seeds(seeds, [[j]] * n, par=common.NPROC)
    except Exception:  # noqa
        return None
    for s, r in zip(seeds, res):
        d = diff_obs(ref_obs, r[0]["obs"])
        if d:
            return s, d
    return None


def run(ctx):
    quick = ctx.quick()
    rng = ctx.rng
    jobs = gen_jobs(ctx)
    n_seeds = 4 if quick else 32
    # seed 0 is the reference process; the others are drawn from the run's generator
    seeds = [0] + rng.sample(range(1, 4294967295), n_seeds - 1)
    perms = [-1, -2] + [rng.randrange(1 << 30) for _ in range(1 if quick else 3)]
    primary = [dict(j, dump=True, repeat=True, perms=perms) for j in jobs]
    plain = [dict(j, dump=False, repeat=False, perms=[]) for j in jobs]
    # quick: every job in all 4 processes.  thorough: every job in 8 processes, and the third of the
    # jobs with the most terminals in 24 more
    full = n_seeds if quick else 8
    def _txt(k):
        gt = jobs[k]["gtext"]
        return gt if isinstance(gt, str) else "\n".join(gt["files"].values())
    order = sorted(range(len(jobs)), key=lambda k: -len(set(gramgen.alphabet_of(_txt(k))) |
                                                     set(_txt(k).split("'")[1::2])))
    subset = sorted(order[:len(jobs) // 3])
    index = [list(range(len(jobs)))] * full + [subset] * (n_seeds - full)
    joblists = [primary] + [plain] * (full - 1) + [[plain[k] for k in subset]] * (n_seeds - full)
    raw = run_all_seeds(seeds, joblists, par=4)
    results = [dict(zip(index[i], raw[i])) for i in range(len(seeds))]
    st = {"jobs": len(jobs), "jobs_in_every_process": len(jobs), "processes_for_every_job": full,
          "jobs_in_the_additional_processes": len(subset) if n_seeds > full else 0, "seeds": seeds, "perm_orders": perms, "families": {}, "grammar_errors": 0,
          "timeouts_not_compared": 0, "tables": 0, "states": 0, "tables_with_conflicts": 0, "max_lookahead_set": 0,
          "lookahead_ge4": 0, "inputs": 0, "forests": 0, "ambiguous_forests": 0, "syntax_errors": 0,
          "other_input_outcomes": {}, "lr_outcomes": {}, "cross_seed_differences": 0,
          "repeat_differences": 0, "perm_differences": 0, "model_cases": 0, "model_disagreements": 0,
          "sort_hypothesis_fails": 0, "unsorted_order_dependent_states": 0}
    evaluations = 0
    distinct = set()
    samples = []
    mcases, meta = [], []
    ref = results[0]
    raw_text_diff = set()
    searches = {}
    for ji, job in enumerate(jobs):
        r0 = ref[ji]
        o0 = r0["obs"]
        st["families"][job["fam"]] = st["families"].get(job["fam"], 0) + 1
        if any(_timed_out(results[si][ji]["obs"]) for si in range(len(seeds)) if ji in results[si]):
            st["timeouts_not_compared"] += 1
        rep = {"grammar": job["gtext"], "opts": job["opts"], "inputs": job["inputs"], "name": job["name"]}
        # ---- property oracle 1: identical in every process
        for si in range(1, len(seeds)):
            if ji not in results[si]:
                continue
            o = results[si][ji]["obs"]
            evaluations += 1
            if o0.get("_conflict_text_raw") != o.get("_conflict_text_raw"):
                raw_text_diff.add(ji)
            d = diff_obs(o0, o)
            if d:
                st["cross_seed_differences"] += 1
                ctx.violation("observables differ between PYTHONHASHSEED=%s and PYTHONHASHSEED=%s: %s"
                              % (seeds[0], seeds[si], ", ".join(d[:6])),
                              dict(rep, hashseeds=[seeds[0], seeds[si]], differing=d,
                                   obs_a=o0, obs_b=o), key="seed:" + _kind(d))
        # ---- property oracle 2: repeated construction in one process
        evaluations += 1
        d = diff_obs(o0, r0["again"])
        if d:
            st["repeat_differences"] += 1
            ctx.violation("second construction in the same process differs: %s" % ", ".join(d[:6]),
                          dict(rep, hashseeds=[seeds[0]], differing=d, obs_a=o0, obs_b=r0["again"]),
                          key="repeat:" + _kind(d))
        # ---- injected set iteration orders (the model's oracle, executed on the impl)
        for ps, o in r0["perm"]:
            evaluations += 1
            d = diff_obs(o0, o)
            if d:
                st["perm_differences"] += 1
                found = None
                if searches.get(_kind(d), 0) < 2:       # budget: two searches per kind of difference
                    searches[_kind(d)] = searches.get(_kind(d), 0) + 1
                    found = search_seed(job, o0, 32 if quick else 64)
                if found:
                    ctx.violation("observables depend on set iteration order (injected order %d), reproduced with "
                                  "PYTHONHASHSEED=%d vs 0: %s" % (ps, found[0], ", ".join(found[1][:6])),
                                  dict(rep, hashseeds=[0, found[0]], differing=found[1], perm=ps),
                                  key="perm-seed:" + _kind(d))
                else:
                    ctx.violation("observables depend on the iteration order of a set (injected order %d; no hash seed "
                                  "among those tried reproduces it): %s" % (ps, ", ".join(d[:6])),
                                  dict(rep, perm=ps, differing=d, obs_a=o0, obs_b=o), no_input=True,
                                  key="perm:" + _kind(d))
        if o0["gerr"]:
            st["grammar_errors"] += 1
            continue
        st["tables"] += 1
        st["states"] += o0["n_states"]
        st["max_lookahead_set"] = max(st["max_lookahead_set"], o0["maxla"])
        if o0["maxla"] >= 4:
            st["lookahead_ge4"] += 1
        if o0["n_conf"]:
            st["tables_with_conflicts"] += 1
        st["lr_outcomes"][o0["lr"].split(":")[0]] = st["lr_outcomes"].get(o0["lr"].split(":")[0], 0) + 1
        if o0["maxla"] >= 2:
            distinct.add((json.dumps(job["gtext"], sort_keys=True), json.dumps(job["opts"], sort_keys=True)))
        for c in o0["inputs"]:
            st["inputs"] += 1
            if c["status"] == "forest":
                st["forests"] += 1
                if c["n"] > 1:
                    st["ambiguous_forests"] += 1
            elif c["status"] == "SyntaxError":
                st["syntax_errors"] += 1
            else:
                st["other_input_outcomes"][c["status"]] = st["other_input_outcomes"].get(c["status"], 0) + 1
        # ---- correspondence with the model
        dt = r0["detail"]
        if dt["prod0"][-1:] != [[0, dt["conf"][3]]]:
            ctx.violation("production 0 of the grammar is not S' -> start STOP after construction",
                          dict(rep, prod0=dt["prod0"]), no_input=True, key="prod0")
        arg = [dt["conf"], dt["tin"]]
        mcases.append((160, arg))
        meta.append(("build", ji, None))
        rev = [dt["conf"], [[s[0], s[1], s[2], s[3], [list(reversed(f)) for f in s[4]]] for s in dt["tin"]]]
        mcases.append((160, rev))
        meta.append(("build-rev", ji, None))
        mcases.append((161, arg))
        meta.append(("unsorted", ji, None))
        mcases.append((161, rev))
        meta.append(("unsorted-rev", ji, None))
        if len(samples) < 3 and 3 <= o0["n_states"] <= 9 and o0["maxla"] >= 2:
            samples.append({"grammar": job["gtext"], "opts": job["opts"], "inputs": job["inputs"][:4],
                            "table_sha256": o0["ser"], "states": o0["n_states"],
                            "observed_in_processes_with_PYTHONHASHSEED": seeds,
                            "forests": [(c["status"], c.get("n")) for c in o0["inputs"][:4]]})
    st["conflict_report_text_differs_only_in_set_display_order"] = len(raw_text_diff)
    if raw_text_diff:
        ctx.notes.append("observation (not a violation: the reports mean the same thing): str(SRConflict/RRConflict) "
                         "prints each item's lookahead set in set iteration order (LRItem.__str__), so the raw text of "
                         "a conflict report differed between hash seeds for %d grammars; identical after sorting the "
                         "members of each printed set" % len(raw_text_diff))
    outs = common.model_run(mcases)
    st["model_cases"] = len(mcases)
    unsorted = {}
    for (kind, ji, _), o in zip(meta, outs):
        job = jobs[ji]
        dt = ref[ji]["detail"]
        rep = {"grammar": job["gtext"], "opts": job["opts"], "name": job["name"]}
        if kind in ("build", "build-rev"):
            evaluations += 1
            m_rows = [s[0] for s in o[0]]
            m_flags = [s[1] for s in o[0]]
            problems = []
            if m_rows != dt["rows"]:
                bad = [i for i, (a, b) in enumerate(zip(m_rows, dt["rows"])) if a != b][:3]
                problems.append(("rows", bad, [m_rows[i] for i in bad], [dt["rows"][i] for i in bad]))
            if m_flags != dt["flags"]:
                problems.append(("finish_flags", None, m_flags, dt["flags"]))
            if o[1] != dt["sr"]:
                problems.append(("sr_conflicts", None, o[1], dt["sr"]))
            if o[2] != dt["rr"]:
                problems.append(("rr_conflicts", None, o[2], dt["rr"]))
            if bytes(o[3]) != dt["ser"].encode():
                problems.append(("bytes", None, bytes(o[3]).decode(errors="replace")[:300], dt["ser"][:300]))
            if problems:
                st["model_disagreements"] += 1
                ctx.violation("model (%s lookahead order) and impl disagree on %s"
                              % ("reversed" if kind == "build-rev" else "sorted",
                                 ", ".join(p[0] for p in problems)),
                              dict(rep, problems=[list(p) for p in problems[:3]]), no_input=True,
                              key="model:" + "+".join(p[0] for p in problems))
            if kind == "build" and not all(o[4]):
                st["sort_hypothesis_fails"] += 1
                ctx.violation("two terminals of one row have the same sort key (hypothesis of "
                              "C16_sort_state_actions_order_indep fails on the impl's table)",
                              dict(rep, states=[i for i, x in enumerate(o[4]) if not x]), no_input=True,
                              key="keys")
        else:
            unsorted.setdefault(ji, []).append(o)
    for ji, (a, b) in unsorted.items():
        st["unsorted_order_dependent_states"] += sum(1 for x, y in zip(a, b) if x != y)
    nx, xok, xlog = common.coq_crosscheck("C16", mcases, outs, ctx.rng, sample=16 if quick else 60)
    if not xok:
        ctx.violation("extraction cross-check failed", {"log": xlog}, no_input=True)
    # ==== table_build_correspondence under other hash seeds ================================
    # the Gallina model of create_table is a function of the ORDERED grammar
    # (C16_table_build_is_a_function); the impl, run in processes with other PYTHONHASHSEEDs, must
    # still build exactly the model's table (harness/lib/tabcorr.py)
    from lib import tabcorr
    tab_seeds = tabcorr.run_seeds(ctx, seeds=tuple(rng.sample(range(1, 4294967295), 2 if quick else 6)),
                                  n_jobs=120 if quick else 1200)
    # ==== end ================================================================================
    return {
        "evaluations": evaluations,
        "distinct_nontrivial": len(distinct),
        "table_build_correspondence_hash_seeds": tab_seeds,
        "rule": "curated/classic grammars, malformed grammar texts, seeded random small and unary-nullable grammars, and "
                "C16 families with wide lookahead sets and hash-reordered terminal names (operator tables with "
                "priorities/associativity/nops, statement lists with nullable tails, random grammars over 5-12 terminals, "
                "lexical families with string/regex/keyword terminals and priorities), random SLR/LALR, prefer_shifts, "
                "prefer_shifts_over_empty, lexical_disambiguation; each with sentence-biased and junk inputs; "
                "non-trivial = table built and some lookahead set has >= 2 terminals; distinct by (grammar, options)",
        "samples": samples,
        "traces_validated_against_impl": st["tables"],
        "distribution": st,
        "crosscheck_vm_compute_cases": nx,
        "exhaustive": False,
    }


def replay(ctx, rep):
    job = {"name": rep.get("name", "replay"), "gtext": rep["grammar"], "opts": rep["opts"],
           "inputs": rep.get("inputs", []), "dump": False, "repeat": True,
           "perms": [rep["perm"]] if "perm" in rep else []}
    seeds = rep.get("hashseeds") or [0, 1]
    res = run_all_seeds(seeds, [[job]] * len(seeds), par=4)
    rc = 0
    for s, r in zip(seeds[1:], res[1:]):
        d = diff_obs(res[0][0]["obs"], r[0]["obs"])
        print("PYTHONHASHSEED %s vs %s:" % (seeds[0], s), d or "identical")
        rc = rc or (1 if d else 0)
    d = diff_obs(res[0][0]["obs"], res[0][0]["again"])
    print("repeated construction:", d or "identical")
    rc = rc or (1 if d else 0)
    for ps, o in res[0][0]["perm"]:
        d = diff_obs(res[0][0]["obs"], o)
        print("injected order %d:" % ps, d or "identical")
        rc = rc or (1 if d else 0)
    return rc
