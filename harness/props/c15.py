"""C15 -- Parsers are reusable and grammars are not corrupted by building parsers."""
import multiprocessing as mp
import os

from lib import common, gramgen

LEVEL = "proof"
ASSUMPTIONS = [
    "theorems (Properties/C15.v) are about the Gallina model Model/Reuse.v: FIRST/FOLLOW, the FIRST cache, the "
    "augmented production rewritten by create_table, Parser.__init__ (LAYOUT sub-parser, main table, conflict check), "
    "the instance fields of Parser.parse with default error recovery, and the transient-field protocol of GLRParser.parse; "
    "they hold for EVERY item-set machinery `core` (a parameter receiving exactly what create_table passes on: "
    "productions with the swapped augmented production, options, FIRST, FOLLOW), every history length and every input",
    "the tie to /repo is differential: per generated grammar and history the extracted model predicts, after every step, "
    "productions[0].rhs, presence and content of grammar._first_sets, FOLLOW, the outcome of every construction "
    "(exception kind or which table), the result/errors/raised error of every LR parse (model LR driver + recovery) and "
    "the set of instance attributes present on both subjects; `core` is instantiated by an oracle computed with the "
    "impl's create_table on fresh Grammar objects (keyed by start production, options, swapped production and FOLLOW)",
    "the GLR driver is not modelled: GLR probe results are compared impl-after-history vs impl-on-fresh-objects only "
    "(property oracle), the model covers the attribute protocol of GLRParser.parse",
    "interrupted constructions are produced with the state-budget hook PARGLARE_VERIF_MAX_STATES (an exception raised "
    "inside _create_table between swap and restore, like KeyboardInterrupt/timeouts); since the fix (try/finally in "
    "create_table) they are ordinary history steps: C15_history covers them and the impl must behave like fresh objects",
    "recognizers are an oracle: the match matrix is computed with the impl's own recognizer objects",
]

FUEL = 4000
FF_FUEL = 200
BUDGET = 300            # state budget of every construction that is not meant to be interrupted
PARSE_LIMIT = 2

LAYOUTS = [
    None,
    "LAYOUT: LayoutItem | LAYOUT LayoutItem | EMPTY;\nLayoutItem: WS | Comment;\nterminals\nWS: /\\s+/;\n"
    "Comment: /#[^\\n]*/;",
    "LAYOUT: WS | EMPTY;\nterminals\nWS: /[ \\n]+/;",
    "LAYOUT: LayoutItem LAYOUT | EMPTY;\nLayoutItem: WS | '%';\nterminals\nWS: /\\s/;",
]

CURATED = [
    ("expr", "E: E '+' E | E '*' E | 'n';"),
    ("list", "S: S 'a' | 'a' B | EMPTY; B: 'b' | EMPTY;"),
    ("lalr_not_slr", "S: L '=' R | R; L: '*' R | 'i'; R: L;"),
    ("lr1", "S: 'a' A 'd' | 'b' B 'd' | 'a' B 'e' | 'b' A 'e'; A: 'c'; B: 'c';"),
    ("nullable3", "S: A A A | EMPTY; A: S 'b' | EMPTY;"),
    ("dangling", "S: 'i' S | 'i' S 'e' S | 'x';"),
    ("unproductive", "S: A 'a' | 'b'; A: A 'a';"),
    ("unproductive2", "S: 'a' B; B: B;"),
    ("slr_follow", "S: A 'a' | 'b' A 'c' | 'd' 'c' | 'b' 'd' 'a'; A: 'd';"),
    ("stmt", "P: St P | St; St: 'i' '=' Ex 'z'; Ex: Ex '+' 'i' | 'i';"),
]

ALL_BUILDS = [(glr, slr, ps, pse) for glr in (0, 1) for slr in (0, 1) for ps in (0, 1) for pse in (0, 1)]
PROBE_BUILDS = [(0, 1, 1, 1), (0, 0, 1, 1), (1, 1, 0, 0), (1, 0, 0, 0), (0, 1, 0, 0)]

LR_FIELDS = ["errors", "in_error_recovery", "parse_stack"]
GLR_FIELDS = ["errors", "_in_error_reporting", "_expected", "_tokens_ahead", "_last_shifted_heads",
              "_for_shifter", "_accepted_heads", "_active_heads", "_active_heads_per_symbol",
              "_for_actor", "_states_traversed"]


class UserBoom(Exception):
    pass


# ------------------------------------------------------------------ impl side
class World:
    """One Grammar object with the user callbacks ("the same actions") bound to it."""

    def __init__(self, gtext):
        from parglare import Grammar
        from lib import impl
        self.g = Grammar.from_string(gtext)
        self.gi = impl.GInfo(self.g)
        self.ctl = {"n": 0, "raise_at": None, "tn": 0, "traise_at": None}
        lay = self.layout_symbols()
        ctl = self.ctl

        def act(context, x, *rest, **kw):
            n = ctl["n"]
            ctl["n"] = n + 1
            if ctl["raise_at"] is not None and n == ctl["raise_at"]:
                raise UserBoom()
            return x

        def tokrec(head, get_tokens):
            ctl["tn"] += 1
            if ctl["traise_at"] is not None and ctl["tn"] == ctl["traise_at"]:
                raise UserBoom()
            return get_tokens()

        self.tokrec = tokrec
        self.actions = {}
        for name in list(self.g.nonterminals.keys()) + list(self.g.terminals.keys()):
            if name in ("S'", "STOP", "EMPTY") or name in lay:
                continue
            self.actions[name] = act

    def layout_symbols(self):
        g = self.g
        if g.get_symbol("LAYOUT") is None:
            return set()
        reach = {"LAYOUT"}
        changed = True
        while changed:
            changed = False
            for p in g.productions:
                if p.symbol.name in reach:
                    for s in list.__iter__(p.rhs):
                        if s.name not in reach and s.name != "EMPTY":
                            reach.add(s.name)
                            changed = True
        return reach

    def build(self, glr, slr, ps, pse, recovery=False, budget=BUDGET):
        from parglare import GLRParser, Parser
        from parglare.tables import LALR, SLR
        from lib import impl
        os.environ["PARGLARE_VERIF_MAX_STATES"] = str(budget)
        try:
            with impl.time_limit(20), impl.quiet():
                if glr:
                    return GLRParser(self.g, tables=SLR if slr else LALR, prefer_shifts=bool(ps),
                                     prefer_shifts_over_empty=bool(pse), error_recovery=recovery,
                                     actions=self.actions, custom_token_recognition=self.tokrec)
                return Parser(self.g, tables=SLR if slr else LALR, prefer_shifts=bool(ps),
                              prefer_shifts_over_empty=bool(pse), error_recovery=recovery,
                              build_tree=True, call_actions_during_tree_build=True, actions=self.actions)
        finally:
            os.environ["PARGLARE_VERIF_MAX_STATES"] = str(BUDGET)

    def gstate(self):
        """(productions[0].rhs, FIRST cache dump or None)"""
        from parglare.grammar import EMPTY
        g, gi = self.g, self.gi
        aug = [gi.sym(s) for s in list.__iter__(g.productions[0].rhs)]
        cache = None
        if hasattr(g, "_first_sets"):
            cache = dump_symtab(g._first_sets, gi)
        return [aug, cache]


def dump_symtab(tab, gi):
    """dict symbol -> set of terminals, restricted to nonterminals, as sorted id lists"""
    return [sorted(gi.term_index(t) for t in tab.get(nt, ())) for nt in gi.nonterms]


def build_outcome(f):
    from lib import impl
    try:
        p = f()
        return "ok", p
    except BaseException as e:  # noqa
        k = impl.exc_kind(e)
        return {"GrammarError": "GrammarError", "VerifStateBudgetExceeded": "Interrupted",
                "SRConflicts": "SRConflicts", "RRConflicts": "RRConflicts"}.get(k, "exc:" + k), None


def lr_parse(world, p, w, raise_at, limit=None):
    import parglare
    from lib import impl
    world.ctl["n"] = 0
    world.ctl["raise_at"] = raise_at
    try:
        with impl.time_limit(limit or PARSE_LIMIT):
            t = p.parse(w)
        r = ["ok", impl.node_sx(t, world.gi),
             [[e.location.start_position, e.location.end_position] for e in p.errors]]
    except parglare.SyntaxError as e:
        r = ["SyntaxError", e.location.start_position]
    except parglare.DisambiguationError as e:
        # (the impl locates this error at the span of the last stack node, the model at the scanned
        #  position: the kind is compared with the model, the impl's location with the fresh parser's)
        r = ["DisambiguationError", None, e.location.start_position]
    except UserBoom:
        r = ["raised"]
    except BaseException as e:  # noqa
        r = ["exc:" + impl.exc_kind(e)]
    finally:
        world.ctl["raise_at"] = None
    return r, [1 if f in p.__dict__ else 0 for f in LR_FIELDS]


def glr_parse(world, p, w, traise_at, limit=None):
    import parglare
    from lib import impl
    world.ctl["tn"] = 0
    world.ctl["traise_at"] = traise_at
    try:
        with impl.time_limit(limit or PARSE_LIMIT):
            f = p.parse(w)
        trees = []
        try:
            n = f.solutions
            for i in range(min(n, 3)):
                trees.append(impl.tree_sx(f[i], world.gi))
        except BaseException as e:  # noqa
            n = "exc:" + impl.exc_kind(e)
        r = ["ok", n, trees, [[e.location.start_position, e.location.end_position] for e in p.errors]]
    except parglare.SyntaxError as e:
        r = ["SyntaxError", e.location.start_position,
             sorted(s.name for s in (e.symbols_expected or []))]
    except UserBoom:
        r = ["raised"]
    except BaseException as e:  # noqa
        r = ["exc:" + impl.exc_kind(e)]
    finally:
        world.ctl["traise_at"] = None
    return r, [1 if f in p.__dict__ else 0 for f in GLR_FIELDS]


def oracle_tables(gtext, cand_augs, bkeys, layout_prod):
    """The item-set machinery as an oracle: for every candidate value of productions[0].rhs on entry and
    every (start_production, lr1, ps, pse), run the impl's create_table on a FRESH Grammar object whose
    productions[0].rhs has been set to that value.  Returns entries (key, table dump | None)."""
    from parglare import Grammar
    from parglare.closure import LR_0, LR_1
    from parglare.grammar import ProductionRHS
    from parglare.tables import create_table, first, follow
    from lib import impl
    entries = []
    ff = []
    for aug_names in cand_augs:
        g = Grammar.from_string(gtext)
        gi = impl.GInfo(g)
        byname = dict(g.nonterminals)
        byname.update(g.terminals)
        g.productions[0].rhs = ProductionRHS([byname[n] for n in aug_names])
        fs = first(g)
        fo = follow(g, fs)
        ff.append([[gi.sym(byname[n]) for n in aug_names], dump_symtab(fs, gi), dump_symtab(fo, gi)])
        fo_d = dump_symtab(fo, gi)
        for (start, lr1, ps, pse, lexdis) in bkeys:
            g2 = Grammar.from_string(gtext)
            gi2 = impl.GInfo(g2)
            byname2 = dict(g2.nonterminals)
            byname2.update(g2.terminals)
            g2.productions[0].rhs = ProductionRHS([byname2[n] for n in aug_names])
            swapped = [gi2.sym(g2.productions[start].symbol), [0, impl.stop_id(gi2)]]
            key = [start, lr1, ps, pse, lexdis, swapped, fo_d]
            os.environ["PARGLARE_VERIF_MAX_STATES"] = str(BUDGET)
            try:
                with impl.time_limit(20), impl.quiet():
                    kw = {}
                    if start != layout_prod:
                        kw["lexical_disambiguation"] = bool(lexdis)
                    tab = create_table(g2, LR_1 if lr1 else LR_0, start, bool(ps), bool(pse), **kw)
                entries.append([key, impl.dump_table(tab, gi2),
                                [1 if tab.sr_conflicts else 0, 1 if tab.rr_conflicts else 0]])
            except BaseException as e:  # noqa
                k = impl.exc_kind(e)
                if k == "GrammarError":
                    entries.append([key, "GrammarError", None])
                else:
                    entries.append([key, "fail:" + k, None])
    return entries, ff


def _worker(job):
    gname, gtext, sub, history, probes = job
    from lib import impl
    out = {"gname": gname, "gtext": gtext, "gerr": None, "sub": sub, "history": history, "probes": probes}
    os.environ["PARGLARE_VERIF_MAX_STATES"] = str(BUDGET)
    try:
        with impl.time_limit(20):
            W = World(gtext)
            F = World(gtext)          # the "fresh objects" world: never sees the history
    except BaseException as e:  # noqa
        out["gerr"] = impl.exc_kind(e)
        return out
    g, gi = W.g, W.gi
    from parglare.grammar import EMPTY, STOP
    layout_prod = None
    if g.get_symbol("LAYOUT") is not None:
        layout_prod = g.get_production_id("LAYOUT")
    out["static"] = {
        "prods": gi.productions(), "nts": list(range(len(gi.nonterms))),
        "aug_nt": gi.sym(g.productions[0].symbol)[1], "stop": gi.term_index(STOP),
        "empty": gi.term_index(EMPTY), "layout_prod": layout_prod,
        "model_grammar": impl.model_grammar(gi), "terms": impl.dump_terms(gi),
    }
    aug0_names = [s.name for s in list.__iter__(g.productions[0].rhs)]
    cand = [aug0_names]
    if layout_prod is not None:
        cand.append(["LAYOUT", "STOP"])
    # which create_table calls can happen
    bkeys = []
    if layout_prod is not None:
        bkeys.append((layout_prod, 1, 1, 1, 1))
    allb = [tuple(sub["lr"]), tuple(sub["glr"])]
    allb += [tuple(op[1]) for op in history if op[0] == "build"]
    allb += [tuple(b) for b in probes["builds"]]
    for (glr, slr, ps, pse) in allb:
        k = (1, 0 if slr else 1, ps, pse, 0 if glr else 1)
        if k not in bkeys:
            bkeys.append(k)
    try:
        out["oracle"], out["ff"] = oracle_tables(gtext, cand, bkeys, layout_prod)
    except BaseException as e:  # noqa
        out["gerr"] = "oracle:" + impl.exc_kind(e)
        return out
    if any(isinstance(e[1], str) and e[1].startswith("fail:") for e in out["oracle"]):
        out["gerr"] = "oracle-build-failed"       # diverging/over-budget construction on fresh objects
        return out
    sizes = {}
    for e in out["oracle"]:
        if not isinstance(e[1], str):
            sizes.setdefault(e[0][0], len(e[1]))
    n_layout = sizes.get(layout_prod) if layout_prod is not None else None

    # ---- subjects (on the world under test and on the fresh world)
    steps = []          # everything that happened to W.g, in order, for the grammar machine

    def do_build(world, b, recovery=False, interrupt=0, record=True):
        budget = BUDGET
        if interrupt == 1:
            budget = 0
        elif interrupt == 2:
            budget = n_layout if n_layout is not None else 0
        kind, p = build_outcome(lambda: world.build(b[0], b[1], b[2], b[3], recovery=recovery, budget=budget))
        if record:
            steps.append({"build": list(b), "interrupt": interrupt, "outcome": kind,
                          "table": impl.dump_table(p.table, world.gi) if p is not None else None,
                          "ltable": impl.dump_table(p.layout_parser.table, world.gi)
                          if p is not None and p.layout_parser is not None else None,
                          "gstate": world.gstate()})
        return kind, p

    lr_b, glr_b = sub["lr"], sub["glr"]
    k1, P = do_build(W, lr_b, recovery=sub["recovery"])
    k2, Q = do_build(W, glr_b, recovery=sub["recovery"])
    _, PF = do_build(F, lr_b, recovery=sub["recovery"], record=False)
    _, QF = do_build(F, glr_b, recovery=sub["recovery"], record=False)
    out["lr_subject"] = k1
    out["glr_subject"] = k2
    if P is not None:
        out["lr_table"] = impl.dump_table(P.table, gi)
        out["lr_ltable"] = impl.dump_table(P.layout_parser.table, gi) if P.layout_parser is not None else None

    rxs = {}

    def rx(w):
        if w not in rxs:
            rxs[w] = impl.rx_matrix(gi, w)
        return rxs[w]

    lr_seq, glr_seq, other = [], [], []
    dead = set()        # a subject whose parse did not terminate is not used any further
    for op in history:
        if op[0] == "lr":
            if P is not None and "lr" not in dead:
                r, fields = lr_parse(W, P, op[1], op[2])
                lr_seq.append({"w": op[1], "raise_at": op[2], "res": r, "fields": fields, "rx": rx(op[1])})
                if r[0] == "exc:Timeout":
                    dead.add("lr")
        elif op[0] == "glr":
            if Q is not None and "glr" not in dead:
                r, fields = glr_parse(W, Q, op[1], op[2])
                glr_seq.append({"w": op[1], "raise_at": op[2], "res": r, "fields": fields})
                if r[0] == "exc:Timeout":
                    dead.add("glr")
        elif op[0] == "build":
            intr = op[2]
            if intr == 1 and layout_prod is None:
                intr = 2            # no LAYOUT automaton: the budget cuts the main one
            if intr == 2 and layout_prod is not None and sizes.get(1, 0) <= (n_layout or 0):
                continue            # the main automaton is not larger than the LAYOUT one: cannot cut there
            do_build(W, op[1], interrupt=intr)
        elif op[0] == "badgrammar":
            # a grammar error while loading another grammar exercises the module-level grammar parser
            from parglare import Grammar
            try:
                with impl.time_limit(10), impl.quiet():
                    Grammar.from_string(op[1])
                other.append("loaded")
            except BaseException as e:  # noqa
                other.append(impl.exc_kind(e))
    out["other"] = other

    # ---- probes: subjects, then new parsers, each against the fresh world
    pr = {"lr": [], "glr": [], "builds": [], "reload": None}
    for w in probes["inputs"]:
        if P is not None and PF is not None and "lr" not in dead:
            r, fields = lr_parse(W, P, w, None)
            rf, _ = lr_parse(F, PF, w, None)
            if (r[0] == "exc:Timeout") != (rf[0] == "exc:Timeout"):     # slow, not looping? retry both
                r, fields = lr_parse(W, P, w, None, limit=20)
                rf, _ = lr_parse(F, PF, w, None, limit=20)
            if r[0] == "exc:Timeout":
                dead.add("lr")
            lr_seq.append({"w": w, "raise_at": None, "res": r, "fields": fields, "rx": rx(w), "fresh": rf})
        if Q is not None and QF is not None and "glr" not in dead:
            r, fields = glr_parse(W, Q, w, None)
            rf, _ = glr_parse(F, QF, w, None)
            if (r[0] == "exc:Timeout") != (rf[0] == "exc:Timeout"):
                r, fields = glr_parse(W, Q, w, None, limit=20)
                rf, _ = glr_parse(F, QF, w, None, limit=20)
            if r[0] == "exc:Timeout":
                dead.add("glr")
            glr_seq.append({"w": w, "raise_at": None, "res": r, "fields": fields, "fresh": rf})
    for b in probes["builds"]:
        kind, p = do_build(W, b)
        kindf, pf = do_build(World(gtext), b, record=False)
        e = {"build": list(b), "outcome": kind, "fresh_outcome": kindf, "same_table": None, "parses": []}
        if p is not None and pf is not None:
            e["same_table"] = (impl.dump_table(p.table, gi) == impl.dump_table(pf.table, impl.GInfo(pf.grammar)))
            for w in probes["inputs"][:4]:
                if b[0]:
                    r, _ = glr_parse(W, p, w, None)
                    rf, _ = glr_parse(F, pf, w, None)
                    if (r[0] == "exc:Timeout") != (rf[0] == "exc:Timeout"):
                        r, _ = glr_parse(W, p, w, None, limit=20)
                        rf, _ = glr_parse(F, pf, w, None, limit=20)
                else:
                    r, _ = lr_parse(W, p, w, None)
                    rf, _ = lr_parse(F, pf, w, None)
                    if (r[0] == "exc:Timeout") != (rf[0] == "exc:Timeout"):
                        r, _ = lr_parse(W, p, w, None, limit=20)
                        rf, _ = lr_parse(F, pf, w, None, limit=20)
                e["parses"].append([w, r, rf])
        pr["builds"].append(e)
    # the grammar text still loads to the same Grammar after everything (module-level parser)
    try:
        W2 = World(gtext)
        pr["reload"] = (W2.gi.productions() == out["static"]["prods"])
    except BaseException as e:  # noqa
        pr["reload"] = "exc:" + impl.exc_kind(e)
    out["steps"] = steps
    out["lr_seq"] = lr_seq
    out["glr_seq"] = glr_seq
    out["probe"] = pr
    out["final_gstate"] = W.gstate()
    out["aug0"] = [gi.sym(s) for s in list.__iter__(F.g.productions[0].rhs)]
    return out


# ------------------------------------------------------------------ generation
def layout_variant(rng, s, lay):
    if lay is None or not s:
        return s if lay is None or rng.random() < 0.5 else rng.choice([" ", "\n", ""])
    seps = [" ", "\n", "  "]
    if "Comment" in lay:
        seps.append(" # c\n")
    if "'%'" in lay:
        seps.append("%")
    out = []
    for ch in s:
        out.append(ch)
        if rng.random() < 0.5:
            out.append(rng.choice(seps))
    return (rng.choice(seps) if rng.random() < 0.3 else "") + "".join(out)


def corrupt(rng, s, alpha):
    k = rng.randrange(4)
    pos = rng.randrange(len(s) + 1)
    if k == 0:
        return s[:pos] + rng.choice(["x", "xx", "?"]) + s[pos:]
    if k == 1 and s:
        return s[:pos] + s[pos + 1:]
    if k == 2:
        return s[:pos] + rng.choice(alpha) + s[pos:]
    return s + rng.choice(["x", ""]) + rng.choice(alpha)


def gen_jobs(ctx):
    rng = ctx.rng
    quick = ctx.quick()
    jobs = []
    specs = []
    for name, text in CURATED:
        for li in range(len(LAYOUTS)):
            specs.append((name + "+L%d" % li, text, LAYOUTS[li], gramgen.parse_text_prods(text)))
    nrand = 80 if quick else 3000
    for i in range(nrand):
        big = i % 3 == 0
        r = gramgen.random_grammar(rng, max_nt=4 if big else 3, max_alts=3, max_rhs=3,
                                   terms=("'a'", "'b'", "'c'") if big else ("'a'", "'b'"),
                                   p_empty=rng.choice([0.0, 0.15, 0.3]))
        if r is None:
            continue
        prods, text = r
        li = rng.choice([0, 1, 1, 2, 3])
        specs.append(("rand%d+L%d" % (i, li), text, LAYOUTS[li], prods))
    # lexically ambiguous terminals (several tokens of different length at one position): GLR pursues all of
    # them unless lexical disambiguation is on -- an option that must stay what the constructor was given
    for i in range(12 if quick else 200):
        r = gramgen.lexlen_grammar(rng) if i % 2 else gramgen.lexamb_grammar(rng)
        if r is not None:
            specs.append(("lex%d+L0" % i, r[1], LAYOUTS[0], None))
    maxh = 6 if quick else 10
    for name, text, lay, prods in specs:
        gtext = text + ("\n" + lay if lay else "")
        alpha = gramgen.alphabet_of(text) or ["a"]
        sents = []
        if prods is None:
            sents = [w for w in gramgen.all_strings(["a", "b"], 4) if w]
            rng.shuffle(sents)
            sents = sents[:10]
        else:
            for _ in range(10):
                s = gramgen.random_sentence(rng, prods, max_depth=5, max_len=8)
                if s is not None:
                    sents.append(s)
        sents = sents or [""]
        shorts = list(gramgen.all_strings(alpha[:3], 2))

        def an_input(kind=None):
            kind = kind or rng.choice(["sent", "sent", "bad", "short"])
            if kind == "sent":
                s = rng.choice(sents)
            elif kind == "bad":
                s = corrupt(rng, rng.choice(sents), alpha)
            else:
                s = rng.choice(shorts)
            return layout_variant(rng, s, lay)

        for hno in range(2 if quick else 3):
            sub = {"lr": (0, rng.randrange(2), 1, 1), "glr": (1, rng.randrange(2), 0, 0),
                   "recovery": rng.random() < 0.6}
            n = rng.randint(2, maxh)
            history = []
            for _ in range(n):
                k = rng.choice(["lr", "lr", "glr", "glr", "build", "build", "lrraise", "glrraise",
                                "interrupt", "badgrammar"])
                if k == "lr":
                    history.append(("lr", an_input(), None))
                elif k == "glr":
                    history.append(("glr", an_input(), None))
                elif k == "lrraise":
                    history.append(("lr", an_input("sent"), rng.randrange(0, 6)))
                elif k == "glrraise":
                    history.append(("glr", an_input("sent"), rng.choice([1, 1, 2, 3])))
                elif k == "build":
                    history.append(("build", rng.choice(ALL_BUILDS), 0))
                elif k == "interrupt":
                    if hno == 0 and rng.random() < 0.5:
                        continue          # keep a share of histories free of interrupts
                    history.append(("build", rng.choice(ALL_BUILDS), rng.choice([1, 2])))
                else:
                    history.append(("badgrammar", rng.choice(["S: 'a' | ;;", "S: A;", "S: 'a'", "S: S; S: 'b';;"])))
            probes = {"inputs": [an_input("sent"), an_input("bad"), an_input("short"), an_input()],
                      "builds": rng.sample(PROBE_BUILDS, 3)}
            jobs.append(("%s#%d" % (name, hno), gtext, sub, history, probes))
    return jobs


# ------------------------------------------------------------------ comparison
def tagged(tab, tag):
    return list(tab) + [[[0, tag], [], [], [], []]]


def model_cases(r):
    """the model cases of one worker result; returns (cases, meta)"""
    st = r["static"]
    cases, meta = [], []
    allp = st["prods"]
    # 150: FIRST/FOLLOW for every candidate value of productions[0].rhs
    for aug, fs, fo in r["ff"]:
        ps = [[allp[0][0], aug]] + allp[1:]
        cases.append((150, [ps, st["nts"], st["empty"], FF_FUEL]))
        meta.append(("ff", aug, fs, fo))
    # 151: grammar machine over all constructions on the world's grammar
    oracle = []
    tabs = {}
    for i, (key, tab, confl) in enumerate(r["oracle"]):
        if tab == "GrammarError":
            continue            # never looked up: create_table raises before reaching the machinery
        oracle.append([key, [1, tagged(tab, i)]])
        tabs[i] = tab
        cases.append((154, [[[allp[0][0], r["aug0"]]] + allp[1:], tab]))
        meta.append(("confl", i, confl))
    static = [allp[1:], st["nts"], st["aug_nt"], st["stop"], st["empty"],
              [] if st["layout_prod"] is None else [st["layout_prod"]], FF_FUEL]
    ops = [list(s["build"]) + [s["interrupt"]] for s in r["steps"]]
    cases.append((151, [static, r["aug0"], ops, oracle]))
    meta.append(("gm", tabs))
    # 152: LR subject
    if r["lr_subject"] == "ok" and r["lr_seq"]:
        lay = [] if r["lr_ltable"] is None else [r["lr_ltable"]]
        pconf = [st["model_grammar"], r["lr_table"], st["terms"], st["stop"], 1, 1,
                 [ord(c) for c in "\n\r\t "], lay]
        seq = [[[[ord(ch) for ch in e["w"]], e["rx"]], FUEL,
                [] if e["raise_at"] is None else [e["raise_at"]], 0] for e in r["lr_seq"]]
        cases.append((152, [pconf, 1 if r["sub"]["recovery"] else 0, seq]))
        meta.append(("lr",))
    # 153: GLR attribute protocol
    if r["glr_subject"] == "ok" and r["glr_seq"]:
        paths = []
        for e in r["glr_seq"]:
            k = e["res"][0]
            if k == "ok":
                paths.append([0, 0])
            elif k == "SyntaxError":
                paths.append([1, e["res"][1]])
            elif k == "raised":
                paths.append([2, 1, 1 if (e["raise_at"] or 0) >= 2 else 0])
            else:
                paths.append(None)
        cut = paths.index(None) if None in paths else len(paths)
        cases.append((153, [1, paths[:cut]]))
        meta.append(("glr", cut))
    return cases, meta


EXN = {1: "GrammarError", 2: "Interrupted", 3: "SRConflicts", 4: "RRConflicts", 5: "OutOfFuel"}


def model_lr_canon(o):
    tag = o[0]
    if tag == 0:
        return ["ok", o[1], [list(x) for x in o[3]]]
    if tag == 1:
        return ["SyntaxError", o[1]]
    if tag == 2:
        return ["DisambiguationError", None]
    if tag == 3:
        return ["raised"]
    if tag == 4:
        return ["SyntaxError", None]
    return ["crash", o[1]]


def compare(ctx, r, cases, meta, outs, st):
    rep0 = {"grammar": r["gtext"], "subjects": r["sub"], "history": r["history"], "probes": r["probes"]}
    interrupted_steps = [i for i, s in enumerate(r["steps"]) if s["outcome"] == "Interrupted"]
    corrupted = any(s["gstate"][0] != r["aug0"] for s in r["steps"])
    model_gm = None
    gm_bad = []
    for (cmd, arg), m, o in zip(cases, meta, outs):
        if m[0] == "ff":
            _, aug, fs, fo = m
            st["ff_compared"] += 1
            if o[0] != 1:
                ctx.violation("model FIRST/FOLLOW ran out of fuel", dict(rep0, aug=aug), no_input=True, key="ff-fuel")
            elif o[1] != fs or o[2] != fo:
                ctx.violation("FIRST/FOLLOW of the impl differ from the model's",
                              dict(rep0, aug=aug, impl_first=fs, model_first=o[1], impl_follow=fo,
                                   model_follow=o[2]), no_input=True, key="ff-diff")
        elif m[0] == "confl":
            if o != m[2]:
                ctx.violation("sr/rr conflict flags of an impl table differ from the model's", rep0,
                              no_input=True, key="confl-diff")
        elif m[0] == "gm":
            tabs = m[1]
            model_gm = o
            for i, (s, mo) in enumerate(zip(r["steps"], o)):
                res, gs = mo
                st["build_steps"] += 1
                st["build_outcomes"][s["outcome"]] = st["build_outcomes"].get(s["outcome"], 0) + 1
                m_out = "ok" if res[0] == 0 else EXN.get(res[0], "?")
                rep = dict(rep0, step=i, build=s["build"], interrupt=s["interrupt"])
                if m_out != s["outcome"]:
                    gm_bad.append(i)
                    ctx.violation("construction outcome: impl %s, model %s" % (s["outcome"], m_out),
                                  rep, no_input=True, key="gm-outcome")
                    continue
                if res[0] == 0:
                    mt = tabs.get(res[1])
                    mlt = tabs.get(res[2][0]) if res[2] else None
                    if mt != s["table"] or mlt != s["ltable"]:
                        gm_bad.append(i)
                        ctx.violation("construction after a history: the impl's table differs from the one the "
                                      "model predicts (oracle entry %r)" % res[1], rep, no_input=True,
                                      key="gm-table")
                m_aug = gs[0]
                m_cache = gs[1][0] if gs[1] else None
                if m_aug != s["gstate"][0]:
                    gm_bad.append(i)
                    ctx.violation("productions[0].rhs after a construction: impl %r, model %r"
                                  % (s["gstate"][0], m_aug), rep, no_input=True, key="gm-aug")
                if (m_cache is None) != (s["gstate"][1] is None) or \
                        (m_cache is not None and m_cache != s["gstate"][1]):
                    ctx.violation("grammar._first_sets after a construction differs from the model's cache",
                                  dict(rep, impl=s["gstate"][1], model=m_cache), no_input=True, key="gm-cache")
        elif m[0] == "lr":
            for i, (e, mo) in enumerate(zip(r["lr_seq"], o)):
                st["lr_parses"] += 1
                mres = model_lr_canon(mo[0])
                ires = list(e["res"])
                k = ires[0]
                st["lr_kinds"][k] = st["lr_kinds"].get(k, 0) + 1
                if k == "ok" and ires[2]:
                    st["lr_recovered"] += 1
                rep = dict(rep0, lr_parse_no=i, input=e["w"], raise_at=e["raise_at"])
                if mres[0] == "SyntaxError" and mres[1] is None and k == "SyntaxError":
                    pass
                elif k == "exc:Timeout" and mres == ["raised"] and e["raise_at"] is None:
                    st["lr_nonterminating"] += 1       # the LR driver loops (cyclic grammar): model out of fuel too
                    break
                elif mres != (ires[:2] if k == "DisambiguationError" else ires):
                    ctx.violation("LR parse on a used instance: impl %r, model %r" % (ires[:2], mres[:2]),
                                  dict(rep, impl=ires, model=mres), no_input=True, key="lr-diff")
                if mo[1] != e["fields"]:
                    ctx.violation("instance attributes after Parser.parse (errors, in_error_recovery, parse_stack): "
                                  "impl %r, model %r" % (e["fields"], mo[1]), rep, no_input=True, key="lr-fields")
        elif m[0] == "glr":
            cut = m[1]
            for i, (e, mo) in enumerate(zip(r["glr_seq"][:cut], o)):
                st["glr_parses"] += 1
                k = e["res"][0]
                st["glr_kinds"][k] = st["glr_kinds"].get(k, 0) + 1
                rep = dict(rep0, glr_parse_no=i, input=e["w"], raise_at=e["raise_at"])
                if mo[0][0] == 3:
                    ctx.violation("model predicts AttributeError in _remove_transient_state", rep, no_input=True,
                                  key="glr-attr")
                if mo[1] != e["fields"]:
                    ctx.violation("transient attributes after GLRParser.parse: impl %r, model %r"
                                  % (e["fields"], mo[1]), rep, no_input=True, key="glr-fields")
    # ---- property oracle: everything observed after the history equals the fresh world
    def prop_fail(what, rep, key, build_related):
        """a failure of the property text (no known finding is listed for C15: every one is a violation)"""
        ctx.violation(what, rep, key=key)

    for e in r["lr_seq"]:
        if "fresh" in e:
            st["probes"] += 1
            if e["res"] != e["fresh"]:
                prop_fail("LR probe parse after a history differs from the parse on fresh objects: %r vs %r"
                          % (e["res"][:2], e["fresh"][:2]),
                          dict(rep0, input=e["w"], after_history=e["res"], fresh=e["fresh"]), "prop-lr", False)
            elif e["res"][0] == "ok":
                st["nontrivial"].add((r["gtext"], repr(r["history"]), e["w"]))
    for e in r["glr_seq"]:
        if "fresh" in e:
            st["probes"] += 1
            if e["res"] != e["fresh"]:
                prop_fail("GLR probe parse after a history differs from the parse on fresh objects: %r vs %r"
                          % (e["res"][:2], e["fresh"][:2]),
                          dict(rep0, input=e["w"], after_history=e["res"], fresh=e["fresh"]), "prop-glr", False)
            elif e["res"][0] == "ok":
                st["nontrivial"].add((r["gtext"], repr(r["history"]), "glr:" + e["w"]))
    for e in r["probe"]["builds"]:
        st["probe_builds"] += 1
        rep = dict(rep0, probe_build=e["build"])
        if e["outcome"] != e["fresh_outcome"]:
            prop_fail("constructing a parser after a history gives %s, on a fresh Grammar %s"
                      % (e["outcome"], e["fresh_outcome"]), rep, "prop-build-outcome", bool(e["build"][1]))
        elif e["same_table"] is False:
            prop_fail("constructing a parser after a history gives another table than on a fresh Grammar",
                      rep, "prop-build-table", bool(e["build"][1]))
        for w, a, b in e["parses"]:
            st["probes"] += 1
            if a != b:
                prop_fail("parser constructed after a history parses %r differently from one on a fresh Grammar"
                          % w, dict(rep, input=w, after_history=a, fresh=b), "prop-build-parse",
                          bool(e["build"][1]))
    if r["probe"]["reload"] is not True:
        ctx.violation("the grammar text no longer loads to the same Grammar after the history (%r)"
                      % (r["probe"]["reload"],), rep0, key="prop-reload")
    if r["final_gstate"][0] != r["aug0"]:
        ctx.violation("productions[0].rhs is not what it is on a freshly loaded Grammar after the history%s: %r"
                      % (" (a construction was interrupted)" if interrupted_steps else "",
                         r["final_gstate"][0]), rep0, key="prop-aug")
    if interrupted_steps:
        st["histories_with_interrupt"] += 1
    if corrupted:
        st["histories_with_rewritten_aug"] += 1


def kf_witness(ctx):
    """the witness of the fixed finding (an interrupted LAYOUT-table construction followed by an SLR
    construction) is run on every check: it must now behave like fresh objects"""
    gtext = CURATED[1][1] + "\n" + LAYOUTS[1]
    job = ("kf-witness", gtext, {"lr": (0, 0, 1, 1), "glr": (1, 0, 0, 0), "recovery": False},
           [("build", (0, 0, 1, 1), 1)], {"inputs": ["a b a", "a  a"], "builds": [(0, 1, 1, 1), (0, 1, 0, 0)]})
    return _worker(job)


def _rec_history_job(job):
    """parses that raised from a user RECOGNIZER (any exception type) must leave the parser
    instance as good as new: the probe parse equals the parse on a freshly built parser"""
    seed, glr, ctxarg, excname, tables = job
    import builtins
    import random as _random
    import parglare
    from parglare import GLRParser, Grammar, Parser
    from parglare.tables import LALR, SLR
    from lib import impl
    rng = _random.Random(seed)
    gtext = rng.choice(["S: T S | T;\nterminals\nT: ;", "S: S T | T 'c';\nterminals\nT: ;",
                        "S: A B;\nA: T A | T;\nB: 'c' | EMPTY;\nterminals\nT: ;"])
    exc = UserBoom if excname == "UserBoom" else getattr(builtins, excname)

    def world():
        ctl = {"arm": None, "n": 0}

        def body(inp, pos):
            ctl["n"] += 1
            if ctl["arm"] is not None and ctl["n"] >= ctl["arm"]:
                raise exc("trap")
            return inp[pos:pos + 1] if inp[pos:pos + 1] in ("a", "b") else None
        if ctxarg:
            def rec(context, inp, pos):
                return body(inp, pos)
        else:
            def rec(inp, pos):
                return body(inp, pos)
        g = Grammar.from_string(gtext, recognizers={"T": rec})
        cls = GLRParser if glr else Parser

        def count(context, value):
            # user state kept where the docs say to keep it: context.extra is per parse
            seen = context.extra.setdefault("seen", [])
            seen.append(value)
            return len(seen)
        return ctl, cls(g, tables=LALR if tables else SLR, actions={"T": count})

    def parse(ctl, p, w, arm):
        ctl["arm"], ctl["n"] = arm, 0
        try:
            with impl.time_limit(10):
                r = p.parse(w)
            return ["ok", len(r) if glr else _canon_res(r)]
        except parglare.SyntaxError as e:
            return ["SyntaxError", e.location.start_position]
        except BaseException as e:  # noqa
            return ["exc", type(e).__name__]
        finally:
            ctl["arm"] = None
    out = {"job": list(job), "grammar": gtext, "steps": []}
    try:
        with impl.time_limit(20), impl.quiet():
            ctl, p = world()
            ctlf, pf = world()
    except BaseException as e:  # noqa
        out["gerr"] = impl.exc_kind(e)
        return out
    words = ["a", "ab", "abc", "ba c", "x", "", "a b a", "abab", "c", "bac"]
    hist = [(rng.choice(words), rng.choice([None, 1, 2, 3])) for _ in range(rng.randint(1, 4))]
    hist.append((rng.choice(words[:4]), 1))          # at least one parse that hits the trap
    for w, arm in hist:
        out["steps"].append([w, arm, parse(ctl, p, w, arm)])
    out["probes"] = []
    for w in words:
        out["probes"].append([w, parse(ctl, p, w, None), parse(ctlf, pf, w, None)])
    return out


def _canon_res(v):
    if isinstance(v, (list, tuple)):
        return [_canon_res(x) for x in v]
    return v if v is None or isinstance(v, (str, int)) else "<%s>" % type(v).__name__


def recognizer_histories(ctx, st):
    quick = ctx.quick()
    jobs = []
    excs = ["UserBoom", "TypeError", "ValueError", "IndexError", "KeyError", "AttributeError", "RuntimeError"]
    for i in range(56 if quick else 560):
        jobs.append((ctx.rng.randrange(10 ** 9), i % 2, (i // 2) % 2, excs[i % len(excs)], (i // 4) % 2))
    with mp.Pool(common.NPROC) as pool:
        outs = pool.map(_rec_history_job, jobs, chunksize=4)
    st["recognizer_histories"] = len(outs)
    st["recognizer_history_probes"] = 0
    st["recognizer_history_raised"] = 0
    for o in outs:
        if o.get("gerr"):
            ctx.violation("grammar with a custom recognizer failed to build: %s" % o["gerr"], o, key="rec-build")
            continue
        st["recognizer_history_raised"] += sum(1 for s_ in o["steps"] if s_[2][0] == "exc")
        for w, used, fresh in o["probes"]:
            st["recognizer_history_probes"] += 1
            if used != fresh:
                seed, glr, ctxarg, excname, tables = o["job"]
                ctx.violation("%s: after parses in which the user recognizer raised %s the parse of %r is %r, on a "
                              "fresh parser %r" % ("GLRParser" if glr else "Parser", excname, w, used, fresh),
                              {"grammar": o["grammar"], "recognizer": "T(%sinput, pos): 'a'|'b', raising %s when armed"
                               % ("context, " if ctxarg else "", excname),
                               "history": o["steps"], "input": w, "job": o["job"]}, key="rec-history")
                break


def run(ctx):
    jobs = gen_jobs(ctx)
    with mp.Pool(common.NPROC) as pool:
        results = pool.map(_worker, jobs, chunksize=2)
    results.append(kf_witness(ctx))
    st = {"worlds": 0, "grammar_errors": {}, "ff_compared": 0, "build_steps": 0, "build_outcomes": {},
          "lr_parses": 0, "lr_kinds": {}, "lr_recovered": 0, "glr_parses": 0, "glr_kinds": {}, "probes": 0,
          "probe_builds": 0, "histories_with_interrupt": 0, "histories_with_rewritten_aug": 0,
          "with_layout": 0, "lr_nonterminating": 0, "history_lengths": {}, "nontrivial": set(),
          "lr_subject": {}, "glr_subject": {}}
    recognizer_histories(ctx, st)
    allcases, spans = [], []
    for r in results:
        st["worlds"] += 1
        if r["gerr"]:
            st["grammar_errors"][r["gerr"]] = st["grammar_errors"].get(r["gerr"], 0) + 1
            spans.append(None)
            continue
        if r["static"]["layout_prod"] is not None:
            st["with_layout"] += 1
        n = len(r["history"])
        st["history_lengths"][n] = st["history_lengths"].get(n, 0) + 1
        st["lr_subject"][r["lr_subject"]] = st["lr_subject"].get(r["lr_subject"], 0) + 1
        st["glr_subject"][r["glr_subject"]] = st["glr_subject"].get(r["glr_subject"], 0) + 1
        cases, meta = model_cases(r)
        spans.append((len(allcases), len(cases), meta))
        allcases.extend(cases)
    outs = common.model_run(allcases)
    small = [(c, o) for c, o in zip(allcases, outs)]
    nx, xok, xlog = common.coq_crosscheck("C15", [c for c, _ in small], [o for _, o in small], ctx.rng,
                                          sample=25 if ctx.quick() else 80)
    if not xok:
        ctx.violation("extraction cross-check failed: OCaml driver and vm_compute disagree",
                      {"log": xlog}, no_input=True)
    for r, sp in zip(results, spans):
        if sp is None:
            continue
        a, n, meta = sp
        compare(ctx, r, allcases[a:a + n], meta, outs[a:a + n], st)
    samples = []
    for r in results:
        if not r["gerr"] and len(samples) < 3 and len(r["history"]) >= 3:
            samples.append({"grammar": r["gtext"], "subjects": r["sub"], "history": r["history"],
                            "probes": r["probes"],
                            "lr_probe_results": [e["res"][:1] for e in r["lr_seq"] if "fresh" in e]})
    nontrivial = len(st.pop("nontrivial"))
    return {
        "evaluations": st["probes"] + st["probe_builds"] + st["build_steps"] + st["lr_parses"] + st["glr_parses"],
        "distinct_nontrivial": nontrivial,
        "rule": "curated + seeded random productive grammars x {no LAYOUT, 3 LAYOUT rules}; per grammar 2-3 worlds "
                "(one Grammar object, an LR and a GLR subject, SLR or LALR, recovery on/off) with a history of "
                "2..%d steps over {LR/GLR parse of a sentence, corrupted sentence, short string (layout injected); "
                "parse with a raising action / token callback; construction of another Parser/GLRParser (16 option "
                "sets, may fail with conflicts or GrammarError); construction interrupted in the LAYOUT or main "
                "automaton (state budget); failing load of another grammar}, then probe parses on both subjects and 3 new "
                "constructions, all compared with a world of fresh objects; non-trivial = accepted probe parse, "
                "distinct by (grammar, history, input)" % (6 if ctx.quick() else 10),
        "samples": samples,
        "traces_validated_against_impl": st["build_steps"] + st["lr_parses"] + st["glr_parses"] + st["ff_compared"],
        "distribution": st,
        "crosscheck_vm_compute_cases": nx,
        "exhaustive": False,
    }


def replay(ctx, rep):
    job = ("replay", rep["grammar"], rep["subjects"], [tuple(x) for x in rep["history"]], rep["probes"])
    job[3][:] = [(o[0], tuple(o[1]) if isinstance(o[1], list) else o[1], o[2]) if len(o) == 3 else tuple(o)
                 for o in job[3]]
    r = _worker(job)
    for k in ("lr_subject", "glr_subject", "steps", "lr_seq", "glr_seq", "probe", "final_gstate", "gerr"):
        v = r.get(k)
        if k in ("lr_seq", "glr_seq") and v:
            v = [{kk: vv for kk, vv in e.items() if kk != "rx"} for e in v]
        if k == "steps" and v:
            v = [{kk: vv for kk, vv in e.items() if kk not in ("table", "ltable")} for e in v]
        print(k, "=", v)
    return 0
