"""C17 -- with consume_input off, results parse sentence prefixes; GLR finds them all."""
import multiprocessing as mp

from lib import common, glrcases, glrcorr, gramgen, refparse

LEVEL = "proof"
ASSUMPTIONS = [
    "theorems: C17_lr_prefix (the LR driver model, for any consume_input, returns a derivation whose leaves are exactly "
    "the shifted tokens) and C17_glr_valid (forest_ok with consume=false on an impl forest: every tree is a derivation "
    "of a prefix of the input ending at a token boundary)",
    "'all derivations of all sentence prefixes, each once' and 'SyntaxError only if no prefix is a sentence' are decided "
    "per case: reference derivations (untrusted enumerator) are certified by tree_ok and searched in root_trees of the "
    "impl forest; known findings of C02/C03 apply (matched through the frozen baseline implementation)",
    "the LR clause is also checked directly on the impl (Parser(consume_input=False)) and against the LR model",
]

KF_LOST = "KF-C17-lost-derivations"
KF_DUP = "KF-C17-duplicate-derivations"
CAP = 300


def lr_worker(job):
    gname, gtext, inputs = job
    import parglare
    from parglare import Grammar, Parser
    from lib import impl
    out = {"gname": gname, "gtext": gtext, "gerr": None, "res": {}}
    try:
        with impl.time_limit(20):
            g = Grammar.from_string(gtext)
            with impl.quiet():
                p = Parser(g, build_tree=True, consume_input=False)
    except BaseException as e:  # noqa
        out["gerr"] = impl.exc_kind(e)
        return out
    gi = impl.GInfo(g)
    out["grammar"] = impl.model_grammar(gi)
    out["terms"] = impl.dump_terms(gi)
    out["stop"] = impl.stop_id(gi)
    out["table"] = impl.dump_table(p.table, gi)
    n_to = 0
    for w in inputs:
        r = {"rx": impl.rx_matrix(gi, w)}
        if n_to >= 2:
            break
        try:
            with impl.time_limit(3):
                t = p.parse(w)
            r["kind"] = "ok"
            r["tree"] = impl.node_sx(t, gi)
        except parglare.SyntaxError as e:
            r["kind"] = "SyntaxError"
            r["pos"] = e.location.start_position
        except parglare.DisambiguationError as e:
            r["kind"] = "DisambiguationError"
            r["pos"] = e.location.start_position
        except BaseException as e:  # noqa
            r["kind"] = "exc:" + impl.exc_kind(e)
            if r["kind"] == "exc:Timeout":
                n_to += 1
        out["res"][w] = r
    return out


def _ref_job(job):
    """reference work for one case, run in the pool: (sentence_ends, comparison or None, one tree)"""
    grammar, rx, w, ftrees, need_tree = job
    r = {"grammar": grammar}
    c = {"input": w, "rx": rx}
    ref = refparse.Ref(grammar, None, rx, glrcases.sk_ws(w), len(w))
    ends = sorted(ref.sentence_ends())
    cmpd = compare_forest(r, c, ftrees) if ftrees is not None else None
    t = None
    if need_tree and ends:
        t = refparse.one_tree(ref, ref.start, ref.sk(0), ends[0])
    return ends, cmpd, t


def compare_forest(r, c, ftrees):
    """(missing shapes, duplicated?, extra?, reference prefix ends)"""
    w = c["input"]
    ref = refparse.Ref(r["grammar"], None, c["rx"], glrcases.sk_ws(w), len(w))
    try:
        pt = ref.prefix_trees(limit=CAP)
    except refparse.TooMany:
        return None
    want = [t for q in sorted(pt) for t in pt[q]]
    have = [refparse.shape_of_sx(t) for t in ftrees]
    hs = set(have)
    miss = [t for t in want if t not in hs]
    extra = [t for t in have if t not in set(want)]
    dup = len(have) != len(hs)
    return miss, dup, extra, want


def run(ctx):
    quick = ctx.quick()
    rng = ctx.rng
    opts = [{"tables": 1, "consume_input": False, "chart": 1}, {"tables": 1, "consume_input": False, "lexdis": True},
            {"tables": 0, "consume_input": False, "chart": 1}]
    jobs = glrcases.gen_jobs(rng, quick, opts[:2] if quick else opts, nrand=60 if quick else 400,
                             maxlen=4 if quick else 6)
    # plus dedicated prefix grammars with overlapping terminals of different lengths
    for name, text, alpha in [("pre_a_aa", "S: 'a' | 'aa';", "a"),
                              ("pre_k", "S: K | K V; K: 'a' | 'ab'; V: 'b' | 'c';", "abc"),
                              ("pre_list", "S: S 'a' | 'a';", "ab")]:
        for o in opts:
            jobs.append((name, text, list(gramgen.all_strings(list(alpha), 5)), o))
    import time
    tt = {}
    t0 = time.time()
    with mp.Pool(common.NPROC) as pool:
        results = pool.map(glrcases.worker, jobs, chunksize=1)
    tt["impl_glr"] = round(time.time() - t0, 1)
    st = {"timing_s": tt, "grammars": 0, "inputs": 0, "forests": 0, "rejects": 0, "forest_ok_checked": 0, "compared": 0,
          "multi_prefix_cases": 0, "missing": 0, "dups": 0, "baseline_same": 0, "cyclic_or_many": 0,
          "lr_parses": 0, "lr_accepts": 0, "exceptions": {}}
    wsl = [ord(ch) for ch in glrcases.WS]
    mcases, meta = [], []
    for r in results:
        st["grammars"] += 1
        if r["gerr"]:
            continue
        start = r["grammar"][0][1][0][1]
        for c in r["cases"]:
            st["inputs"] += 1
            w = c["input"]
            if c["status"] == "forest" and c.get("nodes") is not None:
                mcases.append((6, [r["grammar"], c["nodes"], [ord(ch) for ch in w], c["rx"], wsl, start, 0, 0, 0]))
                meta.append(("ok", r, c))
                if c.get("solutions", 0) <= 4 * CAP:
                    mcases.append((7, [c["nodes"], 4 * CAP]))
                    meta.append(("trees", r, c))
    # the verified completeness validator (theorem C17_forest_complete, consume_input off): every
    # derivation of every sentence prefix is in the forest -- no enumeration needed
    vcases, vmeta = [], []
    for r in results:
        if r["gerr"] or not r["plain"] or r["opts"].get("lexdis") is True:
            continue
        start = r["grammar"][0][1][0][1]
        for c in r["cases"]:
            if c["status"] == "forest" and c.get("nodes") is not None and not c.get("cyclic") \
                    and len(c["nodes"]) <= 1200:
                w = c["input"]
                ch = c.get("chart")
                if ch is not None:
                    vcases.append((15, [r["grammar"], c["nodes"], [ord(x) for x in w], c["rx"], wsl, start, 0, 0, ch]))
                    vmeta.append((id(r), w))
    t1 = time.time()
    outs = common.model_run(mcases)
    vouts = common.model_run(vcases)
    verdict = {k: tuple(o) for k, o in zip(vmeta, vouts)}
    st["validator_runs"] = len(vcases)
    st["complete_by_theorem"] = sum(1 for o in vouts if tuple(o) == (1, 1, 1))
    st["validator_incomplete"] = sum(1 for o in vouts if o[0] == 1 and o[1] == 1 and o[2] != 1)
    if any(o[1] != 1 for o in vouts):
        ctx.violation("the chart certificate computed by the harness is not closed (chart_closed fails)",
                      {"count": sum(1 for o in vouts if o[1] != 1)}, no_input=True, key="chart")
    tt["model"] = round(time.time() - t1, 1)
    nx, xok, xlog = common.coq_crosscheck("C17", mcases, outs, rng, sample=25 if quick else 80)
    if not xok:
        ctx.violation("extraction cross-check failed", {"log": xlog}, no_input=True)
    fok, ftr = {}, {}
    for (kind, r, c), o in zip(meta, outs):
        if kind == "ok":
            fok[(id(r), c["input"])] = o
        elif o[0] == 1:
            ftr[(id(r), c["input"])] = o[1]
    distinct = set()
    samples = []
    failing = []
    rjobs, rkeys = [], []
    for r in results:
        if r["gerr"]:
            continue
        for c in r["cases"]:
            if c["status"] in ("SyntaxError", "forest"):
                rjobs.append((r["grammar"], c["rx"], c["input"], ftr.get((id(r), c["input"])),
                              c["status"] == "SyntaxError"))
                rkeys.append((id(r), c["input"]))
    t1 = time.time()
    with mp.Pool(common.NPROC) as pool:
        rres = dict(zip(rkeys, pool.map(_ref_job, rjobs, chunksize=8)))
    tt["reference"] = round(time.time() - t1, 1)
    for r in results:
        if r["gerr"]:
            continue
        for c in r["cases"]:
            w = c["input"]
            rep = {"grammar": r["gtext"], "options": r["opts"], "input": w}
            stt = c["status"]
            if stt.startswith("exc"):
                st["exceptions"][stt] = st["exceptions"].get(stt, 0) + 1
                ctx.violation("GLRParser(consume_input=False).parse raised %s" % stt, rep, key="exc")
                continue
            ends, cmpd_pre, tree_pre = rres.get((id(r), w), ([], None, None))
            if stt == "SyntaxError":
                st["rejects"] += 1
                if ends and r["plain"] and r["opts"].get("lexdis") is not True:
                    failing.append((r, c, "reject", [tree_pre] if tree_pre else []))
                continue
            if stt != "forest":
                continue
            st["forests"] += 1
            if c.get("cyclic") or c.get("nodes") is None:
                st["cyclic_or_many"] += 1
                continue
            st["forest_ok_checked"] += 1
            if fok.get((id(r), w)) != 1:
                failing.append((r, c, "invalid", []))
                continue
            if not r["plain"] or r["opts"].get("lexdis") is True:
                continue          # with lexical disambiguation only the chosen tokens are pursued
            ft = ftr.get((id(r), w))
            if ft is None:
                st["cyclic_or_many"] += 1
                continue
            cmpd = cmpd_pre
            if cmpd is None:
                st["cyclic_or_many"] += 1
                continue
            miss, dup, extra, want = cmpd
            st["compared"] += 1
            v = verdict.get((id(r), w))
            if v is not None and v[1] == 1:
                if v == (1, 1, 1) and miss:
                    ctx.violation("forest_complete holds (theorem C17_forest_complete) but the reference finds a "
                                  "prefix derivation that is absent (codec/extraction error)", rep,
                                  no_input=True, key="thm-vs-ref")
                if v[0] == 1 and v[2] != 1 and not miss:
                    ctx.violation("forest_complete fails on a valid forest although the reference finds every "
                                  "prefix derivation in it (validator or reference wrong)", rep,
                                  no_input=True, key="ref-vs-thm")
            if len(set(len(refparse.leaves_of_shape(t)) for t in want)) > 1:
                st["multi_prefix_cases"] += 1
                distinct.add((r["gtext"], w))
                if len(samples) < 3:
                    samples.append(dict(rep, derivations=len(want), forest_trees=len(ft)))
            if extra:
                ctx.violation("forest holds a tree that is not a reference derivation of a sentence prefix",
                              dict(rep, tree=refparse.shape_to_sx(extra[0])), no_input=True, key="extra")
            if miss:
                st["missing"] += 1
                failing.append((r, c, "missing", miss))
            if dup:
                st["dups"] += 1
                failing.append((r, c, "dup", []))
    # certification of reference derivations + baseline comparison
    certs = common.model_run([(5, [r["grammar"], refparse.shape_to_sx(t)])
                              for (r, c, k, ts) in failing for t in ts])
    ci = 0
    bjobs, seen = [], {}
    for (r, c, k, ts) in failing:
        key = (r["gtext"], repr(sorted(r["opts"].items())), c["input"])
        if key not in seen:
            seen[key] = len(bjobs)
            bjobs.append((r["gname"], r["gtext"], [c["input"]], r["opts"]))
    bres = common.baseline_run("lib.glrcases", "worker", bjobs) if bjobs else None
    btrees = None
    if bres is not None:
        bm = [(7, [br["cases"][0]["nodes"], 4 * CAP]) if (not br["gerr"] and br["cases"] and
              br["cases"][0].get("nodes") is not None) else (7, [[], 0]) for br in bres]
        btrees = common.model_run(bm)
    kfs = {e["id"] for e in ctx.kf}
    for (r, c, k, ts) in failing:
        w = c["input"]
        rep = {"grammar": r["gtext"], "options": r["opts"], "input": w}
        okc = True
        for t in ts:
            if certs[ci] != 1 or r["grammar"][t[1]][0] != r["grammar"][0][1][0][1]:
                okc = False
            ci += 1
        if not okc:
            ctx.violation("reference derivation failed certification", rep, no_input=True, key="ref-bad")
            continue
        bi = seen[(r["gtext"], repr(sorted(r["opts"].items())), w)]
        same = False
        if bres is not None and not bres[bi]["gerr"] and bres[bi]["cases"]:
            bc = bres[bi]["cases"][0]
            if k == "reject":
                same = bc["status"] == "SyntaxError"
            elif k == "invalid":
                same = bc["status"] == "forest" and bc.get("nodes") == c.get("nodes")
            elif btrees is not None and btrees[bi][0] == 1:
                bcmp = compare_forest(r, c, btrees[bi][1])
                if bcmp is not None:
                    same = (set(bcmp[0]) == set(ts)) if k == "missing" else bcmp[1]
        kf = KF_DUP if k == "dup" else ("KF-C17-invalid-tree-overlap" if k == "invalid" else KF_LOST)
        if same and kf in kfs:
            st["baseline_same"] += 1
            ctx.known_finding(kf, "%s on input %r of grammar %r (same with the baseline implementation)"
                              % (k, w, r["gtext"]))
        elif k == "reject":
            ctx.violation("GLR raises SyntaxError although a prefix of the input is a sentence "
                          "(derivation certified by tree_ok)",
                          dict(rep, derivation=refparse.shape_to_sx(ts[0]) if ts else None), key="reject")
        elif k == "invalid":
            ctx.violation("forest_ok(consume=false) fails: a tree of the forest is not a derivation of a "
                          "prefix of the input", dict(rep, forest=c["nodes"]), key="invalid")
        elif k == "missing":
            ctx.violation("forest lacks %d derivation(s) of sentence prefixes (certified by tree_ok)" % len(ts),
                          dict(rep, missing=[refparse.shape_to_sx(t) for t in ts[:3]]), key="missing")
        else:
            ctx.violation("a derivation appears more than once in the forest", rep, key="dup")
    # ---- LR with consume_input=False -------------------------------------------------------
    ljobs = []
    for name, text in gramgen.CURATED[:12]:
        alpha = gramgen.alphabet_of(text)
        ljobs.append((name, text, list(gramgen.all_strings(alpha + ["z"], 4 if quick else 5))[:400]))
    for i in range(60 if quick else 800):
        rr = gramgen.random_grammar(rng, max_nt=3, max_alts=3, max_rhs=3)
        if rr:
            ljobs.append(("rand%d" % i, rr[1], list(gramgen.all_strings(["a", "b"], 4))))
    t1 = time.time()
    with mp.Pool(common.NPROC) as pool:
        lres = pool.map(lr_worker, ljobs, chunksize=1)
    tt["impl_lr"] = round(time.time() - t1, 1)
    lm, lmeta = [], []
    for r in lres:
        if r["gerr"]:
            continue
        pconf = [r["grammar"], r["table"], r["terms"], r["stop"], 0, 1, wsl, []]
        for w, res in r["res"].items():
            st["lr_parses"] += 1
            lm.append((4, [pconf, [[ord(ch) for ch in w], res["rx"]], 20000, 0]))
            lmeta.append((r, w, res, "model"))
            if res["kind"] == "ok":
                lm.append((5, [r["grammar"], res["tree"]]))
                lmeta.append((r, w, res, "treeok"))
    for (r, w, res, kind), o in zip(lmeta, common.model_run(lm)):
        rep = {"grammar": r["gtext"], "input": w, "parser": "Parser(consume_input=False)"}
        if kind == "model":
            if res["kind"] == "ok":
                if o[0] != 0 or o[1] != res["tree"]:
                    ctx.violation("LR(consume_input=False) result differs from the model", dict(rep, model=o[:2]),
                                  no_input=True, key="lr-diff")
            elif res["kind"] == "SyntaxError":
                if not (o[0] == 1 and o[1] == res["pos"]):
                    ctx.violation("LR(consume_input=False) error differs from the model", dict(rep, model=o[:3]),
                                  no_input=True, key="lr-differr")
            elif res["kind"] == "exc:Timeout":
                pass
            elif res["kind"].startswith("exc"):
                ctx.violation("Parser(consume_input=False).parse raised %s" % res["kind"], rep, key="lr-exc")
        else:
            st["lr_accepts"] += 1
            shape = refparse.shape_of_sx(res["tree"])
            leaves = refparse.leaves_of_shape(shape)
            sk = glrcases.sk_ws(w)
            pos = sk(0)
            chain = True
            for (y, s, e) in leaves:
                if s != pos or res["rx"][y][s] != e - s:
                    chain = False
                pos = sk(e)
            root_ok = res["tree"][0] == 1 and r["grammar"][res["tree"][1]][0] == r["grammar"][0][1][0][1]
            if o != 1 or not chain or not root_ok:
                ctx.violation("Parser(consume_input=False) returned a tree that is not a derivation of a prefix "
                              "of the input", dict(rep, tree=res["tree"]), key="lr-invalid")
    # ---- GLR driver model vs GLRParser.parse (consume_input off) --------------------------------
    # the extracted Gallina model of the driver (Model/GLR.v, command 210) and the impl run on
    # the same grammar/table/match matrix/input; accept/reject and the whole forest graph are
    # compared (harness/lib/glrcorr.py)
    gm = glrcorr.run(ctx, consume=False)
    st["glr_model"] = gm
    # ---- end of the GLR driver model block ---------------------------------------------------------
    return {
        "glr_model_cases": gm["glr_model_cases"],
        "glr_model_agree": gm["glr_model_agree"],
        "evaluations": st["inputs"] + st["lr_parses"] + gm["glr_model_cases"],
        "distinct_nontrivial": len(distinct),
        "rule": "GLR cases of C01/C02 with consume_input=False (LALR, SLR, lexical disambiguation off and on) plus "
                "grammars with overlapping terminals of different lengths; LR with consume_input=False on curated and "
                "random grammars; non-trivial = input with sentence prefixes of different token counts; distinct by "
                "(grammar, input)",
        "samples": samples,
        "traces_validated_against_impl": st["forest_ok_checked"] + st["lr_parses"] + gm["glr_model_agree"],
        "distribution": st,
        "crosscheck_vm_compute_cases": nx,
        "exhaustive": False,
    }


def replay(ctx, rep):
    r = glrcases.worker(("replay", rep["grammar"], [rep["input"]], rep.get("options", {"consume_input": False})))
    print(r["cases"])
    return 0
