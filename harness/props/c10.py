"""C10 -- rejections are always reported as SyntaxError at the first offending token."""
import multiprocessing as mp

from lib import common, earley, glrcases, gramgen

LEVEL = "proof"
ASSUMPTIONS = [
    "theorem C10_linecol: for every input and position, pos_to_line_col = (1 + newlines before p, characters after the "
    "last newline before p); C10_eof: the end-of-file test is exactly p = len(input); the LR driver model can only end in "
    "Ok / SyntaxError / DisambiguationError / layout SyntaxError (C10_lr_outcomes, with table_struct: no driver crash)",
    "error position, LR/GLR and LALR/SLR agreement and GLR symbols_expected are decided per case against an untrusted "
    "Earley reference (longest viable prefix, terminals that may come next): tests, not theorems",
    "rendering (str(error)) is exercised on the impl, including inputs with exotic line separators",
]

FUEL = 20000


def _worker(job):
    gname, gtext, inputs = job
    import parglare
    from parglare import GLRParser, Grammar, Parser
    from parglare.tables import LALR, SLR
    from lib import impl
    out = {"gname": gname, "gtext": gtext, "gerr": None, "parsers": {}}
    try:
        with impl.time_limit(20):
            g = Grammar.from_string(gtext)
    except BaseException as e:  # noqa
        out["gerr"] = impl.exc_kind(e)
        return out
    gi = impl.GInfo(g)
    out["grammar"] = impl.model_grammar(gi)
    out["stop"] = impl.stop_id(gi)
    out["tnames"] = [t.name for t in gi.terms]
    out["rx"] = {w: impl.rx_matrix(gi, w) for w in inputs}
    out["plain"] = all(p.prior == 10 and p.assoc == 0 for p in g.productions)
    specs = [("glr-lalr", GLRParser, dict(tables=LALR)), ("glr-slr", GLRParser, dict(tables=SLR)),
             ("lr-det-lalr", Parser, dict(tables=LALR, prefer_shifts=False, prefer_shifts_over_empty=False)),
             ("lr-det-slr", Parser, dict(tables=SLR, prefer_shifts=False, prefer_shifts_over_empty=False)),
             ("lr-default", Parser, dict())]
    for name, cls, kw in specs:
        try:
            with impl.time_limit(20), impl.quiet():
                p = cls(g, **kw)
        except BaseException as e:  # noqa
            out["parsers"][name] = {"construct": impl.exc_kind(e)}
            continue
        det = all(len(al) == 1 for s in p.table.states for al in s.actions.values())
        tdump = impl.dump_table(p.table, gi) if name.startswith("lr") else None
        res = {}
        for w in inputs:
            r = {}
            try:
                with impl.time_limit(10):
                    p.parse(w)
                r["kind"] = "ok"
            except parglare.SyntaxError as e:
                r["kind"] = "SyntaxError"
                r["pos"] = e.location.start_position
                r["line"], r["col"] = e.location.line, e.location.column
                r["expected"] = sorted(s.name for s in e.symbols_expected)
                try:
                    txt = str(e)
                    r["render"] = "ok"
                    r["eof_msg"] = "unexpected end of file" in txt
                except BaseException as e2:  # noqa
                    r["render"] = "exc:" + type(e2).__name__
            except parglare.DisambiguationError as e:
                r["kind"] = "DisambiguationError"
                r["pos"] = e.location.start_position
            except BaseException as e:  # noqa
                r["kind"] = "exc:" + impl.exc_kind(e)
            res[w] = r
        out["parsers"][name] = {"construct": "ok", "deterministic": det, "results": res, "table": tdump}
    return out


def tokens_of(w, rx, sk):
    """[(tid or None, start)] for a grammar of non-overlapping terminals"""
    toks = []
    p = sk(0)
    n = len(w)
    while p < n:
        hit = None
        for t, row in enumerate(rx):
            if row[p]:
                hit = (t, row[p])
                break
        if hit is None:
            toks.append((None, p, p))
            break
        toks.append((hit[0], p, p + hit[1]))
        p = sk(p + hit[1])
    return toks, p


def reference(prods, stop, w, rx):
    """(is_sentence, error_position, expected terminal ids) from the Earley sets"""
    sk = glrcases.sk_ws(w)
    toks, endp = tokens_of(w, rx, sk)
    ea = earley.Earley(prods)
    syms = [t for (t, _, _) in toks]
    sets = ea.run([s for s in syms if s is not None] if None not in syms else syms[:syms.index(None)])
    k = len(sets) - 1            # tokens 0..k-1 were scanned
    if k == len(toks):
        if ea.accepts(sets[k]):
            return True, None, None
        return False, len(w) if endp >= len(w) else endp, ea.expected(sets[k])
    return False, toks[k][1], ea.expected(sets[k])


def spec_linecol(w, p):
    pre = w[:p]
    return 1 + pre.count("\n"), len(pre) - (pre.rfind("\n") + 1)


def gen_jobs(ctx):
    rng = ctx.rng
    quick = ctx.quick()
    jobs = []
    variants = [lambda s: s, lambda s: " " + " ".join(s) + " ", lambda s: "\n".join(s) + "\n",
                lambda s: "\n\n " + "\n ".join(s), lambda s: s + " \t"]
    fams = [x for x in gramgen.CURATED if "cyclic" not in x[0]]
    fams += [("expr_paren", "E: E '+' T | T; T: T '*' F | F; F: '(' E ')' | 'i';"),
             ("stmt", "S: 'i' 'x' 't' S | 'i' 'x' 't' S 'e' S | 'a';")]
    for name, text in fams:
        alpha = gramgen.alphabet_of(text)
        ml = (4 if quick else 5) if len(alpha) <= 3 else 3
        base = list(gramgen.all_strings(alpha + (["z"] if len(alpha) < 4 else []), ml))
        if len(base) > (200 if quick else 1500):
            rng.shuffle(base)
            base = base[: (200 if quick else 1500)]
        inputs = sorted(set(variants[i % len(variants)](s) for i, s in enumerate(base)) | {"", " ", "\n"})
        jobs.append((name, text, inputs))
    for i in range(12 if quick else 120):
        for gen in (gramgen.ctx_nullable_grammar, gramgen.lr1_twin_grammar, gramgen.unit_chain_grammar):
            prods, text = gen(rng)
            alpha = gramgen.alphabet_of(text)
            base = set()
            for _ in range(30):
                sen = gramgen.random_sentence(rng, prods, max_depth=6, max_len=8)
                if sen is None:
                    continue
                base.add(sen)
                k = rng.randrange(len(sen)) if sen else 0
                if sen:
                    base.add(sen[:k] + rng.choice(alpha) + sen[k + 1:])     # wrong token, valid elsewhere
                    base.add(sen[:k] + sen[k + 1:])                           # token missing
            inputs = sorted(set(variants[(j % 4) + 1](s_) for j, s_ in enumerate(sorted(base))))
            jobs.append(("%s%d" % (gen.__name__[:4], i), text, inputs))
    n = 80 if quick else 1000
    for i in range(n):
        r = gramgen.random_grammar(rng, max_nt=3, max_alts=3, max_rhs=3, p_empty=rng.choice([0, 0.2]))
        if r is None:
            continue
        prods, text = r
        base = list(gramgen.all_strings(["a", "b", "z"], 3 if quick else 4))
        inputs = sorted(set(variants[rng.randrange(len(variants))](s) for s in base) | {""})
        jobs.append(("rand%d" % i, text, inputs))
    return jobs


def run(ctx):
    jobs = gen_jobs(ctx)
    with mp.Pool(common.NPROC) as pool:
        results = pool.map(_worker, jobs, chunksize=1)
    st = {"grammars": 0, "grammar_errors": {}, "parses": 0, "rejections": 0, "accepts": 0,
          "positions_checked": 0, "expected_sets_checked": 0, "linecol_checked": 0, "eof_errors": 0,
          "multiline_errors": 0, "disambiguation_errors": 0, "timeouts_nondeterministic_lr": 0,
          "renders": 0, "kinds": {}}
    mcases, meta = [], []
    tcases, tmeta = [], []
    distinct = set()
    samples = []
    for r in results:
        st["grammars"] += 1
        if r["gerr"]:
            st["grammar_errors"][r["gerr"]] = st["grammar_errors"].get(r["gerr"], 0) + 1
            continue
        refc = {}
        for pname, pr in r["parsers"].items():
            if pr["construct"] != "ok":
                continue
            if pr.get("table") is not None:
                start = r["grammar"][0][1][0][1]
                tcases.append((3, [r["grammar"], pr["table"], start]))
                tmeta.append((r, pname, "table_struct"))
                tcases.append((12, [r["grammar"], pr["table"], r["stop"]]))
                tmeta.append((r, pname, "table_progress"))
                tcases.append((14, [r["grammar"], pr["table"]]))
                tmeta.append((r, pname, "items_sound"))
            glr = pname.startswith("glr")
            det = pr["deterministic"] and pname.startswith("lr-det") and r["plain"]
            for w, res in pr["results"].items():
                st["parses"] += 1
                st["kinds"][res["kind"]] = st["kinds"].get(res["kind"], 0) + 1
                rep = {"grammar": r["gtext"], "parser": pname, "input": w}
                if w not in refc:
                    refc[w] = reference(r["grammar"], r["stop"], w, r["rx"][w])
                sent, epos, eexp = refc[w]
                k = res["kind"]
                if k == "ok":
                    st["accepts"] += 1
                    if not sent and (glr or det):
                        ctx.violation("%s accepts an input the reference rejects" % pname, rep,
                                      no_input=True, key="accept")
                    continue
                if k == "exc:Timeout":
                    if glr or det:
                        ctx.violation("%s did not terminate on a non-sentence" % pname, rep, key="timeout")
                    else:
                        st["timeouts_nondeterministic_lr"] += 1
                    continue
                if k.startswith("exc"):
                    ctx.violation("%s raised %s instead of SyntaxError" % (pname, k), rep, key="exc")
                    continue
                if k == "DisambiguationError":
                    st["disambiguation_errors"] += 1
                    if glr:
                        ctx.violation("GLR raised DisambiguationError", rep, key="glr-dis")
                    continue
                st["rejections"] += 1
                distinct.add((r["gtext"], w))
                if sent:
                    if glr:
                        # a sentence rejected by GLR is C01's subject (KF-C01-glr-false-reject: the driver loses
                        # stack paths on nullable/cyclic grammars); there is no offending token to report on
                        st["glr_rejected_sentences_left_to_C01"] = st.get("glr_rejected_sentences_left_to_C01", 0) + 1
                    elif det:
                        ctx.violation("%s rejects an input the reference accepts" % pname, rep,
                                      no_input=True, key="reject")
                    continue
                if res.get("render") != "ok":
                    ctx.violation("rendering the SyntaxError failed: %s" % res.get("render"), rep, key="render")
                else:
                    st["renders"] += 1
                    if res["eof_msg"] != (res["pos"] == len(w)):
                        ctx.violation("end-of-file message %r but position %d, len %d"
                                      % (res["eof_msg"], res["pos"], len(w)), rep, key="eofmsg")
                if res["pos"] == len(w):
                    st["eof_errors"] += 1
                if "\n" in w[:res["pos"]]:
                    st["multiline_errors"] += 1
                # position = first token that cannot extend any sentence prefix
                if glr or det:
                    st["positions_checked"] += 1
                    if res["pos"] != epos:
                        ctx.violation("%s reports position %d, first offending token is at %d"
                                      % (pname, res["pos"], epos), dict(rep, impl=res["pos"], expected=epos),
                                      key="pos")
                    elif glr:
                        st["expected_sets_checked"] += 1
                        names = sorted(r["tnames"][t] for t in eexp)
                        if res["expected"] != names:
                            ctx.violation("GLR symbols_expected %r, terminals that may come next %r"
                                          % (res["expected"], names), rep, key="expected")
                # line/column
                ln, col = spec_linecol(w, res["pos"])
                if (res["line"], res["col"]) != (ln, col):
                    ctx.violation("line/column %r for position %d, should be %r"
                                  % ((res["line"], res["col"]), res["pos"], (ln, col)), rep, key="linecol")
                mcases.append((9, [[ord(c) for c in w], res["pos"]]))
                meta.append((rep, res))
                if len(samples) < 3 and "\n" in w and res["pos"] > 2:
                    samples.append(dict(rep, position=res["pos"], line=res["line"], column=res["col"],
                                        expected=res["expected"]))
    st["lr_tables_validated"] = 0
    for (r, pname, what), o in zip(tmeta, common.model_run(tcases)):
        st["lr_tables_validated"] += 1
        if what == "items_sound":
            # hypothesis of C10_viable_prefix / C10_lr_error_at_first_offending_token: item sets justified
            # from their kernels, shift/goto targets non-empty, S' has one production -- these hold for every
            # table a correct construction builds; productivity of all nonterminals is a property of the
            # grammar (where it fails the theorems do not apply, which is counted, not reported)
            allok, closure, ne0, productive, uniq = o
            st["items_sound_tables"] = st.get("items_sound_tables", 0) + (1 if allok == 1 else 0)
            if productive != 1:
                st["grammars_with_unproductive_nonterminals"] = st.get("grammars_with_unproductive_nonterminals", 0) + 1
            if closure != 1 or ne0 != 1 or uniq != 1:
                ctx.violation("items_sound fails on the impl's table of %s (closure/targets %d, state 0 items %d, "
                              "single S' production %d): the hypothesis of C10_viable_prefix does not hold"
                              % (pname, closure, ne0, uniq), {"grammar": r["gtext"], "parser": pname},
                              no_input=True, key="items_sound")
            continue
        if o != 1:
            ctx.violation("%s fails on the impl's table of %s: the hypothesis of C10_lr_no_crash does not hold"
                          % (what, pname), {"grammar": r["gtext"], "parser": pname}, no_input=True, key=what)
    outs = common.model_run(mcases)
    nx, xok, xlog = common.coq_crosscheck("C10", mcases, outs, ctx.rng, sample=60 if ctx.quick() else 200)
    if not xok:
        ctx.violation("extraction cross-check failed", {"log": xlog}, no_input=True)
    for (rep, res), o in zip(meta, outs):
        st["linecol_checked"] += 1
        if [res["line"], res["col"]] != o[:2]:
            ctx.violation("line/column differ from the model: impl %r model %r"
                          % ((res["line"], res["col"]), o[:2]), rep, no_input=True, key="linecol-model")
        if res.get("render") == "ok" and res["eof_msg"] != (o[2] == 1):
            ctx.violation("end-of-file message differs from the model", rep, no_input=True, key="eof-model")
    # exotic separators and non-string input: rendering must not fail
    extra = _extras()
    for what, ok in extra:
        if not ok:
            ctx.violation(what, {"case": what}, key="extra:" + what[:20])
    st["extra_cases"] = len(extra)
    return {
        "evaluations": st["parses"],
        "distinct_nontrivial": len(distinct),
        "rule": "curated non-cyclic grammars (single-character terminals) + seeded random grammars; inputs: all short "
                "strings over the alphabet plus a junk character, in five layouts (plain, spaced, one token per line, "
                "indented lines, trailing layout), plus the empty and blank inputs; five parsers per grammar (GLR LALR/SLR, "
                "strategy-free LR LALR/SLR, default LR); non-trivial = rejected non-sentence; distinct by (grammar, input)",
        "samples": samples,
        "traces_validated_against_impl": st["linecol_checked"],
        "distribution": st,
        "crosscheck_vm_compute_cases": nx,
        "exhaustive": False,
    }


def _extras():
    """rendering on exotic separators and list (non-string) input"""
    import parglare
    from parglare import GLRParser, Grammar, Parser
    out = []
    g = Grammar.from_string("S: 'a' 'b';")
    for w in ["a\x0bq", "a\x0cq", "a\x1cq", "a\x85q", "a q", "a\r\nq", "a\rq", " ", "a\n", "a\n\n"]:
        for cls in (Parser, GLRParser):
            try:
                cls(g).parse(w)
                out.append(("parse of %r accepted" % w, False))
            except parglare.SyntaxError as e:
                try:
                    str(e)
                    out.append(("render %r" % w, True))
                except Exception as e2:  # noqa
                    out.append(("rendering SyntaxError for %r raised %s" % (w, type(e2).__name__), False))
            except Exception as e:  # noqa
                out.append(("parse of %r raised %s" % (w, type(e).__name__), False))
    # list input
    def num(inp, pos):
        return inp[pos:pos + 1] if isinstance(inp[pos], int) else None

    def word(inp, pos):
        return inp[pos:pos + 1] if isinstance(inp[pos], str) else None
    gl = Grammar.from_string("S: Num Word;\nterminals\nNum: ;\nWord: ;",
                             recognizers={"Num": num, "Word": word})
    if gl is not None:
        for cls in (Parser, GLRParser):
            for w in [[1, 2], [1], ["x"], [1, "a", 3]]:
                try:
                    cls(gl, ws=None).parse(w)
                    out.append(("list input %r accepted" % (w,), True))
                except parglare.SyntaxError as e:
                    try:
                        str(e)
                        ok = (e.location.line, e.location.column) == (1, e.location.start_position)
                        out.append(("list input %r line/col %r" % (w, (e.location.line, e.location.column)), ok))
                    except Exception as e2:  # noqa
                        out.append(("rendering SyntaxError for list %r raised %s" % (w, type(e2).__name__), False))
                except Exception as e:  # noqa
                    out.append(("list input %r raised %s" % (w, type(e).__name__), False))
    return out


def replay(ctx, rep):
    r = _worker(("replay", rep["grammar"], [rep["input"]]))
    for k, v in r["parsers"].items():
        print(k, v.get("results"))
    return 0
