"""C09 -- All ways of running semantic actions give the same result."""
import multiprocessing as mp
import re

from lib import common, gramgen

LEVEL = "proof"
ASSUMPTIONS = [
    "theorems (Properties/C09.v), for all grammars, tables, scanners, action environments, pure user actions, "
    "inputs and fuel: the on-the-fly LR run is the image of the tree-building LR run under the evaluator; that "
    "evaluator and Parser.call_actions agree (same value, or both raise); a user action is called with the "
    "sub-results of its production's right-hand side in order, the alternative's own entry of an action list "
    "(prod_symbol_id = position among the rule's alternatives) and every named match bound to the sub-result at "
    "the position where it is written; no actions => nested list; helper rules of + * ? and separators => flat "
    "list / [] / None for every derivation of the helper rule (elements after the first must not evaluate to None)",
    "user actions are pure functions of (production, start, end, sub-results, named matches); an exception raised "
    "by an action is modelled as a poisoned result passed up to the root (equal to aborting for accepted sentences)",
    "GLR route: theorem only for the decoding of forest[0] of a single-tree forest that contains the LR derivation "
    "(no GLR driver model in this tree); the GLR run itself is compared differentially",
    "terminal actions are restricted to none/pass_none/pass_nochange/pass_empty/user callables; token values are "
    "input slices (string recognizers)",
    "the models are tied to /repo by differential runs: results of the three routes, trees, resolved actions, "
    "prod_symbol_id, assignment dicts, and every built-in callable on random argument shapes",
    "recognizers are an oracle: the match matrix is computed with the impl's own recognizer objects",
]

WS = "\n\r\t "
FUEL = 20000
NAMES = ["x", "y", "z", "w"]
TERMS = [("a", "a"), ("b", "b"), ("c", ","), ("d", "d")]
ACT1 = ["pass_none", "pass_nochange", "pass_empty", "pass_single", "pass_inner", "collect_first",
        "collect_first_sep", "collect_right_first", "collect_right_first_sep", "obj"]
LIST_BUILTINS = ["collect", "collect_sep", "collect_optional", "collect_sep_optional", "collect_right",
                 "collect_right_sep", "collect_right_optional", "collect_right_sep_optional", "optional"]
TERM_ACTS = {"pass_none": 1, "pass_nochange": 2, "pass_empty": 3}
EXN = {"TypeError": 0, "ValueError": 1, "IndexError": 2}

ITEM_RE = re.compile(r"^(?:(\w+)(\?=|=))?(\w+)([+*?])?(?:\[(\w+)\])?$")


# ------------------------------------------------------------------ specs
def parse_rules(text):
    """'@ann S: x=A y?=b+[c] | EMPTY; ...' -> list of rules"""
    rules = []
    for chunk in text.split(";"):
        chunk = chunk.strip()
        if not chunk:
            continue
        ann = None
        if chunk.startswith("@"):
            ann, chunk = chunk[1:].split(None, 1)
        name, rhs = chunk.split(":", 1)
        alts = []
        for a in rhs.split("|"):
            items = []
            for tok in a.split():
                if tok == "EMPTY":
                    continue
                m = ITEM_RE.match(tok)
                items.append({"name": m.group(1), "op": m.group(2) or "=", "sym": m.group(3),
                              "mult": m.group(4) or "", "sep": m.group(5)})
            alts.append(items)
        rules.append({"name": name.strip(), "ann": ann, "alts": alts})
    return rules


def item_text(it):
    s = it["sym"] + it["mult"]
    if it["sep"]:
        s += "[%s]" % it["sep"]
    if it["name"]:
        s = it["name"] + it["op"] + s
    return s


def spec_text(spec):
    out = []
    for r in spec["rules"]:
        if r["ann"]:
            out.append("@" + r["ann"])
        out.append("%s: %s;" % (r["name"], " | ".join(
            " ".join(item_text(i) for i in a) if a else "EMPTY" for a in r["alts"])))
    if spec["terms"]:
        out.append("terminals")
    for t in spec["terms"]:
        if t.get("ann"):
            out.append("@" + t["ann"])
        out.append("%s: '%s';" % (t["name"], t["text"]))
    return "\n".join(out)


def mk_spec(rules_text, actions=None, term_anns=None):
    rules = parse_rules(rules_text)
    used = set()
    for r in rules:
        for a in r["alts"]:
            for i in a:
                used.add(i["sym"])
                if i["sep"]:
                    used.add(i["sep"])
    terms = [{"name": n, "text": t, "ann": (term_anns or {}).get(n)} for n, t in TERMS if n in used]
    return {"rules": rules, "terms": terms, "actions": actions or {}}


def U(k):
    return ["u", k]


def B(name):
    return ["b", name]


CURATED = [
    ("calc", mk_spec("E: E p E | E m E | o E q | n; p: a; m: b; o: c; q: d; n: a a",
                     {"E": ["list", [U(0), U(4), U(8), U(1)]]})),
    ("calc_flat", mk_spec("S: S a T | T; T: T b F | F; F: d | c S c",
                          {"S": ["list", [U(0), B("pass_single")]], "T": ["list", [U(4), B("pass_single")]],
                           "F": ["list", [U(8), B("pass_inner")]], "d": U(12)})),
    ("named_pos", mk_spec("S: a x=A B | b A x=B | d x=A x=B | c y?=O x=A; A: a; B: b; O: d | EMPTY",
                          {"S": ["list", [U(0), U(4), U(8), U(12)]]})),
    ("named_obj", mk_spec("S: x=A y?=O z=B; A: a | a A; B: b; O: d | EMPTY")),
    ("named_obj_list", mk_spec("S: x=A y=B | y=B x=A b; A: a; B: b",
                               {"S": ["list", [B("obj"), U(5)]]})),
    ("sugar_all", mk_spec("S: a+ b? d*")),
    ("sugar_sep", mk_spec("S: a+[c] b*[c] d?")),
    ("sugar_nt", mk_spec("S: A+ B*[c] d?; A: a b | a; B: d d", {"A": ["list", [U(0), U(4)]], "B": U(8)})),
    ("sugar_named", mk_spec("S: x=a+ y?=b? z=d*[c]")),
    ("sugar_none_elem", mk_spec("S: X+ d; X: a | b", {"X": ["list", [U(2), U(0)]]})),
    ("sugar_none_pass", mk_spec("S: X+[c]; @pass_none X: a")),
    ("collect_explicit", mk_spec("@collect L: L A | A; A: a | b", {"A": U(0)})),
    ("collect_sep_opt", mk_spec("S: d L d; @collect_sep_optional L: L c A | A | EMPTY; A: a | b")),
    ("collect_right", mk_spec("@collect_right L: A L | A; A: a | b b", {"A": U(4)})),
    ("collect_right_sep_opt", mk_spec("S: d L; @collect_right_sep_optional L: A c L | A | EMPTY; A: a")),
    ("collect_wrong_shape", mk_spec("@collect L: L c A | A; A: a")),
    ("collect_on_strings", mk_spec("@collect L: L a b | a b")),
    ("pass_inner", mk_spec("@pass_inner S: c A d | c A A d | c d; A: a", {"A": U(0)})),
    ("optional_explicit", mk_spec("S: O b; @optional O: a | EMPTY")),
    ("kw_to_builtin", mk_spec("@collect S: x=S a | a")),
    ("raise_order", mk_spec("S: A B; A: a; B: b", {"A": U(3), "B": U(7), "S": U(0)})),
    ("raise_kinds", mk_spec("S: A B; A: a; B: b", {"A": U(3), "B": B("obj"), "S": U(0)})),
    ("raise_left", mk_spec("S: A B; A: a; B: b", {"A": U(3), "S": U(0)})),
    ("term_actions", mk_spec("S: a b+ d?", {"a": U(0), "b": B("pass_none"), "d": U(2)},
                             {"a": None, "b": None})),
    ("term_ann", mk_spec("S: a b d", None, {"a": "pass_none", "b": "pass_empty", "d": "pass_nochange"})),
    ("by_action_name", mk_spec("@myact S: A b; @other A: a", {"myact": U(0), "other": U(4)})),
    ("unresolved_name", mk_spec("@myact S: A b; A: a", {"A": U(0)})),
    ("name_over_action_name", mk_spec("@myact S: a", {"myact": U(0), "S": U(4)})),
    ("override_builtin", mk_spec("@collect L: L a | a", {"collect": ["list", [U(0), U(4)]]})),
    ("list_len_mismatch", mk_spec("S: a | b", {"S": ["list", [U(0)]]})),
    ("list_on_terminal", mk_spec("S: a", {"a": ["list", [U(0)]]})),
    ("no_actions", mk_spec("S: A B | S c A; A: a | a A; B: b | EMPTY")),
    ("empty_alt_list", mk_spec("S: A b | A d; A: a | EMPTY", {"A": ["list", [U(0), U(4)]],
                                                             "S": ["list", [U(8), U(12)]]})),
    ("layout", mk_spec("S: a+ B; B: b; LAYOUT: LI | EMPTY; LI: d", {"B": U(0)})),
]


def random_spec(rng):
    for _ in range(100):
        n_nt = rng.randint(1, 3)
        nts = gramgen.NT_NAMES[:n_nt]
        terms = ["a", "b", "d"]
        p_sugar = rng.choice([0.0, 0.0, 0.15, 0.4])
        p_named = rng.choice([0.0, 0.2, 0.5])
        p_empty = rng.choice([0.0, 0.15])
        rules = []
        for nt in nts:
            alts = []
            for _ in range(rng.randint(1, 3)):
                if rng.random() < p_empty:
                    a = []
                else:
                    a = []
                    for _ in range(rng.randint(1, 3)):
                        sym = rng.choice(nts) if rng.random() < 0.4 else rng.choice(terms)
                        it = {"name": None, "op": "=", "sym": sym, "mult": "", "sep": None}
                        if rng.random() < p_sugar:
                            it["mult"] = rng.choice("+*?")
                            if it["mult"] != "?" and rng.random() < 0.3:
                                it["sep"] = "c"
                        if rng.random() < p_named:
                            it["name"] = rng.choice(NAMES[:3])
                            it["op"] = "=" if rng.random() < 0.7 else "?="
                        a.append(it)
                if [item_text(i) for i in a] not in [[item_text(i) for i in b] for b in alts]:
                    alts.append(a)
            ann = None
            r = rng.random()
            if r < 0.12:
                ann = rng.choice(ACT1)
            elif r < 0.22:
                cands = [b for b in LIST_BUILTINS
                         if (3 if "optional" in b and b != "optional" else 2) == len(alts)]
                ann = rng.choice(cands or LIST_BUILTINS)
            elif r < 0.28:
                ann = "myact"
            rules.append({"name": nt, "ann": ann, "alts": alts})
        plain = [(r["name"], [[("'%s'" % i["sym"] if i["sym"] in "abcd" else i["sym"])
                               for i in a if i["mult"] in ("", "+")] for a in r["alts"]]) for r in rules]
        if not gramgen.productive_reachable(plain):
            continue
        used = set(i["sym"] for r in rules for a in r["alts"] for i in a)
        if not (used & set("abd")):
            continue
        used |= set(i["sep"] for r in rules for a in r["alts"] for i in a if i["sep"])
        tspecs = []
        actions = {}
        kc = [0]

        def newk():
            kind = rng.choices([0, 1, 2, 3], [50, 30, 12, 8])[0]
            kc[0] += 1
            return 4 * kc[0] + kind

        for n, t in TERMS:
            if n in used:
                ann = rng.choice(list(TERM_ACTS)) if rng.random() < 0.08 else None
                tspecs.append({"name": n, "text": t, "ann": ann})
                if rng.random() < 0.15:
                    actions[n] = U(newk()) if rng.random() < 0.7 else B(rng.choice(list(TERM_ACTS)))
        for r in rules:
            x = rng.random()
            if x < 0.25:
                actions[r["name"]] = U(newk())
            elif x < 0.55:
                n = len(r["alts"]) if rng.random() < 0.95 else len(r["alts"]) + 1
                actions[r["name"]] = ["list", [U(newk()) if rng.random() < 0.75 else B(rng.choice(ACT1))
                                               for _ in range(n)]]
            elif x < 0.6:
                actions[r["name"]] = B(rng.choice(ACT1 + LIST_BUILTINS))
            if r["ann"] == "myact" and rng.random() < 0.8:
                actions["myact"] = U(newk())
        return {"rules": rules, "terms": tspecs, "actions": actions}
    return None


def random_sentence(rng, spec, max_depth=5, max_len=10):
    rules = {r["name"]: r for r in spec["rules"]}
    text = {t["name"]: t["text"] for t in spec["terms"]}

    def sym(s, depth):
        if s in text:
            return [text[s]]
        r = rules[s]
        alts = r["alts"]
        if depth <= 0:
            flat = [a for a in alts if all(i["sym"] in text or i["mult"] in ("*", "?") for i in a)]
            if not flat:
                return None
            alts = flat
        out = []
        for it in rng.choice(alts):
            if it["mult"] == "":
                n = 1
            elif it["mult"] == "+":
                n = rng.choice([1, 1, 2, 3])
            elif it["mult"] == "*":
                n = rng.choice([0, 1, 2]) if depth > 0 or it["sym"] in text else 0
            else:
                n = rng.choice([0, 1]) if depth > 0 or it["sym"] in text else 0
            for j in range(n):
                if j and it["sep"]:
                    out.append(text[it["sep"]])
                x = sym(it["sym"], depth - 1)
                if x is None:
                    return None
                out.extend(x)
        return out

    for _ in range(15):
        s = sym(spec["rules"][0]["name"], max_depth)
        if s is not None and len(s) <= max_len:
            return s
    return None


def layout_variant(rng, toks, spec=None):
    if spec is not None and any(r["name"] == "LAYOUT" for r in spec["rules"]):
        return "".join(t + rng.choice(["", "d"]) for t in toks)
    k = rng.randrange(4)
    if k == 0:
        return "".join(toks)
    if k == 1:
        return " ".join(toks)
    if k == 2:
        return " " + "\n".join(toks) + "\t"
    return "".join(t + rng.choice(["", " ", "  "]) for t in toks)


# ------------------------------------------------------------------ impl side
class UV:
    """value returned by an instrumented user action: not iterable, truthy, compared by content"""
    __slots__ = ("c",)

    def __init__(self, c):
        self.c = c


def canon(v, nt_by_name):
    if isinstance(v, UV):
        return v.c
    if v is None:
        return ["n"]
    if isinstance(v, bool):
        return ["b", 1 if v else 0]
    if isinstance(v, str):
        return ["s", v]
    if isinstance(v, list):
        return ["l", [canon(x, nt_by_name) for x in v]]
    if hasattr(v, "_pg_children_names"):
        return ["o", nt_by_name.get(type(v).__name__, -1),
                [[NAMES.index(n) + 1, canon(c, nt_by_name)]
                 for n, c in zip(v._pg_children_names, v._pg_children)],
                v._pg_start_position, v._pg_end_position]
    return ["?", repr(type(v))]


def truthy_c(c):
    t = c[0]
    if t == "n":
        return False
    if t == "b":
        return bool(c[1])
    if t == "s":
        return len(c[1]) > 0
    if t == "l":
        return len(c[1]) > 0
    return True


class Env:
    """per-job instrumented actions, built inside the worker"""

    def __init__(self, spec):
        self.spec = spec
        self.log = []
        self.gi = None
        self.nt_by_name = {}

    def user(self, k, terminal):
        env = self

        def act_nt(context, nodes, **kw):
            kind = k % 4
            p = context.production.prod_id
            entry = ["u", k, p, context.start_position, context.end_position,
                     [canon(x, env.nt_by_name) for x in nodes],
                     [[NAMES.index(n) + 1, canon(v, env.nt_by_name)] for n, v in kw.items()]]
            env.log.append((entry, getattr(context, "layout_content", None), 0))
            if kind == 2:
                return None
            if kind == 3:
                raise ValueError("user action %d" % k)
            return UV(entry)

        def act_t(context, value, *rest):
            kind = k % 4
            y = env.gi.term_index(context.token.symbol)
            entry = ["u", k, y, context.start_position, context.end_position,
                     [canon(value, env.nt_by_name)], []]
            env.log.append((entry, getattr(context, "layout_content", None), 1))
            if kind == 2:
                return None
            if kind == 3:
                raise ValueError("user action %d" % k)
            return UV(entry)

        f = act_t if terminal else act_nt
        f._k = k
        return f

    def build(self, terminal_names):
        import parglare.actions as pa
        acts = {}
        for key, a in self.spec["actions"].items():
            term = key in terminal_names
            if a[0] == "u":
                acts[key] = self.user(a[1], term)
            elif a[0] == "b":
                acts[key] = getattr(pa, a[1])
            else:
                acts[key] = [self.user(x[1], False) if x[0] == "u" else getattr(pa, x[1]) for x in a[1]]
        return acts


def encode_callable(f):
    """python callable -> act1 code of the model (None = not modelled)"""
    import parglare.actions as pa
    for i, n in enumerate(ACT1):
        if f is getattr(pa, n):
            return i
    if hasattr(f, "_k"):
        return 100 + f._k
    if getattr(f, "__qualname__", "").endswith("_make_multiplicity_symbol.<locals>.action"):
        return 10
    return None


def encode_action(a):
    """symbol.action -> sem_action sx: [] / [1, code] / [2, [codes]]"""
    if a is None:
        return []
    if isinstance(a, list):
        codes = [encode_callable(x) for x in a]
        if None in codes:
            return None
        return [2, codes]
    c = encode_callable(a)
    return None if c is None else [1, c]


def opt(x):
    return [] if x is None else [x]


def _run_route(fn):
    from lib import impl
    try:
        with impl.time_limit(5):
            return ("ok", fn())
    except (TypeError, ValueError, IndexError) as e:
        return ("exc", type(e).__name__)
    except BaseException as e:  # noqa
        return ("err", impl.exc_kind(e))


def _worker(job):
    name, spec, inputs = job
    import parglare
    import parglare.actions as pa
    from parglare import GLRParser, Grammar, Parser
    from parglare.grammar import EMPTY
    from lib import impl
    gtext = spec_text(spec)
    out = {"name": name, "gtext": gtext, "spec": spec, "gerr": None, "results": {}}
    terminal_names = set(t["name"] for t in spec["terms"])
    envs = []
    parsers = []
    for route in range(3):
        env = Env(spec)
        try:
            with impl.time_limit(10):
                g = Grammar.from_string(gtext)
        except BaseException as e:  # noqa
            out["gerr"] = impl.exc_kind(e)
            return out
        env.gi = impl.GInfo(g)
        env.nt_by_name = {n.fqn: i for i, n in enumerate(env.gi.nonterms)}
        acts = env.build(terminal_names)
        # what the model predicts for action resolution, from the grammar before Parser() runs
        if route == 0:
            res_cases = []
            unmod = [False]

            def oenc(present, a):
                if not present:
                    return []
                e = encode_action(a)
                if e is None:
                    unmod[0] = True
                    return []
                return [e]

            for s in g:
                is_t = isinstance(s, parglare.grammar.Terminal)
                an = s.action_name
                enc = [oenc(s.name in acts, acts.get(s.name)),
                       1 if an is not None else 0,
                       oenc(an is not None and an in acts, acts.get(an)),
                       oenc(an is not None and hasattr(pa, an), getattr(pa, an, None) if an else None),
                       oenc(s.grammar_action is not None, s.grammar_action),
                       1 if acts else 0,
                       len(getattr(s, "productions", None) or []),
                       1 if is_t else 0]
                res_cases.append((s.name, enc))
            out["resolve_unmodelled"] = unmod[0]
            out["resolve"] = res_cases
        if acts and sum(map(ord, name)) % 3 == 0:
            # history: the same Grammar object first served a parser with ANOTHER action table (an
            # action for every symbol); the parser under test must still get exactly the actions
            # of its own table -- results are compared with the model as for a fresh Grammar.
            # (Only with a non-empty table: with none, Parser() skips action resolution altogether
            # and the previous parser's actions stay on the Grammar -- KF-C09-actions-stored-on-grammar,
            # probed separately by probe_action_history.)
            out["history"] = True

            def _noise(_, nodes=None, *a, **k):
                return "NOISE"
            _noise._k = 899          # encodes as a user action no spec ever uses
            try:
                with impl.time_limit(5), impl.quiet():
                    Parser(g, actions={s.name: _noise for s in g})
            except BaseException:  # noqa
                pass
        import time as _time
        t_c = _time.time()
        try:
            if route > 0 and parsers[0][2] == "Timeout":
                raise impl.Timeout()
            with impl.time_limit(5), impl.quiet():
                if route == 0:
                    p = Parser(g, actions=acts)
                elif route == 1:
                    p = Parser(g, actions=acts, build_tree=True)
                else:
                    p = GLRParser(g, actions=acts)
            outcome = "ok"
        except BaseException as e:  # noqa
            outcome = impl.exc_kind(e)
            if _time.time() - t_c > 4.5:
                outcome = "Timeout"     # the alarm may surface as another exception type
            p = None
        envs.append(env)
        parsers.append((g, p, outcome))
    out["construct"] = [o for _, _, o in parsers]
    g0, p0, o0 = parsers[0]
    gi = envs[0].gi
    if o0 == "ok":
        out["resolved"] = [(s.name, encode_action(s.action)) for s in g0]
    if any(o != "ok" for _, _, o in parsers[:2]):
        return out
    # ---- dump for the model
    out["grammar"] = impl.model_grammar(gi)
    out["table"] = impl.dump_table(p0.table, gi)
    out["terms"] = impl.dump_terms(gi)
    out["stop"] = impl.stop_id(gi)
    out["has_layout"] = g0.get_symbol("LAYOUT") is not None
    if out["has_layout"]:
        out["layout_table"] = impl.dump_table(p0.layout_parser.table, gi)
    nt_actions = [encode_action(n.action) for n in gi.nonterms]
    term_actions = []
    for t in gi.terms:
        a = t.action
        if a is None:
            term_actions.append(0)
        elif hasattr(a, "_k"):
            term_actions.append(100 + a._k)
        elif a is pa.pass_none:
            term_actions.append(1)
        elif a is pa.pass_nochange:
            term_actions.append(2)
        elif a is pa.pass_empty:
            term_actions.append(3)
        else:
            term_actions.append(None)
    out["unmodelled"] = (None in nt_actions) or (None in term_actions)
    cls = [1 if getattr(n, "cls", None) is not None else 0 for n in gi.nonterms]
    rules = {r["name"]: r for r in spec["rules"]}
    decls = []
    seen = {}
    out["decl_mismatch"] = None
    for p in g0.productions:
        nm = p.symbol.name
        idx = seen.get(nm, 0)
        seen[nm] = idx + 1
        n_rhs = len([s for s in list.__iter__(p.rhs) if s is not EMPTY])
        if p.prod_id == 0:
            decls.append([[]])
        elif nm in rules and idx < len(rules[nm]["alts"]):
            alt = rules[nm]["alts"][idx]
            if len(alt) != n_rhs:
                out["decl_mismatch"] = [nm, idx]
            decls.append([[NAMES.index(i["name"]) + 1, 1 if i["op"] == "=" else 0] if i["name"] else []
                          for i in alt])
        else:
            decls.append([[] for _ in range(n_rhs)])
    out["aenv"] = [nt_actions, term_actions, cls, decls]
    out["impl_psid"] = [p.prod_symbol_id for p in g0.productions]
    out["impl_assign"] = [[[NAMES.index(a.name) + 1, 1 if a.op == "=" else 0, a.index]
                           for a in (p.assignments or {}).values()] for p in g0.productions]
    out["prod_rule"] = [[p.symbol.name, len(p.rhs)] for p in g0.productions]
    out["nt_names"] = [n.name for n in gi.nonterms]
    out["rx"] = {}
    p1 = parsers[1][1]
    p2 = parsers[2][1]
    for w in inputs:
        out["rx"][w] = impl.rx_matrix(gi, w)
        r = {}
        # route 1: actions during parsing
        envs[0].log = []
        k, v = _run_route(lambda: p0.parse(w))
        r["fly"] = [k, canon(v, envs[0].nt_by_name) if k == "ok" else v]
        r["fly_log"] = envs[0].log
        # route 2: tree, then call_actions
        envs[1].log = []
        k, t = _run_route(lambda: p1.parse(w))
        if k == "ok":
            r["tree"] = impl.node_sx(t, envs[1].gi)
            if envs[1].log:
                r["tree_build_called_actions"] = True
            k2, v2 = _run_route(lambda: p1.call_actions(t))
            r["deferred"] = [k2, canon(v2, envs[1].nt_by_name) if k2 == "ok" else v2]
            r["deferred_log"] = envs[1].log
            envs[1].log = []
            # sugar oracle: helper nodes against their element subtrees, with the impl's own
            # call_actions on the subtrees
            r["sugar"] = _sugar_oracle(p1, t, envs[1])
            r["nested"] = _nested(t)
        else:
            r["tree"] = None
            r["tree_err"] = [k, t]
        # route 3: GLR forest, single tree
        if p2 is not None:
            envs[2].log = []
            k, f = _run_route(lambda: p2.parse(w))
            if k == "ok":
                kn, n = _run_route(lambda: len(f))
                r["glr_n"] = n if kn == "ok" else -1
                if kn == "ok" and n == 1:
                    kt, t3 = _run_route(lambda: f[0])
                    if kt == "ok":
                        r["glr_tree"] = impl.tree_sx(t3, envs[2].gi)
                        envs[2].log = []
                        k3, v3 = _run_route(lambda: p2.call_actions(t3))
                        r["glr"] = [k3, canon(v3, envs[2].nt_by_name) if k3 == "ok" else v3]
                        r["glr_log"] = envs[2].log
            else:
                r["glr_err"] = [k, f]
        out["results"][w] = r
    return out


def _nested(node):
    if node.is_term():
        return ["s", node.value]
    ch = [_nested(c) for c in node.children]
    return ch[0] if len(ch) == 1 else ["l", ch]


SUGAR_RE = re.compile(r"^(\w+?)_(0|1|opt)(?:_(\w+))?$")


def _sugar_oracle(parser, tree, env):
    """for every node of a +/*/? helper symbol that is not inside another node of the same helper:
    (symbol name, result of call_actions on the node, results of call_actions on its elements)"""
    out = []
    rules = set(r["name"] for r in env.spec["rules"])

    def elements(n, helper, elem_names, acc):
        for c in n.children:
            if c.is_nonterm() and c.symbol.name in helper:
                elements(c, helper, elem_names, acc)
            elif c.symbol.name in elem_names:
                acc.append(c)

    def visit(n):
        if n.is_term():
            return
        nm = n.symbol.name
        m = SUGAR_RE.match(nm)
        if m and nm not in rules:
            base, kind, sep = m.group(1), m.group(2), m.group(3)
            helpers = {nm, "%s_1%s" % (base, "_" + sep if sep else "")}
            acc = []
            elements(n, helpers, {base}, acc)
            k, v = _run_route(lambda: parser.call_actions(n))
            ev = []
            for e in acc:
                ke, ve = _run_route(lambda: parser.call_actions(e))
                ev.append([ke, canon(ve, env.nt_by_name) if ke == "ok" else ve])
            out.append([nm, kind, [k, canon(v, env.nt_by_name) if k == "ok" else v], ev])
            for e in acc:
                visit(e)
            return
        for c in n.children:
            visit(c)

    visit(tree)
    env.log = []
    return out


# ------------------------------------------------------------------ built-ins on random arguments
def rand_val(rng, depth=2):
    r = rng.random()
    if r < 0.25 or depth == 0:
        s = rng.randrange(5)
        return ["s", s, s + rng.choice([1, 1, 2, 3])]
    if r < 0.55:
        return ["l", [rand_val(rng, depth - 1) for _ in range(rng.choice([0, 1, 2, 3]))]]
    if r < 0.7:
        return ["n"]
    if r < 0.8:
        return ["b", rng.randrange(2)]
    if r < 0.9:
        return ["o", 0, [[rng.randrange(1, 4), rand_val(rng, depth - 1)]], rng.randrange(4), 4 + rng.randrange(3)]
    return ["u", 4 * rng.randrange(5), rng.randrange(3), 0, 1, [rand_val(rng, depth - 1)], []]


TEXT = "abcdefghij"


def val_to_sx(v):
    t = v[0]
    if t == "s":
        return [0, v[1], v[2]]
    if t == "l":
        return [1, [val_to_sx(x) for x in v[1]]]
    if t == "n":
        return [2]
    if t == "b":
        return [3, v[1]]
    if t == "o":
        return [4, v[1], [[n, val_to_sx(x)] for n, x in v[2]], v[3], v[4]]
    return [5, v[1], v[2], v[3], v[4], [val_to_sx(x) for x in v[5]], [[n, val_to_sx(x)] for n, x in v[6]]]


def val_to_canon(v):
    """positional value -> content form (strings are slices of TEXT)"""
    t = v[0]
    if t == "s":
        return ["s", TEXT[v[1]:v[2]]]
    if t == "l":
        return ["l", [val_to_canon(x) for x in v[1]]]
    if t in ("n", "b"):
        return v
    if t == "o":
        return ["o", v[1], [[n, val_to_canon(x)] for n, x in v[2]], v[3], v[4]]
    return ["u", v[1], v[2], v[3], v[4], [val_to_canon(x) for x in v[5]], [[n, val_to_canon(x)] for n, x in v[6]]]


def sx_to_canon(s, w):
    """model value sx -> content form over input w"""
    t = s[0]
    if t == 0:
        return ["s", w[s[1]:s[2]]]
    if t == 1:
        return ["l", [sx_to_canon(x, w) for x in s[1]]]
    if t == 2:
        return ["n"]
    if t == 3:
        return ["b", s[1]]
    if t == 4:
        return ["o", s[1], [[a[0], sx_to_canon(a[1], w)] for a in s[2]], s[3], s[4]]
    return ["u", s[1], s[2], s[3], s[4], [sx_to_canon(x, w) for x in s[5]],
            [[a[0], sx_to_canon(a[1], w)] for a in s[6]]]


def res_to_canon(s, w):
    if s[0] == 0:
        return ["ok", sx_to_canon(s[1], w)]
    return ["exc", {v: k for k, v in EXN.items()}[s[1]]]


class _Obj:
    def __init__(self, **attrs):
        self._pg_children = list(attrs.values())
        self._pg_children_names = list(attrs.keys())


class X0(_Obj):
    pass


class _Sym:
    pass


class _Prod:
    pass


class _Ctx:
    pass


def _val_to_py(v):
    t = v[0]
    if t == "s":
        return TEXT[v[1]:v[2]]
    if t == "l":
        return [_val_to_py(x) for x in v[1]]
    if t == "n":
        return None
    if t == "b":
        return bool(v[1])
    if t == "o":
        o = X0(**{NAMES[n - 1]: _val_to_py(x) for n, x in v[2]})
        o._pg_start_position, o._pg_end_position = v[3], v[4]
        o._cls_id = v[1]
        return o
    return UV(val_to_canon(v))


def _builtin_worker(cases):
    import parglare.actions as pa
    out = []
    for (code, nodes, kw, has_cls, s, e) in cases:
        f = getattr(pa, ACT1[code]) if code < 10 else None
        ctx = _Ctx()
        ctx.production = _Prod()
        ctx.production.symbol = _Sym()
        ctx.production.symbol.cls = X0 if has_cls else None
        ctx.start_position, ctx.end_position = s, e
        if code == 10:
            def f(_, nodes):  # the closure of grammar.py:992-995, re-stated (cannot be reached by name)
                if nodes:
                    return nodes[0]
                return []
        pynodes = [_val_to_py(x) for x in nodes]
        try:
            if kw is None:
                r = f(ctx, pynodes)
            else:
                r = f(ctx, pynodes, **{NAMES[n - 1]: _val_to_py(x) for n, x in kw})
            out.append(["ok", canon(r, {"X0": 0})])
        except (TypeError, ValueError, IndexError) as ex:
            out.append(["exc", type(ex).__name__])
    return out


def builtin_cases(rng, n):
    cases = []
    for _ in range(n):
        code = rng.randrange(11)
        k = rng.choice([0, 1, 2, 2, 3, 3, 4])
        nodes = [rand_val(rng) for _ in range(k)]
        # bias towards the shapes collect* expect
        if nodes and rng.random() < 0.5:
            nodes[0] = ["l", [rand_val(rng, 1) for _ in range(rng.randrange(3))]]
        if len(nodes) > 1 and rng.random() < 0.3:
            nodes[-1] = ["l", [rand_val(rng, 1) for _ in range(rng.randrange(3))]]
        kw = None
        if rng.random() < 0.25:
            kw = [[i + 1, rand_val(rng, 1)] for i in range(rng.randrange(1, 3))]
        cases.append((code, nodes, kw, rng.randrange(2), rng.randrange(3), 3 + rng.randrange(3)))
    return cases


# ------------------------------------------------------------------ jobs
def gen_jobs(ctx):
    rng = ctx.rng
    quick = ctx.quick()
    jobs = []
    for name, spec in CURATED:
        inputs = set()
        for _ in range(14 if quick else 40):
            s = random_sentence(rng, spec)
            if s is not None:
                inputs.add(layout_variant(rng, s, spec))
        alpha = [t["text"] for t in spec["terms"]]
        for s in gramgen.all_strings(alpha, 2 if quick else 3):
            inputs.add(s)
        jobs.append((name, spec, sorted(inputs)))
    nrand = 320 if quick else 5000
    for i in range(nrand):
        spec = random_spec(rng)
        if spec is None:
            continue
        inputs = set()
        for _ in range(10 if quick else 16):
            s = random_sentence(rng, spec)
            if s is not None:
                inputs.add(layout_variant(rng, s, spec))
        alpha = [t["text"] for t in spec["terms"]]
        base = list(gramgen.all_strings(alpha, 2))
        rng.shuffle(base)
        inputs.update(base[:4])
        jobs.append(("rand%d" % i, spec, sorted(inputs)))
    return jobs


def same_shape(t1, t2):
    return t1 == t2


def is_exc(r):
    return r[0] == "exc"


def run(ctx):
    import time
    t0 = time.time()
    jobs = gen_jobs(ctx)
    with mp.Pool(common.NPROC) as pool:
        results = pool.map(_worker, jobs, chunksize=2)
        bcases = builtin_cases(ctx.rng, 3000 if ctx.quick() else 40000)
        chunks = [bcases[i::common.NPROC] for i in range(common.NPROC)]
        bres_chunks = pool.map(_builtin_worker, chunks)
    bres = [None] * len(bcases)
    for ci, ch in enumerate(bres_chunks):
        for j, r in enumerate(ch):
            bres[ci + j * common.NPROC] = r
    st = {"grammars": 0, "grammar_errors": {}, "construct": {}, "inputs": 0, "accepted": 0, "rejected": 0,
          "three_routes_compared": 0, "glr_single": 0, "glr_ambiguous": 0, "glr_tree_differs": 0,
          "action_exceptions": 0, "exception_identity_differs": 0, "user_calls": 0, "named_calls": 0,
          "list_action_calls": 0, "sugar_nodes": 0, "obj_results": 0, "resolve_cases": 0, "init_errors": 0,
          "psid_compared": 0, "assign_compared": 0, "builtin_cases": len(bcases), "builtin_exceptions": 0,
          "model_out_of_fuel": 0, "nested_checked": 0, "layout_grammars": 0, "unmodelled_actions": 0,
          "fly_raised_before_syntax_error": 0}
    probe_action_history(ctx, st)
    probe_imported_alternatives(ctx, st)
    probe_inplace_lists(ctx, st)
    mcases = []
    meta = []
    wsl = [ord(c) for c in WS]
    for r in results:
        st["grammars"] += 1
        if r["gerr"]:
            st["grammar_errors"][r["gerr"]] = st["grammar_errors"].get(r["gerr"], 0) + 1
        for (nm, enc) in r.get("resolve", []):
            mcases.append((94, enc))
            meta.append(("resolve", r, nm, None))
        if "grammar" not in r or r.get("unmodelled"):
            if r.get("unmodelled"):
                st["unmodelled_actions"] += 1
            continue
        mcases.append((92, r["grammar"]))
        meta.append(("psid", r, None, None))
        for pid, d in enumerate(r["aenv"][3]):
            if any(d_i for d_i in d):
                mcases.append((93, d))
                meta.append(("assign", r, pid, None))
        lay = [r["layout_table"]] if r.get("has_layout") else []
        if lay:
            st["layout_grammars"] += 1
        pconf = [r["grammar"], r["table"], r["terms"], r["stop"], 1, 1, wsl, lay]
        for w, res in r["results"].items():
            pin = [[ord(ch) for ch in w], r["rx"][w]]
            mcases.append((90, [pconf, pin, FUEL, 0, r["aenv"]]))
            meta.append(("routes", r, w, None))
            if res.get("glr_tree") is not None:
                mcases.append((91, [r["grammar"], r["aenv"], res["glr_tree"]]))
                meta.append(("glr", r, w, None))
    for i, c in enumerate(bcases):
        code, nodes, kw, has_cls, s, e = c
        mcases.append((95, [code, [val_to_sx(x) for x in nodes],
                            [] if kw is None else [[[n, val_to_sx(x)] for n, x in kw]], has_cls, s, e]))
        meta.append(("builtin", None, i, None))
    import time
    t1 = time.time()
    outs = common.model_run(mcases)
    t2 = time.time()
    small = [i for i, c in enumerate(mcases) if c[0] != 90 or len(common.sx_dump(c[1])) < 2600]
    nx, xok, xlog = common.coq_crosscheck("C09", [mcases[i] for i in small], [outs[i] for i in small],
                                          ctx.rng, sample=30 if ctx.quick() else 200)
    if not xok:
        ctx.violation("extraction cross-check failed: OCaml driver and vm_compute disagree",
                      {"log": xlog}, no_input=True)
    t3 = time.time()
    ctx.notes.append("timing: impl %.1fs, model %.1fs (%d cases), vm_compute cross-check %.1fs"
                     % (t1 - t0, t2 - t1, len(mcases), t3 - t2))
    distinct = set()
    samples = []
    resolve_pred = {}
    for (kind, r, w, _), o in zip(meta, outs):
        if kind == "builtin":
            code, nodes, kw, has_cls, s, e = bcases[w]
            exp = res_to_canon(o, TEXT)
            got = bres[w]
            if got[0] == "exc":
                st["builtin_exceptions"] += 1
            if exp != got:
                ctx.violation("built-in %s: model %r, impl %r" % ((ACT1 + ["star_closure"])[code], exp, got),
                              {"action": (ACT1 + ["star_closure"])[code], "nodes": [val_to_canon(x) for x in nodes],
                               "kwargs": kw, "model": exp, "impl": got}, no_input=True,
                              key="builtin-" + str(code))
            continue
        rep = {"grammar": r["gtext"], "actions": r["spec"]["actions"], "input": w, "spec": r["spec"]}
        if kind == "resolve":
            st["resolve_cases"] += 1
            resolve_pred.setdefault(id(r), []).append((w, o))
            continue
        if kind == "psid":
            st["psid_compared"] += 1
            if o != r["impl_psid"]:
                ctx.violation("prod_symbol_id: model %r, impl %r" % (o, r["impl_psid"]), rep, no_input=True,
                              key="psid")
            # spec level: the i-th production of a rule is its i-th written alternative
            continue
        if kind == "assign":
            st["assign_compared"] += 1
            if o != r["impl_assign"][w]:
                ctx.violation("assignments of production %d: model %r, impl %r" % (w, o, r["impl_assign"][w]),
                              rep, no_input=True, key="assign")
            continue
        res = r["results"][w]
        if kind == "glr":
            exp = res_to_canon(o[0], w)
            if res["glr"] != exp and not (is_exc(exp) and is_exc(res["glr"])):
                ctx.violation("GLR call_actions: model %r, impl %r" % (exp, res["glr"]),
                              dict(rep, model=exp, impl=res["glr"]), no_input=True, key="diff-glr")
            continue
        # kind == routes
        st["inputs"] += 1
        fly_m, tree_m, ca_m = o
        if ["err", "Timeout"] in (res["fly"], res.get("tree_err"), res.get("deferred")):
            st["impl_timeouts"] = st.get("impl_timeouts", 0) + 1
            if fly_m[0] != 3:
                ctx.notes.append("impl timed out (5 s) where the model terminates: %r %r" % (r["gtext"], w))
            continue
        if fly_m[0] == 3 or tree_m[0] == 3:
            st["model_out_of_fuel"] += 1
            continue
        if res["tree"] is None:
            st["rejected"] += 1
            if tree_m[0] == 0:
                ctx.violation("impl tree route fails (%r), model accepts" % (res.get("tree_err"),), rep,
                              no_input=True, key="diff-reject")
            # the on-the-fly route must fail too: same kind, or an action exception raised earlier
            fk = res["fly"]
            if fk[0] == "ok":
                ctx.violation("on-the-fly route returns a result although the tree route fails with %r"
                              % (res.get("tree_err"),), dict(rep, fly=fk), key="fly-accepts-rejected")
            elif fk[0] == "exc":
                st["fly_raised_before_syntax_error"] += 1
            elif fk != res.get("tree_err"):
                ctx.violation("routes fail differently: on-the-fly %r, tree %r" % (fk, res.get("tree_err")),
                              rep, key="reject-kind")
            continue
        st["accepted"] += 1
        # ---- correspondence with the model
        if tree_m[0] != 0 or tree_m[1] != res["tree"]:
            ctx.violation("LR tree: impl and model differ", dict(rep, model=tree_m, impl=res["tree"]),
                          no_input=True, key="diff-tree")
            continue
        fly_exp = res_to_canon(fly_m[1], w) if fly_m[0] == 0 else ["model-tag", fly_m[0]]
        ca_exp = res_to_canon(ca_m[0], w)
        if res["fly"] != fly_exp:
            ctx.violation("on-the-fly result: model %r, impl %r" % (fly_exp, res["fly"]),
                          dict(rep, model=fly_exp, impl=res["fly"]), no_input=True, key="diff-fly")
        if res["deferred"] != ca_exp:
            ctx.violation("call_actions result: model %r, impl %r" % (ca_exp, res["deferred"]),
                          dict(rep, model=ca_exp, impl=res["deferred"]), no_input=True, key="diff-deferred")
        # ---- the property itself on the impl
        check_property(ctx, st, r, w, res, rep)
        key = (r["gtext"], repr(r["spec"]["actions"]), w)
        distinct.add(key)
        if len(samples) < 4 and len(w) >= 3 and res["fly"][0] == "ok" and r["spec"]["actions"]:
            samples.append({"grammar": r["gtext"], "actions": r["spec"]["actions"], "input": w,
                            "result": res["fly"]})
    # ---- action resolution: model prediction vs what Parser() did
    for r in results:
        if "resolve" not in r:
            continue
        pred = resolve_pred.get(id(r), [])
        c = r["construct"]
        st["construct"][repr(c)] = st["construct"].get(repr(c), 0) + 1
        rep = {"grammar": r["gtext"], "actions": r["spec"]["actions"]}
        if "Timeout" in c:
            st["construct_timeouts"] = st.get("construct_timeouts", 0) + 1
        elif c[0] != c[1] or (c[2] != c[0] and (c[0] in ("ok", "ParserInitError") or c[2] != "ok")):
            ctx.violation("the three parsers are not constructed alike: %r" % (c,), rep, key="construct")
        m_err = any(o == [2] for _, o in pred)
        unmod = r.get("resolve_unmodelled") or any(a is None for _, a in r.get("resolved", []))
        if unmod:
            continue
        if c[0] == "ParserInitError":
            st["init_errors"] += 1
            if not m_err:
                ctx.violation("Parser raises ParserInitError, model resolves all actions", rep, no_input=True,
                              key="resolve-initerror")
        elif c[0] == "ok":
            if m_err:
                ctx.violation("model predicts ParserInitError, Parser is constructed", rep, no_input=True,
                              key="resolve-noerror")
            else:
                actual = dict(r["resolved"])
                for nm, o in pred:
                    exp = [] if o == [0] else o[1]
                    if actual.get(nm) != exp:
                        ctx.violation("resolved action of %s: model %r, impl %r" % (nm, exp, actual.get(nm)),
                                      rep, no_input=True, key="resolve-diff")
                # property level: a name given in actions= wins over everything else
                for nm, a in r["spec"]["actions"].items():
                    if nm in actual and a[0] == "u" and actual[nm] != [1, 100 + a[1]]:
                        ctx.violation("actions[%r] is not the action of symbol %s" % (nm, nm), rep,
                                      key="override-ignored")
    # ---- sanity floor: the curated specs must construct and parse (a change that breaks grammar
    # construction altogether must not let the check pass on an empty comparison)
    expected_init_error = {"unresolved_name", "list_len_mismatch", "list_on_terminal"}
    for r in results:
        if r["name"].startswith("rand"):
            continue
        rep = {"grammar": r["gtext"], "actions": r["spec"]["actions"], "spec": r["spec"]}
        c = r.get("construct")
        if r["gerr"]:
            ctx.violation("curated grammar %s is rejected by Grammar.from_string: %s" % (r["name"], r["gerr"]),
                          rep, key="curated-gerr")
        elif r["name"] in expected_init_error:
            if c[0] != "ParserInitError":
                ctx.violation("curated case %s: expected ParserInitError, got %r" % (r["name"], c), rep,
                              key="curated-init")
        elif c[0] != "ok" or not any(x.get("tree") is not None for x in r.get("results", {}).values()):
            ctx.violation("curated case %s: construction %r / no accepted input" % (r["name"], c), rep,
                          no_input=True, key="curated-ok")
    if st["accepted"] < 200:
        ctx.violation("only %d accepted parses were compared (generator or impl broken)" % st["accepted"],
                      {"distribution": st}, no_input=True, key="floor")
    cov = {
        "evaluations": st["inputs"] + len(bcases),
        "distinct_nontrivial": len(distinct),
        "rule": "curated specs (calc, named matches at different positions, all sugar forms with/without separators, "
                "explicit collect*/optional/pass_* rules, wrong shapes, resolution corner cases, LAYOUT) + seeded random "
                "specs: <=3 rules, random @built-in annotations, named matches (=, ?=, repeated names), sugar, action "
                "dicts with per-rule callables, per-alternative lists (user/built-in mix, 5% wrong length), terminal "
                "actions, user actions that record / return None / raise; inputs: random sentences of the spec with 4 "
                "layout variants + all short strings; non-trivial = accepted sentence with all LR routes compared; "
                "distinct by (grammar, actions, input); plus every built-in callable on random argument lists",
        "samples": samples,
        "traces_validated_against_impl": st["accepted"],
        "distribution": st,
        "crosscheck_vm_compute_cases": nx,
        "exhaustive": False,
    }
    return cov


KF_HIST = "KF-C09-actions-stored-on-grammar"


def probe_action_history(ctx, st):
    """actions live on the Grammar's symbols: (1) a parser built WITHOUT actions after one built with
    actions from the same Grammar object runs the other parser's actions; (2) an earlier parser runs the
    action table of the parser built last.  Fixed probes; every other history scenario is checked
    against the model in the workers."""
    from parglare import Grammar, Parser
    from lib import impl
    text = "S: a;\nterminals\na: 'a';"
    probs = []
    try:
        with impl.time_limit(10), impl.quiet():
            g = Grammar.from_string(text)
            Parser(g, actions={"S": lambda _, n: "FIRST"})
            r1 = Parser(g).parse("a")
            g2 = Grammar.from_string(text)
            p1 = Parser(g2, actions={"S": lambda _, n: "FIRST"})
            Parser(g2, actions={"S": lambda _, n: "SECOND"})
            r2 = p1.parse("a")
    except BaseException as e:  # noqa
        ctx.violation("action-history probe raised %s" % impl.exc_kind(e), {"grammar": text}, key="hist-exc")
        return
    st["history_probes"] = 2
    if r1 != ["a"]:
        probs.append("Parser(g) built after Parser(g, actions={'S': f}) returns %r instead of ['a']" % (r1,))
    if r2 != "FIRST":
        probs.append("p1 = Parser(g, actions={'S': f1}); Parser(g, actions={'S': f2}); p1.parse('a') returns %r "
                     "instead of f1's result" % (r2,))
    expected = (r1 == "FIRST" or r1 == ["a"]) and (r2 == "SECOND" or r2 == "FIRST")
    if probs and expected and any(e["id"] == KF_HIST for e in ctx.kf):
        ctx.known_finding(KF_HIST, "semantic actions are stored on the shared Grammar symbols: " + "; ".join(probs))
    elif probs:
        ctx.violation("action history: " + "; ".join(probs), {"grammar": text, "input": "a"}, key="hist")


def probe_imported_alternatives(ctx, st):
    """a list of per-alternative actions picks the action of the alternative that was reduced, also when
    rules of an imported file share their bare name with rules of the importing file"""
    import itertools
    import os
    import shutil
    import tempfile
    from parglare import GLRParser, Grammar, Parser
    from lib import impl
    d = tempfile.mkdtemp(prefix="c09imp")
    n = 0
    try:
        with open(os.path.join(d, "base.pg"), "w") as f:
            f.write("Item: 'p' | 'q' Tail | 'r';\nTail: 't' | EMPTY;\n")
        with open(os.path.join(d, "root.pg"), "w") as f:
            f.write("import 'base.pg' as base;\nS: Item base.Item Tail;\nItem: 'x' | 'y';\nTail: 'u' | 'v';\n")

        def tag(t):
            return lambda _, nodes: t
        actions = {"Item": [tag("root-x"), tag("root-y")], "base.Item": [tag("b-p"), tag("b-q"), tag("b-r")],
                   "Tail": [tag("root-u"), tag("root-v")], "base.Tail": [tag("b-t"), tag("b-e")]}
        want_item = {"x": "root-x", "y": "root-y"}
        want_base = {"p": "b-p", "q": "b-q", "qt": "b-q", "r": "b-r"}
        want_tail = {"u": "root-u", "v": "root-v"}
        for route in range(3):
            with impl.time_limit(30), impl.quiet():
                g = Grammar.from_file(os.path.join(d, "root.pg"))
                g.file_path = None
                if route == 0:
                    run1 = Parser(g, actions=actions).parse
                elif route == 1:
                    p1 = Parser(g, actions=actions, build_tree=True)
                    run1 = lambda w, p1=p1: p1.call_actions(p1.parse(w))       # noqa
                else:
                    p2 = GLRParser(g, actions=actions)
                    run1 = lambda w, p2=p2: p2.call_actions(p2.parse(w)[0])    # noqa
            for a, b, c in itertools.product(want_item, want_base, want_tail):
                w = " ".join([a] + list(b) + [c])
                n += 1
                try:
                    with impl.time_limit(10):
                        r = run1(w)
                except BaseException as e:  # noqa
                    r = "exc:" + type(e).__name__
                want = [want_item[a], want_base[b], want_tail[c]]
                if r != want:
                    ctx.violation("per-alternative action lists in a grammar with imports: %r gives %r, expected %r "
                                  "(route %s)" % (w, r, want, ["on-the-fly", "call_actions", "GLR"][route]),
                                  {"files": {"base.pg": "Item: 'p' | 'q' Tail | 'r'; Tail: 't' | EMPTY;",
                                             "root.pg": "import 'base.pg' as base; S: Item base.Item Tail; "
                                                        "Item: 'x' | 'y'; Tail: 'u' | 'v';"},
                                   "actions": "one tagging action per alternative of Item, base.Item, Tail, base.Tail",
                                   "input": w}, key="imp-alt-%d" % route)
                    break
    except BaseException as e:  # noqa
        ctx.violation("imported-alternatives probe raised %s: %s" % (impl.exc_kind(e), str(e)[:200]), {}, key="imp-alt-exc")
    finally:
        shutil.rmtree(d, ignore_errors=True)
    st["imported_alternative_probes"] = n


def probe_inplace_lists(ctx, st):
    """actions in the yacc style ($$ = $1; push) mutate the list they are given: the sub-result list of
    every reduction must be a list of its own, in all three routes"""
    from parglare import GLRParser, Grammar, Parser
    from lib import impl
    text = "S: L ';' L;\nL: L 'x' | EMPTY;"

    def push(_, n):
        n[0].append(n[1])
        return n[0]
    actions = {"S": lambda _, n: (list(n[0]), list(n[2])), "L": [push, lambda _, n: n]}
    n = 0
    for w in ["x x ; x", "; x x", "x ;", ";", "x x x ; x x"]:
        a, b = w.split(";")
        want = (["x"] * a.count("x"), ["x"] * b.count("x"))
        got = []
        for route in range(3):
            try:
                with impl.time_limit(20), impl.quiet():
                    g = Grammar.from_string(text)
                    if route == 0:
                        r = Parser(g, actions=actions).parse(w)
                    elif route == 1:
                        p1 = Parser(g, actions=actions, build_tree=True)
                        r = p1.call_actions(p1.parse(w))
                    else:
                        p2 = GLRParser(g, actions=actions)
                        r = p2.call_actions(p2.parse(w)[0])
            except BaseException as e:  # noqa
                r = "exc:" + type(e).__name__
            got.append(r)
            n += 1
        if any(x != want for x in got):
            ctx.violation("list-building actions that extend their first sub-result in place: %r gives %r "
                          "(on-the-fly, call_actions, GLR), expected %r in all three" % (w, got, want),
                          {"grammar": text, "actions": "L: [n[0].append(n[1]) -> n[0], n -> n]; S: (list(n[0]), list(n[2]))",
                           "input": w}, key="inplace")
            break
    st["inplace_list_probes"] = n


KF_NONE = "KF-C09-collect-drops-none"
KF_SPAN = "KF-C09-glr-empty-span"


def _lay(w, a, b):
    return a == b or (a < b and w[a:b].strip(WS) == "")


def spans_differ_by_layout(lr, glr, w):
    """same productions and leaves; nonterminal spans may start/end later in the GLR tree, by layout only"""
    if lr[0] != glr[0] or lr[1] != glr[1]:
        return False
    if lr[0] == 0:
        return lr == glr
    if not (_lay(w, lr[2], glr[2]) and _lay(w, lr[3], glr[3])):
        return False
    if len(lr[4]) != len(glr[4]):
        return False
    return all(spans_differ_by_layout(a, b, w) for a, b in zip(lr[4], glr[4]))


def has_empty_node(t):
    if t[0] == 0:
        return False
    return not t[4] or any(has_empty_node(c) for c in t[4])


def value_eq_mod_layout(a, b, w):
    if a[0] != b[0]:
        return False
    t = a[0]
    if t == "l":
        return len(a[1]) == len(b[1]) and all(value_eq_mod_layout(x, y, w) for x, y in zip(a[1], b[1]))
    if t == "o":
        return (a[1] == b[1] and _lay(w, a[3], b[3]) and _lay(w, a[4], b[4]) and len(a[2]) == len(b[2])
                and all(x[0] == y[0] and value_eq_mod_layout(x[1], y[1], w) for x, y in zip(a[2], b[2])))
    if t == "u":
        return (a[1] == b[1] and a[2] == b[2] and _lay(w, a[3], b[3]) and _lay(w, a[4], b[4])
                and len(a[5]) == len(b[5]) and len(a[6]) == len(b[6])
                and all(value_eq_mod_layout(x, y, w) for x, y in zip(a[5], b[5]))
                and all(x[0] == y[0] and value_eq_mod_layout(x[1], y[1], w) for x, y in zip(a[6], b[6])))
    return a == b


def check_property(ctx, st, r, w, res, rep):
    fly, dfr = res["fly"], res["deferred"]
    st["three_routes_compared"] += 1
    if is_exc(fly) or is_exc(dfr):
        st["action_exceptions"] += 1
        if not (is_exc(fly) and is_exc(dfr)):
            ctx.violation("one route raises, the other returns: on-the-fly %r, call_actions %r" % (fly, dfr),
                          dict(rep, fly=fly, deferred=dfr), key="routes-exc")
        elif fly != dfr:
            st["exception_identity_differs"] += 1
    elif fly != dfr:
        ctx.violation("Parser.parse with actions and call_actions(tree) differ",
                      dict(rep, fly=fly, deferred=dfr), key="routes-differ")
    else:
        l1 = sorted(repr(x) for x in res["fly_log"])
        l2 = sorted(repr(x) for x in res["deferred_log"])
        if l1 != l2:
            ctx.violation("user actions were called with different arguments/contexts on the two LR routes",
                          dict(rep, fly_log=res["fly_log"], deferred_log=res["deferred_log"]), key="log-differ")
    if res.get("tree_build_called_actions"):
        ctx.violation("build_tree=True called user actions during parsing", rep, key="tree-calls")
    # GLR with a single tree
    n = res.get("glr_n")
    if n is None:
        if "glr_err" in res and res["glr_err"][1] == "Timeout":
            st["glr_timeouts"] = st.get("glr_timeouts", 0) + 1
        elif "glr_err" in res:
            ctx.violation("LR accepts, GLR fails with %r" % (res["glr_err"],), rep, no_input=True, key="glr-fails")
    elif n == 1 and "glr" in res:
        st["glr_single"] += 1
        gl = res["glr"]
        if res["glr_tree"] != res["tree"]:
            # the only tolerated difference is the listed finding: spans that differ by layout only
            # in a tree that contains an empty reduction, results equal up to exactly those spans
            if spans_differ_by_layout(res["tree"], res["glr_tree"], w) and has_empty_node(res["tree"]) \
                    and ((is_exc(gl) and is_exc(dfr)) or
                         (not is_exc(gl) and not is_exc(dfr) and value_eq_mod_layout(dfr[1], gl[1], w))):
                st["glr_tree_differs"] += 1
                ctx.known_finding(KF_SPAN, "GLR places an empty reduction (and the end of enclosing nodes) after "
                                  "the following layout, LR before it, so positions seen by actions differ between "
                                  "the routes; first seen: grammar %r input %r" % (r["gtext"], w))
            else:
                ctx.violation("single GLR tree differs from the LR tree (beyond layout-only span differences)",
                              dict(rep, lr_tree=res["tree"], glr_tree=res["glr_tree"], glr=gl, lr=dfr),
                              key="glr-tree")
        else:
            if is_exc(gl) or is_exc(dfr):
                if not (is_exc(gl) and is_exc(dfr)):
                    ctx.violation("GLR call_actions %r vs LR call_actions %r" % (gl, dfr), rep, key="glr-exc")
            elif gl != dfr:
                ctx.violation("GLRParser + call_actions(forest[0]) differs from the LR result (single tree)",
                              dict(rep, glr=gl, lr=dfr), key="glr-differ")
            elif sorted(repr(x[0]) for x in res["glr_log"]) != sorted(repr(x[0]) for x in res["deferred_log"]):
                ctx.violation("user actions got different arguments on the GLR route",
                              dict(rep, glr_log=res["glr_log"], lr_log=res["deferred_log"]), key="glr-log")
    elif n is not None and n != 1:
        st["glr_ambiguous"] += 1
    # arguments of every recorded user call, against the written grammar
    rules = {x["name"]: x for x in r["spec"]["rules"]}
    for entry, _lay, is_term in res["deferred_log"] + res["fly_log"]:
        _, k, p, s, e, args, kw = entry
        if is_term:
            continue
        st["user_calls"] += 1
        if p >= len(r["prod_rule"]):
            ctx.violation("user action called with an unknown production %d" % p, rep, key="arg-prod")
            continue
        rule, n_rhs = r["prod_rule"][p]
        if len(args) != n_rhs:
            ctx.violation("user action for production %d got %d sub-results, the right-hand side has %d symbols"
                          % (p, len(args), n_rhs), dict(rep, call=entry), key="arg-count")
            continue
        idx = sum(1 for q in range(p) if r["prod_rule"][q][0] == rule)
        if rule in rules and idx < len(rules[rule]["alts"]):
            alt = rules[rule]["alts"][idx]
            exp = {}
            for i, it in enumerate(alt):
                if it["name"]:
                    exp[NAMES.index(it["name"]) + 1] = args[i] if it["op"] == "=" else ["b", 1 if truthy_c(args[i]) else 0]
            if exp:
                st["named_calls"] += 1
            if dict((a, repr(b)) for a, b in kw) != dict((a, repr(b)) for a, b in exp.items()):
                ctx.violation("named matches of production %d bound to the wrong sub-results" % p,
                              dict(rep, call=entry, expected=exp), key="arg-named")
            # the action registered for this alternative
            a = r["spec"]["actions"].get(rule)
            if a is not None and a[0] == "list":
                st["list_action_calls"] += 1
                if idx >= len(a[1]) or a[1][idx] != ["u", k]:
                    ctx.violation("alternative %d of %s ran user action %d, its own entry is %r"
                                  % (idx, rule, k, a[1][idx] if idx < len(a[1]) else None),
                                  dict(rep, call=entry), key="arg-alt")
            elif a is not None and a[0] == "u" and a[1] != k:
                ctx.violation("rule %s ran user action %d, registered is %d" % (rule, k, a[1]),
                              dict(rep, call=entry), key="arg-action")
    # default result
    sp = r["spec"]
    plain = (not sp["actions"] and all(x["ann"] is None for x in sp["rules"])
             and all(t.get("ann") is None for t in sp["terms"])
             and all(not i["name"] and not i["mult"] for x in sp["rules"] for a in x["alts"] for i in a))
    if plain:
        st["nested_checked"] += 1
        if fly != ["ok", res["nested"]]:
            ctx.violation("no actions: result is not the nested list of the derivation",
                          dict(rep, result=fly, nested=res["nested"]), key="nested")
    # sugar helpers: flat list of element results / [] / None
    for nm, kind, got, elems in res.get("sugar", []):
        st["sugar_nodes"] += 1
        if any(x[0] != "ok" for x in elems) or got[0] != "ok":
            continue
        vals = [x[1] for x in elems]
        if kind == "opt":
            exp = vals[0] if vals else ["n"]
        else:
            exp = ["l", vals]
        if got[1] != exp:
            dropped_none = (kind != "opt" and got[1][0] == "l" and vals and
                            got[1][1] == vals[:1] + [v for v in vals[1:] if v != ["n"]])
            if dropped_none:
                ctx.known_finding(KF_NONE, "x+ / x* / separators: collect_first drops elements whose result is "
                                  "None (except the first); first seen: grammar %r input %r"
                                  % (r["gtext"], w))
            else:
                ctx.violation("helper rule %s: result %r is not the flat list of its element results %r"
                              % (nm, got[1], exp), dict(rep, helper=nm, got=got[1], expected=exp), key="sugar")
    if fly[0] == "ok" and fly[1][0] == "o":
        st["obj_results"] += 1


def replay(ctx, rep):
    print("grammar:\n" + rep.get("grammar", ""))
    print("actions:", rep.get("actions"))
    print("input:", repr(rep.get("input")))
    for k in ("model", "impl", "fly", "deferred", "glr", "lr", "call", "expected"):
        if k in rep:
            print(k, "=", rep[k])
    if "spec" in rep and rep.get("input") is not None:
        r = _worker(("replay", rep["spec"], [rep["input"]]))
        print("construct:", r.get("construct"), "grammar error:", r.get("gerr"))
        for w, res in r.get("results", {}).items():
            for k in ("fly", "deferred", "glr_n", "glr", "tree_err"):
                if k in res:
                    print(" impl %s = %r" % (k, res[k]))
            return 0 if res.get("fly") == res.get("deferred") else 1
    return 0
