"""C08 -- parse trees are positionally faithful and lossless."""
import multiprocessing as mp

from lib import common, glrcases, gramgen

LEVEL = "proof"
ASSUMPTIONS = [
    "theorem C08_lr_spans: for every table, scanner, non-retreating layout function, option set and input the tree "
    "returned by the LR driver model has well-formed spans (start<=end, node = first..last child, ordered siblings, "
    "empty nodes have start=end); C08_spans_nested: such spans imply every node lies within the root and within its "
    "parent; C08_forest_spans: forest_ok(strict) on an impl forest gives the same for every tree of that forest",
    "the LR driver/scanner/ws+LAYOUT layout models are tied to /repo by comparing trees with positions and "
    "layout_content per leaf on generated grammars with empty productions at the beginning, middle and end",
    "C08_lr_lossless / C08_lr_lossless_strings: the tokens the LR driver model shifts, with their layout spans, tile "
    "the input, and for every text s the concatenation of s[layout span] + s[start:end] over them is s[pos0:last end]; "
    "that the impl's strings are those slices (value == input[start:end], layout+value == input prefix) and the "
    "positions seen by actions/obj are checked on the impl's output for every generated case (test)",
    "GLR span failures are attributed to the known finding only when the frozen baseline implementation fails identically",
]

KF_GLR = "KF-C08-glr-empty-after-layout"

EMPTY_FAMS = [
    ("e_begin", "S: A 'b'; A: EMPTY | 'a';", "ab"),
    ("e_middle", "S: 'a' A 'b'; A: EMPTY | 'a';", "ab"),
    ("e_end", "S: 'a' A; A: EMPTY | 'b';", "ab"),
    ("e_two", "S: A B 'c' A B; A: EMPTY | 'a'; B: EMPTY | 'b';", "abc"),
    ("e_nest", "S: A 'x' | 'x' A; A: B B; B: EMPTY | 'a';", "ax"),
    ("e_all", "S: A B; A: EMPTY | 'a'; B: EMPTY | 'b';", "ab"),
    ("e_list", "S: L 'x'; L: L 'a' | EMPTY;", "ax"),
    ("e_opt", "S: 'a'? 'b'* 'c'+ 'd'?;", "abcd"),
    ("issue110", "S: A A B;\nA: letter;\nB: letter | EMPTY;\nterminals\nletter: /\\w/;", "ab"),
]

LAYOUT_RULE = ("\nLAYOUT: LayoutItem | LAYOUT LayoutItem | EMPTY;\nLayoutItem: WS | Comment;\n"
               "terminals\nWS: /\\s+/;\nComment: /\\/\\/[^\\n]*/;")

FILLERS_WS = ["", " ", "  ", "\n", "\t "]
FILLERS_LAYOUT = ["", " ", "//c\n", " //x\n "]


def relayout(rng, tokens, fillers):
    out = [rng.choice(fillers)]
    for t in tokens:
        out.append(t)
        out.append(rng.choice(fillers))
    return "".join(out)


def _tree_nodes(n, impl, glr):
    """flatten a tree into (is_term, sym/prod, start, end, layout_content, value, [children idx])"""
    out = []

    def go(n):
        if glr:
            term = n.root.is_term()
            kids = [] if term else [go(c) for c in n.children]
        else:
            term = n.is_term()
            kids = [] if term else [go(c) for c in n.children]
        idx = len(out)
        out.append([1 if term else 0, n.start_position, n.end_position, n.layout_content,
                    n.value if term else None, kids])
        return idx
    root = go(n)
    return out, root


def _worker(job):
    gname, gtext, inputs, kind = job      # kind: "ws" | "layout"
    import parglare
    from parglare import GLRParser, Grammar, Parser
    from lib import impl
    out = {"gname": gname, "gtext": gtext, "kind": kind, "gerr": None, "lr": {}, "glr": {}}
    try:
        with impl.time_limit(20):
            g = Grammar.from_string(gtext)
            with impl.quiet():
                p = Parser(g, build_tree=True)
                # positions as seen by actions: one recording action per rule
                rec = []

                def mk(name):
                    def act(ctx, nodes):
                        rec.append([name, ctx.start_position, ctx.end_position])
                        return None
                    return act
                acts = {nt.name: mk(nt.name) for nt in g.nonterminals.values() if nt.name != "S'"
                        and not nt.name.startswith("LAYOUT") and nt.name != "LayoutItem"}
                pa = Parser(g, actions=acts)
                gp = GLRParser(g)
    except BaseException as e:  # noqa
        out["gerr"] = impl.exc_kind(e)
        return out
    gi = impl.GInfo(g)
    out["grammar"] = impl.model_grammar(gi)
    out["terms"] = impl.dump_terms(gi)
    out["stop"] = impl.stop_id(gi)
    out["table"] = impl.dump_table(p.table, gi)
    out["glr_table"] = impl.dump_table(gp.table, gi)
    if p.layout_parser is not None:
        out["layout_table"] = impl.dump_table(p.layout_parser.table, gi)
    names = {nt.name: gi.sym(nt)[1] for nt in g.nonterminals.values()}
    for w in inputs:
        r = {"rx": impl.rx_matrix(gi, w)}
        try:
            with impl.time_limit(10):
                t = p.parse(w)
            r["kind"] = "ok"
            r["tree"] = impl.node_sx(t, gi)
            r["nodes"], r["root"] = _tree_nodes(t, impl, False)
            del rec[:]
            try:
                with impl.time_limit(10):
                    pa.parse(w)
                r["action_positions"] = [[names.get(n), s, e] for n, s, e in rec]
            except BaseException as e:  # noqa
                r["action_positions"] = "exc:" + impl.exc_kind(e)
        except parglare.SyntaxError as e:
            r["kind"] = "SyntaxError"
            r["pos"] = e.location.start_position
        except BaseException as e:  # noqa
            r["kind"] = "exc:" + impl.exc_kind(e)
        out["lr"][w] = r
        q = {}
        try:
            with impl.time_limit(10):
                f = gp.parse(w)
            q["kind"] = "forest"
            try:
                q["forest"] = impl.dump_forest(f, gi)
                n = f.solutions
                q["solutions"] = n
                trees = []
                for i in range(min(n, 12)):
                    trees.append(_tree_nodes(f[i], impl, True))
                q["trees"] = trees
            except impl.Cyclic:
                q["forest"] = None
        except parglare.SyntaxError:
            q["kind"] = "SyntaxError"
        except BaseException as e:  # noqa
            q["kind"] = "exc:" + impl.exc_kind(e)
        out["glr"][w] = q
    return out


def check_tree(nodes, root, w):
    """C08 evaluated directly on one tree; returns a list of problems"""
    probs = []
    n = len(w)
    leaves = []

    def go(i, parent):
        term, s, e, lay, val, kids = nodes[i]
        if not (isinstance(s, int) and isinstance(e, int)):
            probs.append("non-integer positions %r-%r" % (s, e))
            return
        if not (0 <= s <= e <= n):
            probs.append("span %d-%d out of order/bounds" % (s, e))
        if parent is not None:
            ps, pe = parent
            if isinstance(ps, int) and isinstance(pe, int) and not (ps <= s and e <= pe):
                probs.append("child %d-%d outside parent %d-%d" % (s, e, ps, pe))
        if term:
            if val != w[s:e]:
                probs.append("terminal value %r != input[%d:%d]=%r" % (val, s, e, w[s:e]))
            leaves.append((s, e, lay, val))
        prev_e = None
        for k in kids:
            ks, ke = nodes[k][1], nodes[k][2]
            if prev_e is not None and isinstance(ks, int) and ks < prev_e:
                probs.append("siblings overlap/out of order at %d" % ks)
            if isinstance(ke, int):
                prev_e = ke
            go(k, (s, e))
    go(root, None)
    # losslessness: layout_content + value over the leaves reproduces the input prefix
    text = "".join((lay or "") + val for (_, _, lay, val) in leaves)
    last = leaves[-1][1] if leaves else 0
    if text != w[:last]:
        probs.append("layout+values %r != input[:%d] %r" % (text, last, w[:last]))
    if w[last:].strip(glrcases.WS) and not any("//" in w for _ in [0]):
        probs.append("non-layout text after the last leaf")
    return probs


def gen_jobs(ctx):
    rng = ctx.rng
    quick = ctx.quick()
    jobs = []
    for name, text, alpha in EMPTY_FAMS:
        base = list(gramgen.all_strings(list(alpha), 4 if quick else 5))
        ins = sorted(set(relayout(rng, list(s), FILLERS_WS) for s in base for _ in range(2)))
        jobs.append((name, text, ins, "ws"))
        if "terminals" not in text:
            ins2 = sorted(set(relayout(rng, list(s), FILLERS_LAYOUT) for s in base for _ in range(2)))
            jobs.append((name + "+L", text + LAYOUT_RULE, ins2, "layout"))
    for name, text, alpha in glrcases.LEXICAL:
        base = list(gramgen.all_strings(list(alpha.strip()), 4))
        ins = sorted(set(relayout(rng, list(s), ["", " ", "  "]) for s in base))
        jobs.append((name, text, ins, "ws"))
    n = 80 if quick else 1200
    for i in range(n):
        r = gramgen.random_grammar(rng, max_nt=3, max_alts=3, max_rhs=3, p_empty=0.3)
        if r is None:
            continue
        prods, text = r
        base = list(gramgen.all_strings(["a", "b"], 3 if quick else 4))
        for _ in range(6):
            s = gramgen.random_sentence(rng, prods, max_depth=5, max_len=8)
            if s is not None and s not in base:
                base.append(s)
        ins = sorted(set(relayout(rng, list(s), FILLERS_WS) for s in base))
        jobs.append(("rand%d" % i, text, ins, "ws"))
    return jobs


def run(ctx):
    jobs = gen_jobs(ctx)
    with mp.Pool(common.NPROC) as pool:
        results = pool.map(_worker, jobs, chunksize=1)
    st = {"grammars": 0, "grammar_errors": {}, "lr_parses": 0, "lr_trees": 0, "lr_model_compared": 0,
          "glr_forests": 0, "glr_trees_checked": 0, "glr_forest_ok_strict": 0, "action_position_checks": 0,
          "empty_nodes_seen": 0, "layout_grammars": 0, "glr_span_failures": 0, "baseline_same": 0}
    wsl = [ord(c) for c in glrcases.WS]
    mcases, meta = [], []
    glr_fail = []
    distinct = set()
    samples = []
    for r in results:
        st["grammars"] += 1
        if r["gerr"]:
            st["grammar_errors"][r["gerr"]] = st["grammar_errors"].get(r["gerr"], 0) + 1
            continue
        if r["kind"] == "layout":
            st["layout_grammars"] += 1
        start = r["grammar"][0][1][0][1]
        lay = [r["layout_table"]] if "layout_table" in r else []
        pconf = [r["grammar"], r["table"], r["terms"], r["stop"], 1, 1,
                 [] if lay else wsl, lay]
        for w, res in r["lr"].items():
            st["lr_parses"] += 1
            rep = {"grammar": r["gtext"], "input": w, "parser": "Parser(build_tree=True)"}
            mcases.append((4, [pconf, [[ord(c) for c in w], res["rx"]], 20000, 0]))
            meta.append(("lr", r, w))
            if res["kind"] == "ok":
                st["lr_trees"] += 1
                distinct.add((r["gtext"], w))
                st["empty_nodes_seen"] += sum(1 for n in res["nodes"] if not n[0] and not n[5])
                for pr in check_tree(res["nodes"], res["root"], w):
                    ctx.violation("LR tree: " + pr, rep, key="lr:" + pr.split(" ")[0])
                # positions seen by actions = node positions (reduce order = post-order)
                ap = res.get("action_positions")
                if isinstance(ap, list):
                    st["action_position_checks"] += 1
                    post = []

                    def po(t):
                        if t[0] == 1:
                            for c in t[4]:
                                po(c)
                            post.append([r["grammar"][t[1]][0], t[2], t[3]])
                    po(res["tree"])
                    if ap != post:
                        ctx.violation("positions seen by actions differ from the tree's node positions",
                                      dict(rep, actions=ap[:6], tree=post[:6]), key="lr:actions")
                elif ap is not None:
                    ctx.violation("parse with actions raised %s" % ap, rep, key="lr:actexc")
                if len(samples) < 3 and len(w) > 4:
                    samples.append(dict(rep, tree=res["tree"]))
            elif res["kind"] == "exc:Timeout":
                st["lr_timeouts"] = st.get("lr_timeouts", 0) + 1   # termination is C04/C10's business
            elif res["kind"].startswith("exc"):
                ctx.violation("Parser.parse raised %s" % res["kind"], rep, key="lr:exc")
        for w, q in r["glr"].items():
            rep = {"grammar": r["gtext"], "input": w, "parser": "GLRParser()"}
            if q["kind"] == "forest":
                st["glr_forests"] += 1
                bad = False
                for (nodes, root) in q.get("trees", []):
                    st["glr_trees_checked"] += 1
                    pp = check_tree(nodes, root, w)
                    if pp:
                        bad = True
                        glr_fail.append((r, w, "tree: " + pp[0]))
                        break
                if not bad and q.get("forest") is not None and r["kind"] == "ws":
                    mcases.append((6, [r["grammar"], q["forest"], [ord(c) for c in w],
                                       r["lr"][w]["rx"], wsl, start, 0, 1, 1]))
                    meta.append(("glr", r, w))
            elif q["kind"].startswith("exc"):
                ctx.violation("GLRParser.parse raised %s" % q["kind"], rep, key="glr:exc")
    outs = common.model_run(mcases)
    nx, xok, xlog = common.coq_crosscheck("C08", mcases, outs, ctx.rng, sample=30 if ctx.quick() else 100)
    if not xok:
        ctx.violation("extraction cross-check failed", {"log": xlog}, no_input=True)
    for (kind, r, w), o in zip(meta, outs):
        if kind == "lr":
            res = r["lr"][w]
            st["lr_model_compared"] += 1
            rep = {"grammar": r["gtext"], "input": w}
            if res["kind"] == "ok":
                if o[0] != 0 or o[1] != res["tree"]:
                    ctx.violation("LR tree (positions) differs from the model's", dict(rep, model=o[:2]),
                                  no_input=True, key="lr:diff")
                else:
                    mtrace = [[x[1], x[2], w[x[3][0]:x[3][1]]] for x in o[4]]
                    itrace = [[n[1], n[2], n[3]] for n in res["nodes"] if n[0]]
                    if mtrace != itrace:
                        ctx.violation("leaf positions/layout differ from the model's",
                                      dict(rep, model=mtrace, impl=itrace), no_input=True, key="lr:difftrace")
            elif res["kind"] == "SyntaxError":
                if not (o[0] in (1, 4) and o[1] == res["pos"]):
                    ctx.violation("LR error differs from the model's", dict(rep, model=o[:3], impl=res["pos"]),
                                  no_input=True, key="lr:differr")
        else:
            st["glr_forest_ok_strict"] += 1
            if o != 1:
                glr_fail.append((r, w, "forest_ok(strict) fails"))
    # GLR span failures: known finding iff the baseline fails on the same case in the same way
    if glr_fail:
        st["glr_span_failures"] = len(glr_fail)
        seen = {}
        bjobs = []
        for (r, w, what) in glr_fail:
            key = (r["gtext"], r["kind"])
            if key not in seen:
                seen[key] = len(bjobs)
                bjobs.append((r["gname"], r["gtext"], sorted(set(x[1] for x in glr_fail if x[0] is r)), r["kind"]))
        bres = common.baseline_run("props.c08", "_worker", bjobs)
        have = any(e["id"] == KF_GLR for e in ctx.kf)
        for (r, w, what) in glr_fail:
            rep = {"grammar": r["gtext"], "input": w, "parser": "GLRParser()"}
            same = False
            if bres is not None:
                br = bres[seen[(r["gtext"], r["kind"])]]
                bq = br["glr"].get(w) if not br["gerr"] else None
                if bq and bq["kind"] == "forest":
                    if what.startswith("tree"):
                        for (nodes, root) in bq.get("trees", []):
                            pp = check_tree(nodes, root, w)
                            if pp and "tree: " + pp[0] == what:
                                same = True
                                break
                    else:
                        same = bq.get("forest") == r["glr"][w].get("forest")
            if same and have and ("outside parent" in what or "forest_ok" in what):
                st["baseline_same"] += 1
                ctx.known_finding(KF_GLR, "%s; first seen: grammar %r input %r" % (what, r["gtext"], w))
            else:
                ctx.violation("GLR " + what, rep, key="glr:" + what.split(" ")[1])
    return {
        "evaluations": st["lr_parses"] + st["glr_forests"],
        "distinct_nontrivial": len(distinct),
        "rule": "grammars with EMPTY at the beginning/middle/end of rules (ws-based and with a LAYOUT rule with "
                "comments), lexical-overlap grammars and seeded random grammars with 30% empty alternatives; inputs = all "
                "short strings re-laid-out with random layout fillers; LR (tree, per-leaf layout, action positions) and "
                "GLR (first 12 trees + strict forest_ok); non-trivial = accepted input; distinct by (grammar, input)",
        "samples": samples,
        "traces_validated_against_impl": st["lr_model_compared"],
        "distribution": st,
        "crosscheck_vm_compute_cases": nx,
        "exhaustive": False,
    }


def replay(ctx, rep):
    r = _worker(("replay", rep["grammar"], [rep["input"]], "ws"))
    print(r["lr"], r["glr"])
    return 0
