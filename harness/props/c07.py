"""C07 -- Token choice follows the documented lexical disambiguation order."""
import json
import multiprocessing as mp

from lib import common

LEVEL = "proof"
ASSUMPTIONS = [
    "theorems (Properties/C07.v) are about the Gallina models of Parser._next_tokens/_token_recognition/"
    "_lexical_disambiguation (Model/Scan.v) and of LRTable.sort_state_actions/calc_finish_flags (Model/StrTerm.v): for "
    "every expected set, oracle rx and position the sorted walk with implicit finish flags and the early exit yields "
    "exactly the candidates the documented order leaves, under the hypotheses short_texts (< 1000 characters), "
    "no_str_tie, str_len_ok, rx_nonempty, unmarked; each hypothesis is decided per (state, position) by the extracted "
    "model and a failure outside them is a violation",
    "tie to /repo: the impl's own table (action order, finish flags) and recognizers (match matrix) are fed to the "
    "extracted next_tokens; compared with parser._next_tokens on a synthetic head for every state x position, and with "
    "every call of _next_tokens made during real Parser/GLRParser parses",
    "the model compares sort keys numerically; the impl compares '{:010d}'-formatted strings: equal as long as the key "
    "has at most 10 digits (priority < 10^7). Larger priorities are exercised only by the sort-key probes (KF-C07-sortkey)",
    "regex and custom recognizers are an oracle (match matrix computed with the impl's recognizer objects); keyword "
    "texts are alphanumeric (regex metacharacters in keywords belong to C19)",
    "custom_token_recognition hook and dynamic terminals are not exercised",
]

KF_SORT = "KF-C07-sortkey"
KF_TIE = "KF-C07-string-tie"

STR_TEXTS = ["a", "ab", "abc", "b", "ba", "A", "AB", "Ab", "aB", "=", "==", "=>", "+", "++", "if", "iff", "i", "x",
             "xy", "1", "12", "a1", "IF", "If", "abC", "c"]
REGEXES = {
    r"a+": ["a", "aa", "aaa"], r"[ab]+": ["ab", "ba", "abab"], r"[a-c]+": ["abc", "cab"], r"\w+": ["a1", "if1", "xy"],
    r"\d+": ["1", "12", "121"], r"=+": ["=", "==", "==="], r"[=+>]+": ["=>", "+=", "++"], r"a|ab": ["a", "ab"],
    r"ab?": ["a", "ab"], r"[a-z]\w*": ["if", "iff", "x1"], r"if*": ["i", "if", "iff"], r"x?y?1?": ["x", "xy1", "y"],
    r"(?:ab)+": ["ab", "abab"], r"[A-Z]+": ["AB", "IF"], r"[a-zA-Z]+": ["aB", "If"], r"\d+\.\d+": ["1.2", "12.1"],
    r"[a-z]+1": ["a1", "ab1"],
}
CUSTOM_LITS = [["abc", "ab"], ["a"], ["==", "="], ["if", "i"], ["12", "1", "121"], ["x", "xy"], ["ab", "AB"]]
NAMES = ["A", "B", "C", "D", "Ta", "Tb", "Z", "Kw", "ID", "Num", "a1", "b2", "M", "N0", "Q", "aa", "AA", "zz", "T_1",
         "Op", "op", "W", "k", "Y"]
PRIORS = [None, None, None, None, None, 0, 1, 5, 9, 10, 11, 15, 20]
WS = "\n\r\t "


# ------------------------------------------------------------------ generator
def gen_terminals(rng, marks, n):
    names = rng.sample(NAMES, n)
    texts = rng.sample(STR_TEXTS, n)
    regs = rng.sample(sorted(REGEXES), min(n, len(REGEXES)))
    terms = []
    for i, nm in enumerate(names):
        k = rng.random()
        if k < 0.45:
            kind, body = "str", texts[i]
        elif k < 0.85:
            kind, body = "re", regs[i % len(regs)]
        else:
            kind, body = "custom", [rng.choice(CUSTOM_LITS), rng.choice([2, 2, 3])]
        prior = rng.choice(PRIORS)
        prefer = rng.random() < 0.25
        mark = None
        if marks and rng.random() < 0.35:
            mark = rng.choice(["finish", "nofinish"])
        terms.append({"name": nm, "kind": kind, "body": body, "prior": prior, "prefer": prefer, "mark": mark})
    return terms


def term_decl(t):
    meta = []
    if t["prior"] is not None:
        meta.append(str(t["prior"]))
    if t["prefer"]:
        meta.append("prefer")
    if t["mark"]:
        meta.append(t["mark"])
    m = (" {%s}" % ", ".join(meta)) if meta else ""
    if t["kind"] == "str":
        body = "'%s'" % t["body"]
    elif t["kind"] == "re":
        body = "/%s/" % t["body"]
    else:
        body = ""
    return "%s: %s%s;" % (t["name"], body, m)


def gen_rules(rng, terms, form):
    names = [t["name"] for t in terms]
    if form == "list":
        return "S: L;\nL: L E | E;\nE: %s;" % " | ".join(names)
    groups = []
    for gi in range(rng.randint(2, 4)):
        k = rng.randint(1, max(1, min(4, len(names))))
        groups.append(("G%d" % gi, rng.sample(names, k)))
    items = names + [g for g, _ in groups] * 2
    if form == "pairs":
        a, b = rng.choice(groups)[0], rng.choice(groups)[0]
        top = "S: P;\nP: P R | R;\nR: %s %s | %s;" % (a, b, rng.choice(names))
    else:
        alts = []
        for _ in range(rng.randint(2, 4)):
            alts.append(" ".join(rng.choice(items) for _ in range(rng.randint(1, 3))))
        top = "S: %s;" % " | ".join(alts)
    used = [g for g in groups if g[0] in top.replace(";", " ").split()]
    return top + "\n" + "\n".join("%s: %s;" % (g, " | ".join(ms)) for g, ms in used)


def sample_inputs(rng, terms, n, maxlen):
    frags = []
    for t in terms:
        if t["kind"] == "str":
            frags += [t["body"], t["body"].lower(), t["body"].upper()]
        elif t["kind"] == "re":
            frags += REGEXES[t["body"]]
        else:
            frags += t["body"][0]
    frags += ["a", "b", "=", "1", "z", "."]
    out = set()
    for _ in range(n * 4):
        s = ""
        for _ in range(rng.randint(1, 4)):
            s += rng.choice(frags)
            if rng.random() < 0.25:
                s += " "
        s = s[:maxlen]
        if s:
            out.add(s)
        if len(out) >= n:
            break
    return sorted(out)


def gen_case(rng, idx, quick):
    marks = rng.random() < 0.35
    n = rng.randint(2, 7)
    terms = gen_terminals(rng, marks, n)
    form = rng.choice(["list", "list", "seqs", "seqs", "pairs"])
    kw = rng.random() < 0.3
    ic = rng.random() < 0.4
    text = gen_rules(rng, terms, form) + "\nterminals\n"
    if kw:
        text += "KEYWORD: /%s/;\n" % rng.choice([r"\w+", r"[a-z]+", r"[a-zA-Z]+"])
    text += "\n".join(term_decl(t) for t in terms) + "\n"
    customs = {t["name"]: t["body"] for t in terms if t["kind"] == "custom"}
    inputs = sample_inputs(rng, terms, 7 if quick else 10, 9 if quick else 12)
    configs = [("LR", True, True), ("LR", True, False), ("GLR", False, True), ("GLR", False, False)]
    if rng.random() < 0.35:
        configs += [("LR", False, rng.random() < 0.5), ("GLR", True, rng.random() < 0.5)]
    return {"name": "g%d" % idx, "text": text, "ignore_case": ic, "customs": customs, "inputs": inputs,
            "configs": configs, "form": form, "family": "random", "marks": marks, "keyword": kw}


TIE_REGEXES = [r"a+", r"[ab]+", r"[a-c]+", r"a|ab", r"ab?", r"(?:ab)+", r"\w+", r"[a-z]\w*", r"a[ab]*", r"[ab]b*",
               r"aa?", r"a+b?", r"[a-z]+", r"ab|a"]


def gen_tie_case(rng, idx, quick):
    """3-5 regex/custom terminals of ONE priority, all expected in one state, with random
    prefer marks: several tie on the longest match while others match shorter text (the
    step 'longest match, THEN prefer' of the documented order)"""
    n = rng.randint(3, 5)
    names = rng.sample(NAMES, n)
    regs = rng.sample(TIE_REGEXES, n)
    terms = []
    for nm, rg in zip(names, regs):
        terms.append({"name": nm, "kind": "re", "body": rg, "prior": None,
                      "prefer": rng.random() < 0.4, "mark": None})
    text = gen_rules(rng, terms, "list") + "\nterminals\n" + "\n".join(term_decl(t) for t in terms) + "\n"
    inputs = ["a", "ab", "aab", "abab", "abc", "aa", "abb", "b", "ab ab", "aab abc a", "ba"]
    configs = [("LR", True, True), ("GLR", False, True), ("GLR", True, True)]
    return {"name": "tie%d" % idx, "text": text, "ignore_case": False, "customs": {}, "inputs": inputs,
            "configs": configs, "form": "list", "family": "regex-tie", "marks": False, "keyword": False}


def corpus():
    """witnesses of the known findings, hypothesis probes and the suite's own examples"""
    cfg = [("LR", True, True), ("GLR", False, True)]
    long1001 = "a" * 1001
    long999 = "a" * 999
    out = [
        # forced hypothesis short_texts: boundary below and above
        {"name": "sortkey-1001", "text": "S: A | B;\nterminals\nA: '%s';\nB: /a+/ {11};\n" % long1001,
         "inputs": [long1001], "family": "probe-sortkey"},
        {"name": "sortkey-999", "text": "S: A | B;\nterminals\nA: '%s';\nB: /a+/ {11};\n" % long999,
         "inputs": [long999], "family": "probe-sortkey"},
        {"name": "sortkey-digits", "text": "S: A | B;\nterminals\nA: /a+/ {9999999};\nB: /a+/ {10000000};\n",
         "inputs": ["aaa"], "family": "probe-sortkey"},
        {"name": "sortkey-digits-str", "text": "S: A | B;\nterminals\nA: 'aaa' {9999999};\nB: /a+/ {10000000};\n",
         "inputs": ["aaa"], "family": "probe-sortkey"},
        # forced hypothesis no_str_tie
        {"name": "tie", "text": "S: A | B;\nterminals\nA: 'ab';\nB: 'AB';\n", "ignore_case": True,
         "inputs": ["ab", "AB", "aB"], "family": "probe-tie"},
        {"name": "tie-prefer", "text": "S: A | B;\nterminals\nA: 'ab' {prefer};\nB: 'AB';\n", "ignore_case": True,
         "inputs": ["ab"], "family": "probe-tie"},
        {"name": "tie-kw", "text": "S: A | B | C;\nterminals\nKEYWORD: /\\w+/;\nA: 'if';\nB: 'IF';\nC: /\\w+/;\n",
         "ignore_case": True, "inputs": ["if", "iff", "IF x"], "family": "probe-tie"},
        # priority 0 is falsy in calc_finish_flags
        {"name": "prior0", "text": "S: A | B | C;\nterminals\nA: /a+/ {5};\nB: /a+b?/ {0};\nC: /[ab]+/ {0};\n",
         "inputs": ["aab", "b", "aa"], "family": "probe"},
        # the suite's examples
        {"name": "t-priority", "text": "M: First | Second | Third '5';\nterminals\nFirst: /\\d+\\.75/;\n"
         "Second: '14.75';\nThird: /\\d+\\.\\d/ {15};\n", "inputs": ["14.75", "14.7"], "family": "suite"},
        {"name": "t-specific", "text": "S: First | Second | Third;\nterminals\nFirst: /\\d+\\.\\d+/;\nSecond: '14';\n"
         "Third: /\\d+/;\n", "inputs": ["14", "14.5", "147"], "family": "suite"},
        {"name": "t-failed", "text": "S: First | Second | Third;\nterminals\nFirst: /\\d+\\.\\d+/ {15};\n"
         "Second: '14.7';\nThird: /\\d+\\.75/ {15};\n", "inputs": ["14.75"], "family": "suite"},
        {"name": "t-prefer", "text": "S: First | Second | Third;\nterminals\nFirst: /\\d+\\.\\d+/ {15};\n"
         "Second: '14.7';\nThird: /\\d+\\.75/ {15, prefer};\n", "inputs": ["14.75"], "family": "suite"},
        {"name": "t-nofinish", "text": "S: First | Second | Third;\nterminals\nFirst: /\\d+\\.\\d+/;\n"
         "Second: '*' {nofinish};\nThird: /[A-Za-z0-9\\*\\-]+/;\n", "inputs": ["*Third", "*"], "family": "suite"},
    ]
    for c in out:
        c.setdefault("ignore_case", False)
        c.setdefault("customs", {})
        c.setdefault("configs", cfg + [("LR", True, False), ("GLR", True, True)])
        c.setdefault("form", "seqs")
    return out


# ------------------------------------------------------------------ impl side
def _mk_custom(spec):
    lits, arity = spec
    lits = sorted(lits, key=len, reverse=True)

    def r2(inp, pos):
        for l in lits:
            if inp.startswith(l, pos):
                return l
        return None

    def r3(head, inp, pos):
        return r2(inp, pos)
    return r2 if arity == 2 else r3


def _match_len(t, w, p):
    try:
        r = t.recognizer(w, p)
    except TypeError:
        r = t.recognizer(None, w, p)
    if type(r) is tuple:
        r = r[0]
    return len(r) if r else 0


def _descr(gi):
    from parglare.grammar import RegExRecognizer, StringRecognizer
    out = []
    for t in gi.terms:
        r = t.recognizer
        if type(r) is StringRecognizer:
            kind, ln, rl = 0, len(r.value), 0
        elif type(r) is RegExRecognizer and t.keyword:
            kind, ln, rl = 1, len(r.name), len(r.name)
        else:
            kind, ln, rl = 2, 0, 0
        mark = 0 if t.finish is None else (2 if t.finish else 1)
        out.append([[ord(c) for c in t.fqn], t.prior, kind, ln, rl, mark, 1 if t.prefer else 0])
    return out


def _worker(job):
    import parglare
    from parglare import GLRParser, Grammar, Parser
    from parglare.grammar import EMPTY, STOP
    from parglare.parser import LRStackNode
    from lib import impl
    out = {"job": job, "gerr": None, "configs": []}
    try:
        with impl.time_limit(30):
            g = Grammar.from_string(job["text"], ignore_case=job["ignore_case"],
                                    recognizers={k: _mk_custom(v) for k, v in job["customs"].items()})
    except BaseException as e:  # noqa
        out["gerr"] = "%s: %s" % (impl.exc_kind(e), str(e)[:200])
        return out
    gi = impl.GInfo(g)
    out["descr"] = _descr(gi)
    out["names"] = [t.name for t in gi.terms]
    out["stop"] = impl.stop_id(gi)
    rxs = {}
    for w in job["inputs"]:
        rows = []
        for t in gi.terms:
            if t is STOP or t is EMPTY or t.name in ("STOP", "EMPTY"):
                rows.append([0] * len(w))
            else:
                rows.append([_match_len(t, w, p) for p in range(len(w))])
        rxs[w] = rows
    out["rx"] = rxs

    def toks_of(lst):
        return [[gi.term_index(t.symbol), len(t)] for t in lst]

    for kind, lexdis, consume in job["configs"]:
        c = {"kind": kind, "lexdis": lexdis, "consume": consume, "err": None, "sweeps": {}, "parses": {}}
        out["configs"].append(c)
        try:
            with impl.time_limit(30), impl.quiet():
                if kind == "LR":
                    p = Parser(g, build_tree=True, consume_input=consume, lexical_disambiguation=lexdis)
                else:
                    p = GLRParser(g, consume_input=consume, lexical_disambiguation=lexdis)
        except BaseException as e:  # noqa
            c["err"] = impl.exc_kind(e)
            continue
        c["states"] = [[[gi.term_index(t) for t in s.actions.keys()], [1 if f else 0 for f in s.finish_flags]]
                       for s in p.table.states]
        # direct: every state x every position
        for w in job["inputs"]:
            per_state = []
            for s in p.table.states:
                row = []
                for pos in range(len(w) + 1):
                    head = LRStackNode(None, w, s, 0, pos, None)
                    try:
                        with impl.time_limit(5):
                            row.append(toks_of(p._next_tokens(head)))
                    except BaseException as e:  # noqa
                        row.append("exc:" + impl.exc_kind(e))
                per_state.append(row)
            c["sweeps"][w] = per_state
        # through real parses: record every call of _next_tokens
        calls = []
        orig = p._next_tokens

        def wrap(head, orig=orig, calls=calls):
            r = orig(head)
            calls.append([head.state.state_id, head.position, toks_of(r)])
            return r
        p._next_tokens = wrap
        for w in job["inputs"]:
            if len(w) > 60:
                continue
            del calls[:]
            r = {}
            try:
                with impl.time_limit(10):
                    res = p.parse(w)
                r["outcome"] = "ok"
                if kind == "LR":
                    root = res[0] if (not consume and isinstance(res, tuple)) else res
                    lv = []

                    def go(n):
                        if n.is_term():
                            lv.append([gi.term_index(n.symbol), n.start_position,
                                       n.end_position - n.start_position])
                        else:
                            for ch in n.children:
                                go(ch)
                    go(root)
                    r["leaves"] = lv
                else:
                    r["ntrees"] = len(res)
                    # trees whose consecutive leaves do not overlap (a tree with overlapping leaves is not
                    # a tokenization at all: that is C01's subject, KF-C01-glr-invalid-tree-overlap)
                    if r["ntrees"] <= 200:
                        nov = 0
                        for ti in range(r["ntrees"]):
                            spans = []

                            def lgo(n):
                                if n.is_term():
                                    spans.append((n.start_position, n.end_position))
                                else:
                                    for ch in n.children:
                                        lgo(ch)
                            lgo(res[ti])
                            if all(a[1] <= b[0] for a, b in zip(spans, spans[1:])):
                                nov += 1
                        r["ntrees_nonoverlapping"] = nov
            except parglare.DisambiguationError as e:
                r["outcome"] = "DisambiguationError"
                r["dis"] = toks_of(e.tokens)
                r["pos"] = e.location.start_position
            except parglare.SyntaxError as e:
                r["outcome"] = "SyntaxError"
                r["pos"] = e.location.start_position
            except BaseException as e:  # noqa
                r["outcome"] = "exc:" + impl.exc_kind(e)
            r["calls"] = [list(x) for x in calls]
            c["parses"][w] = r
    return out


# ------------------------------------------------------------------ reference in Python (redundant with the
# extracted Spec.LexOrder: a disagreement between the two is a machinery error)
def py_matches(cell, descr, rxm, pos):
    return [(t, rxm[t][pos]) for t in cell if pos < len(rxm[t]) and rxm[t][pos] > 0]


def py_doc_choice(cell, descr, rxm, pos):
    """-> (tokens, rule that made the choice)"""
    m = py_matches(cell, descr, rxm, pos)
    if not m:
        return [], "none"
    rule = "single" if len(m) == 1 else None
    top = max(descr[t][1] for t, _ in m)
    m2 = [x for x in m if descr[x[0]][1] == top]
    if rule is None and len(m2) == 1:
        rule = "priority"
    if any(descr[t][2] in (0, 1) for t, _ in m2):
        m3 = [x for x in m2 if descr[x[0]][2] in (0, 1)]
    else:
        m3 = m2
    if rule is None and len(m3) == 1:
        rule = "specific"
    mx = max(l for _, l in m3)
    m4 = [x for x in m3 if x[1] == mx]
    if rule is None and len(m4) == 1:
        rule = "longest"
    if len(m4) > 1:
        pref = [x for x in m4 if descr[x[0]][6]]
        if pref:
            m4 = pref
        if rule is None and len(m4) == 1:
            rule = "prefer"
    if rule is None:
        rule = "ambiguous"
    return [list(x) for x in m4], rule


def py_doc_all(cell, descr, rxm, pos):
    m = py_matches(cell, descr, rxm, pos)
    if not m:
        return []
    top = max(descr[t][1] for t, _ in m)
    return [list(x) for x in m if descr[x[0]][1] == top]


def py_doc(cell, descr, rxm, pos, n, stop, consume, lexdis):
    stopok = stop in cell and ((not consume) or pos == n)
    inside = pos < n
    if lexdis:
        d, rule = py_doc_choice(cell, descr, rxm, pos) if inside else ([], "end")
        if not d:
            return ([[stop, 0]] if stopok else []), rule
        return d, rule
    d = py_doc_all(cell, descr, rxm, pos) if inside else []
    return ([[stop, 0]] if stopok else []) + d, "all"


def skipws(w, p):
    while p < len(w) and w[p] in WS:
        p += 1
    return p


def count_tokenizations(allterms, descr, rxm, w, lexdis):
    """list-form grammars: number of GLR trees = number of ways to cut the input into lookahead tokens"""
    n = len(w)
    memo = {}

    def ways(p, started):
        p = skipws(w, p)
        key = (p, started)
        if key in memo:
            return memo[key]
        if p == n:
            r = 1 if started else 0
        else:
            toks = py_doc_choice(allterms, descr, rxm, p)[0] if lexdis else py_doc_all(allterms, descr, rxm, p)
            r = sum(ways(p + l, True) for _, l in toks)
        memo[key] = r
        return r
    return ways(0, False)


# ------------------------------------------------------------------ run
def gen_jobs(ctx):
    quick = ctx.quick()
    jobs = corpus()
    n = 260 if quick else 3200
    for i in range(n):
        jobs.append(gen_case(ctx.rng, i, quick))
    for i in range(60 if quick else 600):
        jobs.append(gen_tie_case(ctx.rng, i, quick))
    return jobs


def tie_instance(descr, itoks, doc):
    """KF-C07-string-tie: the impl returns one string/keyword terminal where the documented order is left with
    string/keyword terminals of the same priority and the same match length (itself among the tied ones)"""
    if isinstance(itoks, str) or len(itoks) != 1 or not doc or itoks == doc:
        return False
    t0, l0 = itoks[0]
    if descr[t0][2] not in (0, 1):
        return False
    return all(descr[t][2] in (0, 1) and descr[t][1] == descr[t0][1] and l == l0 for t, l in doc)


def big_prior(cell, descr):
    return any(descr[t][1] >= 10 ** 7 for t in cell)


def run(ctx):
    jobs = gen_jobs(ctx)
    with mp.Pool(common.NPROC) as pool:
        results = pool.map(_worker, jobs, chunksize=2)
    st = {"grammars": 0, "grammar_errors": 0, "parser_errors": {}, "configs": 0, "states": 0,
          "state_pos_compared": 0, "calls_in_real_parses": 0, "lr_parses": 0, "glr_parses": 0,
          "outcomes": {}, "rule_deciding": {}, "matching_terminals_hist": {}, "marked_cells": 0,
          "unmarked_cells": 0, "keyword_grammars": 0, "ignore_case_grammars": 0, "custom_recognizer_grammars": 0,
          "marks_grammars": 0, "families": {}, "glr_tree_counts_checked": 0, "lexdis_on": 0, "lexdis_off": 0,
          "hyp_fail": {"short": 0, "tie": 0, "strlen": 0, "nonempty": 0}, "stop_offered": 0,
          "stop_dropped_by_real_token": 0, "disambiguation_errors_checked": 0, "leaves_checked": 0}
    mcases, meta = [], []
    gerr_samples = []
    for r in results:
        job = r["job"]
        st["grammars"] += 1
        st["families"][job["family"]] = st["families"].get(job["family"], 0) + 1
        if r["gerr"]:
            st["grammar_errors"] += 1
            if len(gerr_samples) < 3:
                gerr_samples.append(r["gerr"])
            if job["family"] not in ("random", "regex-tie"):
                ctx.violation("corpus grammar %s no longer builds: %s" % (job["name"], r["gerr"]),
                              {"grammar": job["text"]}, no_input=True, key="corpus-build")
            continue
        st["keyword_grammars"] += 1 if job.get("keyword") else 0
        st["ignore_case_grammars"] += 1 if job["ignore_case"] else 0
        st["custom_recognizer_grammars"] += 1 if job["customs"] else 0
        st["marks_grammars"] += 1 if job.get("marks") else 0
        for c in r["configs"]:
            st["configs"] += 1
            if c["err"]:
                st["parser_errors"][c["err"]] = st["parser_errors"].get(c["err"], 0) + 1
                continue
            for w in job["inputs"]:
                mcases.append((70, [r["descr"], r["stop"], c["consume"], c["lexdis"],
                                    [[ord(ch) for ch in w], r["rx"][w]], c["states"]]))
                meta.append((r, c, w))
    if st["grammar_errors"] > st["grammars"] // 3:
        ctx.violation("generator degenerate: %d of %d grammars do not build (%r)"
                      % (st["grammar_errors"], st["grammars"], gerr_samples), {}, no_input=True, key="gen")
    outs = common.model_run(mcases)
    nx, xok, xlog = common.coq_crosscheck("C07", mcases, outs, ctx.rng, sample=40 if ctx.quick() else 150)
    if not xok:
        ctx.violation("extraction cross-check failed: OCaml driver and vm_compute disagree", {"log": xlog},
                      no_input=True)
    distinct = set()
    samples = []

    def kf(kid, what):
        ctx.known_finding(kid, what)

    for (r, c, w), o in zip(meta, outs):
        job = r["job"]
        descr, names, stop = r["descr"], r["names"], r["stop"]
        rxm = r["rx"][w]
        n = len(w)
        base = {"grammar": job["text"], "ignore_case": job["ignore_case"], "custom_recognizers": job["customs"],
                "parser": c["kind"], "lexical_disambiguation": c["lexdis"], "consume_input": c["consume"],
                "input": w}

        def show(toks):
            if isinstance(toks, str):
                return toks
            return [(names[t], l) for t, l in toks]

        st["lexdis_on" if c["lexdis"] else "lexdis_off"] += 1
        table = {}
        for sid, ((ids, flags), so) in enumerate(zip(c["states"], o)):
            st["states"] += 1
            sorted_ok, flags_ok, short_ok, unmarked_ok, per_pos = so
            huge = big_prior(ids, descr)
            rep_s = dict(base, state=sid, expected=[names[t] for t in ids], finish_flags=flags)
            if unmarked_ok:
                st["unmarked_cells"] += 1
            else:
                st["marked_cells"] += 1
            if not short_ok:
                st["hyp_fail"]["short"] += 1
            if not sorted_ok:
                if huge:
                    kf(KF_SORT, "state.actions order is not the numeric key order for a priority >= 10^7 "
                       "('{:010d}' overflows): %r" % [names[t] for t in ids])
                else:
                    ctx.violation("order of a state's actions differs from the model of sort_state_actions: %r"
                                  % [names[t] for t in ids], rep_s, no_input=True, key="sort-order")
            if not flags_ok:
                ctx.violation("finish flags of a state differ from the model of calc_finish_flags: %r %r"
                              % ([names[t] for t in ids], flags), rep_s, no_input=True, key="finish-flags")
            prior_sorted = all(descr[a][1] >= descr[b][1] for a, b in zip(ids, ids[1:]))
            for pos, po in enumerate(per_pos):
                mtoks, doc, marks, nonempty_ok, strlen_ok, notie_ok = po
                itoks = c["sweeps"][w][sid][pos]
                table[(sid, pos)] = (mtoks, doc, itoks)
                st["state_pos_compared"] += 1
                rep = dict(rep_s, position=pos, impl=show(itoks), model=show(mtoks), documented=show(doc))
                pdoc, rule = py_doc(ids, descr, rxm, pos, n, stop, c["consume"], c["lexdis"])
                if pdoc != doc:
                    ctx.violation("machinery: Python reference of the documented order and the extracted "
                                  "Spec.LexOrder disagree", dict(rep, python_doc=show(pdoc)), no_input=True,
                                  key="doc-vs-pydoc")
                nmatch = len(py_matches(ids, descr, rxm, pos)) if pos < n else 0
                if pos < n:
                    st["matching_terminals_hist"][min(nmatch, 5)] = \
                        st["matching_terminals_hist"].get(min(nmatch, 5), 0) + 1
                    if c["lexdis"] and unmarked_ok:
                        st["rule_deciding"][rule] = st["rule_deciding"].get(rule, 0) + 1
                if not notie_ok:
                    st["hyp_fail"]["tie"] += 1
                if not strlen_ok:
                    st["hyp_fail"]["strlen"] += 1
                if not nonempty_ok:
                    st["hyp_fail"]["nonempty"] += 1
                if stop in ids and itoks == [[stop, 0]]:
                    st["stop_offered"] += 1
                if stop in ids and not c["consume"] and pos < n and nmatch > 0 and c["lexdis"] and \
                        not isinstance(itoks, str) and [stop, 0] not in itoks:
                    st["stop_dropped_by_real_token"] += 1
                if nmatch >= 2:
                    distinct.add((tuple(ids), tuple(flags), tuple(rxm[t][pos] for t in ids), c["lexdis"]))
                # 1. correspondence: impl vs the model of _next_tokens on the impl's own table
                if itoks != mtoks:
                    if huge and not sorted_ok:
                        pass    # classified below against the documented order
                    else:
                        ctx.violation("parser._next_tokens differs from the model: impl %r, model %r"
                                      % (show(itoks), show(mtoks)), rep, no_input=True, key="impl-vs-model")
                # 2. property: impl vs the documented order
                if c["lexdis"] and not unmarked_ok:
                    # explicit marks: documented meaning of the flags (Spec.LexOrder.marks_scan)
                    if itoks != marks and not (huge and not sorted_ok):
                        ctx.violation("marked cell: tokens %r differ from the documented meaning of finish/nofinish "
                                      "%r" % (show(itoks), show(marks)), dict(rep, marks=show(marks)),
                                      key="marks")
                    continue
                if itoks == doc:
                    if len(samples) < 6 and nmatch >= 3 and rule in ("specific", "longest", "prefer", "ambiguous"):
                        samples.append(dict(rep, rule=rule))
                    continue
                hyps_ok = short_ok and notie_ok and strlen_ok and nonempty_ok and sorted_ok and flags_ok and not huge
                if not c["lexdis"]:
                    hyps_ok = prior_sorted and not huge
                what = "state %d position %d: tokens %r, documented order gives %r" % (sid, pos, show(itoks), show(doc))
                if (not short_ok or huge) and not prior_sorted:
                    kf(KF_SORT, "a lower-priority terminal is tried first because the sort key "
                       "prior*1000+500+len carries / overflows its 10 digits; " + what)
                elif c["lexdis"] and not notie_ok and short_ok and itoks == mtoks and tie_instance(descr, itoks, doc):
                    kf(KF_TIE, "two string terminals match with the same length; the first in sort order is taken "
                       "silently; " + what)
                elif hyps_ok:
                    ctx.violation("token choice deviates from the documented lexical disambiguation order: " + what,
                                  rep, key="doc-order")
                else:
                    ctx.violation("token choice deviates from the documented order outside the classes of the "
                                  "known findings (hypotheses: short=%r notie=%r strlen=%r nonempty=%r sorted=%r): %s"
                                  % (short_ok, notie_ok, strlen_ok, nonempty_ok, sorted_ok, what), rep,
                                  key="doc-order-hyp")
        # real parses of this (config, input)
        pr = c["parses"].get(w)
        if pr is None:
            continue
        st["outcomes"][pr["outcome"]] = st["outcomes"].get(pr["outcome"], 0) + 1
        if c["kind"] == "LR":
            st["lr_parses"] += 1
        else:
            st["glr_parses"] += 1
        if pr["outcome"].startswith("exc:"):
            ctx.violation("parse raised %s" % pr["outcome"], base, key="parse-exc")
            continue
        for sid, pos, toks in pr["calls"]:
            st["calls_in_real_parses"] += 1
            ent = table.get((sid, pos))
            if ent is None or ent[2] != toks:
                ctx.violation("_next_tokens called during a real parse returned %r at state %d position %d; the direct "
                              "call gives %r" % (show(toks), sid, pos, show(ent[2]) if ent else None),
                              dict(base, state=sid, position=pos), no_input=True, key="real-vs-direct")
        if c["kind"] == "LR":
            calls = pr["calls"]
            if pr["outcome"] == "DisambiguationError":
                st["disambiguation_errors_checked"] += 1
                last = calls[-1] if calls else None
                if last is None or len(last[2]) < 2 or sorted(last[2]) != sorted(pr["dis"]):
                    ctx.violation("DisambiguationError.tokens %r are not the tokens _next_tokens returned %r"
                                  % (show(pr["dis"]), show(last[2]) if last else None), base, key="dis-tokens")
            else:
                multi = [x for x in calls if len(x[2]) >= 2]
                if multi:
                    ctx.violation("LR parser went on with %d lookahead tokens %r (single-token requirement)"
                                  % (len(multi[0][2]), show(multi[0][2])), base, key="lr-multi")
            if pr["outcome"] == "SyntaxError":
                last = calls[-1] if calls else None
                if last is not None and len(last[2]) == 1 and c["consume"] is False and last[2][0][0] != stop:
                    pass    # a token was found but has no action: cannot happen (tokens come from the cell)
            if pr["outcome"] == "ok":
                st["leaves_checked"] += 1
                shifted = [[x[2][0][0], x[1], x[2][0][1]] for x in calls if len(x[2]) == 1 and x[2][0][0] != stop]
                # consume_input off: the last lookahead may stay unshifted (parse ends through the STOP fallback)
                lv = pr["leaves"]
                ok = shifted == lv or (not c["consume"] and shifted[:len(lv)] == lv and len(shifted) == len(lv) + 1)
                if not ok:
                    ctx.violation("the leaves of the tree %r are not the tokens chosen %r"
                                  % ([(names[t], s, l) for t, s, l in pr["leaves"]],
                                     [(names[t], s, l) for t, s, l in shifted]), base, key="leaves")
        if c["kind"] == "GLR" and job["form"] == "list" and job["family"] == "random" and c["consume"] \
                and not job.get("marks") and pr["outcome"] in ("ok", "SyntaxError"):
            allterms = c["states"][0][0]
            tie_free = True
            if c["lexdis"]:
                tie_free = all(po[5] for so in o for po in so[4])
            if tie_free:
                exp = count_tokenizations(allterms, descr, rxm, w, c["lexdis"])
                got = pr.get("ntrees", 0)
                st["glr_tree_counts_checked"] += 1
                if exp != got and pr.get("ntrees_nonoverlapping", got) != got:
                    # the forest holds trees with overlapping leaves -- invalid trees, with which the driver
                    # also displaces real derivations (C01/C02: KF-C01-glr-invalid-tree-overlap); the count
                    # says nothing about which tokens the scanner offered
                    st["glr_forests_with_overlapping_leaves_left_to_C01"] = \
                        st.get("glr_forests_with_overlapping_leaves_left_to_C01", 0) + 1
                elif exp != got:
                    ctx.violation("GLR forest has %d trees; following every documented lookahead token gives %d "
                                  "tokenizations" % (got, exp), base, key="glr-forks")
    cov = {
        "evaluations": st["state_pos_compared"] + st["calls_in_real_parses"],
        "distinct_nontrivial": len(distinct),
        "rule": "corpus (known-finding witnesses, hypothesis probes at the 999/1001-character and 10^7-priority "
                "boundaries, the suite's examples) + seeded random grammars: 2-7 declared terminals mixing string, regex "
                "and custom (2- and 3-argument) recognizers, priorities from {unset,0,1,5,9,10,11,15,20}, prefer, "
                "finish/nofinish marks (35% of grammars), KEYWORD rule (30%), ignore_case (40%), in list / sequence / "
                "pair shapes so that states expect different subsets; inputs concatenated from terminal texts, case "
                "variants, regex samples and junk; Parser and GLRParser with lexical_disambiguation on/off and "
                "consume_input on/off; every state x every position compared. non-trivial = at least two expected "
                "terminals match at the position; distinct by (cell order, flags, match lengths, lexdis)",
        "samples": samples,
        "traces_validated_against_impl": st["calls_in_real_parses"],
        "distribution": st,
        "crosscheck_vm_compute_cases": nx,
        "exhaustive": False,
    }
    return cov


def replay(ctx, rep):
    job = {"name": "replay", "text": rep["grammar"], "ignore_case": rep.get("ignore_case", False),
           "customs": rep.get("custom_recognizers", {}), "inputs": [rep["input"]],
           "configs": [(rep.get("parser", "LR"), rep.get("lexical_disambiguation", True),
                        rep.get("consume_input", True))], "form": "seqs", "family": "replay"}
    r = _worker(job)
    if r["gerr"]:
        print("grammar error:", r["gerr"])
        return 1
    for c in r["configs"]:
        print(c["kind"], "lexdis", c["lexdis"], "consume", c["consume"], c["err"])
        if c["err"]:
            continue
        for sid, (ids, flags) in enumerate(c["states"]):
            print(" state", sid, [r["names"][t] for t in ids], flags)
            for w, sw in c["sweeps"].items():
                print("   ", [[(r["names"][t], l) for t, l in x] if not isinstance(x, str) else x for x in sw[sid]])
        print(json.dumps(c["parses"], default=str)[:2000])
    return 0
