"""C05 -- table construction terminates and is a faithful LR(1)-family table."""
import multiprocessing as mp
import os

from lib import common, gramgen

LEVEL = "proof"
ASSUMPTIONS = [
    "theorem C05_nothing_missing: table_complete (boolean validator run on the impl's real table annotated with the "
    "impl's own LR(1) items/follow sets and FIRST sets) implies that EVERY derivation tree of EVERY token sequence has an "
    "accepting run in the LR machine of that table; with table_struct (C04) the machine accepts exactly the derivations",
    "LALR precision, 'conflicts only where LALR(1) has them' and the canonical-LR(1) action comparison use an untrusted "
    "reference construction of the canonical LR(1) automaton (harness/lib/lr1ref.py): tests, not theorems",
    "termination is decided by a state budget 8*|LR1(g)|+64 (hook PARGLARE_VERIF_MAX_STATES) and a wall-clock limit, "
    "not by observing divergence",
    "failures are attributed to a known finding only when the frozen baseline implementation fails identically",
    "theorems C05_first_*/C05_follow_*/C05_closure_*/C05_automaton_structure/C05_lalr_fixpoint/C05_model_table_complete/"
    "C05_model_table_accepts are about the Gallina model of create_table (Model/First.v, Closure.v, Automaton.v, TableBuild.v); "
    "that the impl builds the model's table (state numbering, items, follow sets, ACTION cells in order, GOTOs, finish flags, "
    "FIRST, FOLLOW, conflicts, outcome kinds incl. GrammarError / budget / crashes) is established by the differential run "
    "table_build_correspondence on generated grammars, not by proof",
    "C05_model_table_complete covers the class plain_ok (no priorities, associativities, nops/nopse, prefer_shifts*; EMPTY only at "
    "the end of right-hand sides) for SLR and LALR; with conflict resolution that removes actions completeness is false by design",
]

CLASSICS = [
    ("lalr_not_slr", "S: L '=' R | R; L: '*' R | 'i'; R: L;"),
    ("lr1_not_lalr", "S: 'a' A 'd' | 'b' B 'd' | 'a' B 'e' | 'b' A 'e'; A: 'c'; B: 'c';"),
    ("nqlalr", "S: 'a' 'g' 'd' | 'a' A 'c' | 'b' A 'd' | 'b' 'g' 'c'; A: B; B: 'g';"),
    ("first_leak", "S: B 'x' | B T 'y'; B: 'q'; T: A 'x'; A: 'a' | EMPTY;"),
    ("first_leak2", "S: A 'b'; A: 'a' | EMPTY;"),
    ("diverge", "S: 'a' | 'a' A; A: S S 'a' | 'a';"),
    ("diverge2", "S: 'a' X 'd' | 'b' Y 'd' | 'a' Y 'e' | 'b' X 'e'; X: 'c' X | 'c'; Y: 'c' Y | 'c';"),
    ("expr", "E: E '+' T | T; T: T '*' F | F; F: '(' E ')' | 'i';"),
    ("follow_order", "Doc: Body 'x' | 'c' Body 'x'; Item: 'a'; Body: 'b' Item;"),
    ("range", "S: Bound '-' Bound | Bound; Bound: 'n';"),
]


def _worker(job):
    gname, gtext, start_rule = job
    from parglare import Grammar
    from parglare.closure import LR_0, LR_1
    from parglare.tables import create_table
    from lib import impl, lr1ref
    out = {"gname": gname, "gtext": gtext, "start_rule": start_rule, "gerr": None, "tabs": []}
    try:
        with impl.time_limit(20):
            g = Grammar.from_string(gtext)
    except BaseException as e:  # noqa
        out["gerr"] = impl.exc_kind(e)
        return out
    gi = impl.GInfo(g)
    if start_rule is None:
        sp = 1
        start_nt = None
    else:
        sp = g.get_production_id(start_rule)
        start_nt = gi.sym(g.productions[sp].symbol)[1]
    prods = impl.model_grammar(gi, start_nt)
    stop = impl.stop_id(gi)
    out["grammar"] = prods
    out["stop"] = stop
    ref = lr1ref.LR1(prods, stop, max_states=3000)
    if ref.too_big:
        out["gerr"] = "ref-too-big"
        return out
    out["lr1_states"] = len(ref.states)
    budget = 8 * len(ref.states) + 64
    lalr_la = ref.lalr_lookaheads()
    # reference LALR(1) conflicts per (core, terminal)
    ref_cells = {}
    for i in range(len(ref.states)):
        c = ref.core(i)
        for a, acts in ref.actions(i).items():
            ref_cells.setdefault((c, a), set()).update(acts)
    for kind, name in ((LR_1, "LALR"), (LR_0, "SLR")):
        if start_rule is not None and name == "SLR":
            continue        # the LAYOUT sub-parser is always built LALR by Parser()
        t = {"kind": name}
        os.environ["PARGLARE_VERIF_MAX_STATES"] = str(budget)
        try:
            g2 = Grammar.from_string(gtext)
            gi2 = impl.GInfo(g2)
            with impl.time_limit(20), impl.quiet():
                tab = create_table(g2, itemset_type=kind, start_production=sp,
                                   prefer_shifts=False, prefer_shifts_over_empty=False)
            t["outcome"] = "ok"
        except BaseException as e:  # noqa
            t["outcome"] = impl.exc_kind(e)
            out["tabs"].append(t)
            continue
        finally:
            os.environ.pop("PARGLARE_VERIF_MAX_STATES", None)
        # production 0 must be restored
        t["restored"] = [gi2.sym(s) for s in list.__iter__(g2.productions[0].rhs)][:1] == \
            [[1, impl.model_grammar(gi2)[0][1][0][1]]]
        t["table"] = impl.dump_table(tab, gi2)
        t["ids_ok"] = impl.state_ids_ok(tab)
        ann, ftab, ntab = impl.dump_annotation(tab, gi2, slr=(kind == LR_0), start_nt=start_nt)
        t["ann"], t["first"], t["nullable"] = ann, ftab, ntab
        t["n_states"] = len(tab.states)
        t["sr"] = len(tab.sr_conflicts)
        t["rr"] = len(tab.rr_conflicts)
        # ---- comparison with the canonical LR(1) reference (untrusted oracle) ----
        problems = []
        # simultaneous traversal: impl state <-> LR(1) state for the same viable prefix
        seen = {(0, 0)}
        work = [(0, 0)]
        table = t["table"]
        while work:
            si, sl = work.pop()
            st = table[si]
            cell = {a: acts for a, acts in st[1]}
            gotos = dict((a, s) for a, s in st[2])
            for a, racts in ref.actions(sl).items():
                have = cell.get(a, [])
                for ra in racts:
                    if ra == ("s",):
                        ok = any(x[0] == 0 for x in have)
                    elif ra == ("a",):
                        ok = any(x[0] == 2 for x in have)
                    else:
                        ok = any(x[0] == 1 and x[1] == ra[1] for x in have)
                    if not ok:
                        problems.append(["missing", si, a, list(ra)])
            for (k, x), sl2 in ref.trans[sl].items():
                if k == 0:
                    tgt = [y[1] for y in cell.get(x, []) if y[0] == 0]
                    si2 = tgt[0] if tgt else None
                else:
                    si2 = gotos.get(x)
                if si2 is None:
                    if not (k == 0 and x == stop):
                        problems.append(["missing-transition", si, [k, x]])
                    continue
                if (si2, sl2) not in seen:
                    seen.add((si2, sl2))
                    work.append((si2, sl2))
        if name == "LALR":
            for si, st in enumerate(table):
                core = frozenset((p, d) for p, d in st[4] if d > 0 or p == 0)
                la = lalr_la.get(core)
                for a, acts in st[1]:
                    for x in acts:
                        if x[0] == 1:
                            if la is None or a not in la.get(x[1], set()):
                                problems.append(["imprecise", si, a, x[1]])
                    if len(acts) > 1:
                        refacts = ref_cells.get((core, a), set())
                        if len(refacts) <= 1:
                            problems.append(["spurious-conflict", si, a])
        t["problems"] = problems[:20]
        t["n_problems"] = len(problems)
        t["problem_kinds"] = sorted(set(p[0] for p in problems))
        out["tabs"].append(t)
    return out


def gen_jobs(ctx):
    rng = ctx.rng
    quick = ctx.quick()
    jobs = [(n, t, None) for n, t in CLASSICS]
    jobs += [(n, t, None) for n, t in gramgen.CURATED]
    # LAYOUT start production
    for n, t in gramgen.CURATED[:6]:
        jobs.append((n + "+layout", t + "\nLAYOUT: LayoutItem | LAYOUT LayoutItem | EMPTY;\n"
                     "LayoutItem: WS | Comment;\nterminals\nWS: /\\s+/;\nComment: /\\/\\/.*/;", "LAYOUT"))
    for i in range(24 if quick else 200):
        jobs.append(("twin%d" % i, gramgen.lr1_twin_grammar(rng)[1], None))
        jobs.append(("ctx%d" % i, gramgen.ctx_nullable_grammar(rng)[1], None))
        jobs.append(("chain%d" % i, gramgen.unit_chain_grammar(rng)[1], None))
        jobs.append(("fchain%d" % i, gramgen.follow_chain_grammar(rng)[1], None))
        jobs.append(("epschain%d" % i, gramgen.epsilon_chain_grammar(rng)[1], None))
    n = 400 if quick else 6000
    for i in range(n):
        big = i % 3 == 0
        r = gramgen.random_grammar(rng, max_nt=5 if big else 3, max_alts=3, max_rhs=3,
                                   terms=("'a'", "'b'", "'c'") if big else ("'a'", "'b'"),
                                   p_empty=rng.choice([0.0, 0.1, 0.25]), p_nt=rng.choice([0.4, 0.55]))
        if r is None:
            continue
        prods, text = r
        if i % 5 == 0:
            # bottom-up declaration order: start rule first, the rest reversed
            prods = [prods[0]] + list(reversed(prods[1:]))
            text = gramgen.gr_text(prods)
        jobs.append(("rand%d" % i, text, None))
    return jobs


def classify(t):
    if t["outcome"] != "ok":
        return ["construct:" + t["outcome"]]
    return t["problem_kinds"]


def run(ctx):
    jobs = gen_jobs(ctx)
    with mp.Pool(common.NPROC) as pool:
        results = pool.map(_worker, jobs, chunksize=4)
    st = {"grammars": 0, "grammar_errors": {}, "tables": 0, "outcomes": {}, "lr1_states_max": 0,
          "impl_states_max": 0, "validated_struct": 0, "validated_complete": 0, "conflict_tables": 0,
          "problem_kinds": {}, "not_restored": 0, "baseline_same": 0, "baseline_differs": 0}
    mcases, meta = [], []
    failing = []
    violating_texts = set()
    distinct = set()
    samples = []
    for r in results:
        st["grammars"] += 1
        if r["gerr"]:
            st["grammar_errors"][r["gerr"]] = st["grammar_errors"].get(r["gerr"], 0) + 1
            continue
        st["lr1_states_max"] = max(st["lr1_states_max"], r["lr1_states"])
        start = r["grammar"][0][1][0][1]
        for t in r["tabs"]:
            st["tables"] += 1
            st["outcomes"][t["outcome"]] = st["outcomes"].get(t["outcome"], 0) + 1
            kinds = classify(t)
            for k in kinds:
                st["problem_kinds"][k] = st["problem_kinds"].get(k, 0) + 1
            if t["outcome"] == "ok":
                distinct.add((r["gtext"], t["kind"]))
                st["impl_states_max"] = max(st["impl_states_max"], t["n_states"])
                if t["sr"] or t["rr"]:
                    st["conflict_tables"] += 1
                if not t["restored"]:
                    st["not_restored"] += 1
                    ctx.violation("create_table left the augmented production swapped",
                                  {"grammar": r["gtext"], "kind": t["kind"]}, key="restore")
                if not t.get("ids_ok", True):
                    st["bad_state_ids"] = st.get("bad_state_ids", 0) + 1
                    ctx.violation("states of the table do not carry distinct positional state ids (GLR keys "
                                  "its graph-structured stack and the persisted table by state_id)",
                                  {"grammar": r["gtext"], "kind": t["kind"]}, key="state-ids")
                mcases.append((3, [r["grammar"], t["table"], start]))
                meta.append(("struct", r, t))
                mcases.append((8, [r["grammar"], t["table"], t["ann"], t["first"], t["nullable"], r["stop"]]))
                meta.append(("complete", r, t))
                if len(samples) < 3 and t["n_states"] <= 8 and t["sr"] == 0:
                    samples.append({"grammar": r["gtext"], "kind": t["kind"], "states": t["n_states"],
                                    "lr1_states": r["lr1_states"], "table": t["table"]})
            if kinds:
                failing.append((r, t, kinds))
    outs = common.model_run(mcases)
    nx, xok, xlog = common.coq_crosscheck("C05", mcases, outs, ctx.rng, sample=30 if ctx.quick() else 100)
    if not xok:
        ctx.violation("extraction cross-check failed", {"log": xlog}, no_input=True)
    vfail = {}
    for (kind, r, t), o in zip(meta, outs):
        if kind == "struct":
            st["validated_struct"] += 1
        else:
            st["validated_complete"] += 1
        if o != 1:
            vfail.setdefault((id(r), t["kind"]), []).append(kind)
    for r in results:
        if r["gerr"]:
            continue
        for t in r["tabs"]:
            v = vfail.get((id(r), t["kind"]))
            if v:
                kinds = ["validator:" + x for x in v]
                for k in kinds:
                    st["problem_kinds"][k] = st["problem_kinds"].get(k, 0) + 1
                hit = [f for f in failing if f[0] is r and f[1] is t]
                if hit:
                    hit[0][2].extend(kinds)
                else:
                    failing.append((r, t, kinds))
    # items_sound (hypothesis of C10_viable_prefix): the item sets of every state are justified from
    # its kernel, shift/goto targets have items, S' has one production
    icases, imeta = [], []
    for r in results:
        if r["gerr"]:
            continue
        for t in r["tabs"]:
            if t["outcome"] == "ok":
                icases.append((14, [r["grammar"], t["table"]]))
                imeta.append((r, t))
    st["validated_items_sound"] = 0
    for (r, t), o in zip(imeta, common.model_run(icases)):
        st["validated_items_sound"] += 1
        allok, closure, ne0, productive, uniq = o
        if closure != 1 or ne0 != 1 or uniq != 1:
            ctx.violation("items_sound fails on the impl's table (closure/targets %d, state 0 items %d, single S' "
                          "production %d): item sets are not justified from their kernels" % (closure, ne0, uniq),
                          {"grammar": r["gtext"], "table_kind": t["kind"], "start_rule": r["start_rule"]},
                          no_input=True, key="items_sound")
    # known finding or violation: does the frozen baseline implementation fail identically?
    if failing:
        bjobs = []
        seen = {}
        for (r, t, kinds) in failing:
            if id(r) not in seen:
                seen[id(r)] = len(bjobs)
                bjobs.append((r["gname"], r["gtext"], r["start_rule"]))
        bres = common.baseline_run("props.c05", "_worker", bjobs)
        bval = {}
        if bres is not None:
            bm, bmeta = [], []
            for bi, br in enumerate(bres):
                if br["gerr"]:
                    continue
                for bt in br["tabs"]:
                    if bt["outcome"] == "ok":
                        bm.append((8, [br["grammar"], bt["table"], bt["ann"], bt["first"], bt["nullable"], br["stop"]]))
                        bmeta.append((bi, bt["kind"], "complete"))
                        bm.append((3, [br["grammar"], bt["table"], br["grammar"][0][1][0][1]]))
                        bmeta.append((bi, bt["kind"], "struct"))
            for (bi, k, what), o in zip(bmeta, common.model_run(bm)):
                if o != 1:
                    bval.setdefault((bi, k), []).append("validator:" + what)
        kf_ids = {e["id"]: e for e in ctx.kf}
        for (r, t, kinds) in failing:
            rep = {"grammar": r["gtext"], "table_kind": t["kind"], "start_rule": r["start_rule"],
                   "outcome": t["outcome"], "problems": t.get("problems", [])[:5], "kinds": kinds,
                   "lr1_states": r.get("lr1_states")}
            same = False
            if bres is not None:
                br = bres[seen[id(r)]]
                if not br["gerr"]:
                    bt = [x for x in br["tabs"] if x["kind"] == t["kind"]]
                    if bt:
                        bk = classify(bt[0]) + bval.get((seen[id(r)], t["kind"]), [])
                        same = sorted(set(bk)) == sorted(set(kinds)) and \
                            bt[0].get("problems") == t.get("problems")
            kf = None
            if same:
                if any(k.startswith("construct:") for k in kinds):
                    kf = "KF-C05-lalr-divergence"
                elif "imprecise" in kinds or "spurious-conflict" in kinds:
                    kf = "KF-C05-lalr-imprecise"
            if kf and kf in kf_ids:
                st["baseline_same"] += 1
                ctx.known_finding(kf, "%s; first seen: grammar %r (%s)" % (", ".join(kinds), r["gtext"], t["kind"]))
            else:
                st["baseline_differs"] += 1
                what = "table construction: " + ", ".join(sorted(set(kinds)))
                ctx.violation(what, rep, key="+".join(sorted(set(kinds))))
                violating_texts.add(r["gtext"])
    # ==== table_build_correspondence =====================================================
    # The Gallina model of create_table itself (Model/First.v, Closure.v, Automaton.v,
    # TableBuild.v) is run on generated grammars and compared with the impl's tables, item sets,
    # follow sets, FIRST/FOLLOW, conflicts (harness/lib/tabcorr.py).  A disagreement is a
    # violation of the correspondence unless the grammar already shows a property violation above.
    from lib import tabcorr
    tab_cov = tabcorr.run(ctx, skip_texts=violating_texts)
    # ==== end of table_build_correspondence ==============================================
    return {
        "evaluations": st["tables"],
        "distinct_nontrivial": len(distinct),
        "rule": "classic LR grammars, curated shapes (also with a LAYOUT start production) and seeded random productive "
                "grammars (3-5 nonterminals, 2-3 terminals, top-down and bottom-up declaration order), LALR and SLR, no "
                "strategies; non-trivial = construction finished; distinct by (grammar, table kind)",
        "samples": samples,
        "traces_validated_against_impl": st["validated_complete"],
        "distribution": st,
        "table_build_correspondence": tab_cov,
        "model_tables_compared_with_impl": tab_cov["compared"],
        "crosscheck_vm_compute_cases": nx + tab_cov["crosscheck_vm_compute_cases"],
        "exhaustive": False,
    }


def replay(ctx, rep):
    r = _worker(("replay", rep["grammar"], rep.get("start_rule")))
    for t in r["tabs"]:
        print(t["kind"], t["outcome"], t.get("n_problems"), t.get("problems"))
    return 0
