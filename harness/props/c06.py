"""C06 -- Priorities and associativity give the conventional operator-precedence parse."""
import multiprocessing as mp

from lib import common, gramgen

LEVEL = "proof"
ASSUMPTIONS = [
    "theorems (unbounded, Coq): the shift-reduce machine OPM whose decisions are [dec_of] returns the tree of the "
    "precedence-climbing parser for every operator table and token sequence (C06_opm_climb); the model of the "
    "shift/reduce resolution code decides like [decide] in every state (C06_resolve_decides); "
    "_max_prior_per_symbol of an operator is its production's priority for any item order, and both composed over the "
    "whole reduce phase of an operator state (C06_operator_state_cell); the climbing tree has the input as yield and "
    "satisfies the declarative precedence condition prec_ok (C06_climb_yield, C06_climb_prec_ok); the reduce phase is "
    "the identity on conflict-free unresolved states (C06_noop_on_conflict_free, C06_default_is_unresolved)",
    "NOT proved: that the LR/GLR drivers on the automaton of the operator grammar are the machine OPM "
    "(planned C06_table_opm / C06_builder_opm); that link is differential only: impl LR and GLR results vs the extracted "
    "climb on every generated expression, and every operator-vs-operator cell of the impl table vs the extracted dec_of",
    "the reduce-phase model (Model/Resolve.v) is tied to /repo by re-running it on the impl's own item sets and "
    "lookahead sets of every state (LALR and SLR) and comparing the resulting ACTION cells and _max_prior_per_symbol",
    "automaton construction before the reduce phase (closure, LALR merging) is not modelled here; its independence "
    "from priorities is checked by comparing whole impl tables of decorated and undecorated conflict-free grammars",
]

OPS_POOL = ["+", "-", "*", "/", "^", "%", "&", "~", "<<", "==", "or", "@"]
T_NUM, T_LP, T_RP = 0, 1, 2


# ------------------------------------------------------------------ generators
def gen_optable(rng, idx):
    """operator table + grammar text.  Returns a case dict."""
    n_ops = 1 + (idx % 6) if idx < 36 else rng.randint(1, 6)
    n_lev = 1 + ((idx // 6) % 6) if idx < 36 else rng.randint(1, 6)
    n_lev = min(n_lev, n_ops) if rng.random() < 0.8 else n_lev
    syms = rng.sample(OPS_POOL, n_ops)
    prios = sorted(rng.sample(range(0, 25), n_lev))       # crosses DEFAULT_PRIORITY = 10
    if idx % 4 == 3:
        # priorities are arbitrary integers: values beyond CPython's small-int cache (-5..256), where equal
        # numbers are distinct objects (seed C06-6: `is` instead of `==`), and beyond 2^63
        prios = sorted(rng.sample(list(range(250, 265)) + [1000, 4096, 65535, 65536, 10 ** 6, 2 ** 31, 2 ** 63 - 1,
                                                           2 ** 63, 2 ** 64 + 1, 10 ** 20], n_lev))
    lev_assoc = [rng.choice([1, 2]) for _ in range(n_lev)]  # ASSOC_LEFT / ASSOC_RIGHT
    # every level used at least once when possible
    levels = list(range(min(n_lev, n_ops))) + [rng.randrange(n_lev) for _ in range(max(0, n_ops - n_lev))]
    rng.shuffle(levels)
    ops = [(syms[i], prios[levels[i]], lev_assoc[levels[i]]) for i in range(n_ops)]
    alts = [("op", i) for i in range(n_ops)] + [("par",), ("num",)]
    rng.shuffle(alts)
    num_kind = rng.choice(["regex", "string"])
    rule_assoc = None
    if len(set(a for _, _, a in ops)) == 1 and rng.random() < 0.5:
        rule_assoc = ops[0][2]
    rule_prior = None
    if len(set(p for _, p, _ in ops)) == 1 and rng.random() < 0.5:
        rule_prior = ops[0][1]
    parts = []
    for a in alts:
        if a[0] == "op":
            s, p, asc = ops[a[1]]
            md = []
            if rule_assoc is None or rng.random() < 0.3:
                md.append(rng.choice(["left", "reduce"]) if asc == 1 else rng.choice(["right", "shift"]))
            if rule_prior is None or rng.random() < 0.3:
                md.append(str(p))
            rng.shuffle(md)
            parts.append("E '%s' E%s" % (s, (" {%s}" % ", ".join(md)) if md else ""))
        elif a[0] == "par":
            parts.append("'(' E ')'")
        else:
            parts.append("number" if num_kind == "regex" else "'n'")
    rmd = []
    if rule_assoc is not None:
        rmd.append("left" if rule_assoc == 1 else "right")
    if rule_prior is not None:
        rmd.append(str(rule_prior))
    text = "E%s: %s;\n" % ((" {%s}" % ", ".join(rmd)) if rmd else "", "\n | ".join(parts))
    if num_kind == "regex":
        text += "terminals\nnumber: /\\d+/;\n"
    return {"kind": "optable", "ops": ops, "alts": alts, "text": text, "num_kind": num_kind,
            "rule_level": bool(rmd)}


def gen_ex(rng, n_ops, size, p_par=0.15):
    """random expression tree with `size` operators: 0 | [o,l,r] | [e]"""
    if size == 0:
        e = 0
    else:
        k = rng.randrange(size)
        e = [rng.randrange(n_ops), gen_ex(rng, n_ops, k, p_par), gen_ex(rng, n_ops, size - 1 - k, p_par)]
    if rng.random() < p_par:
        e = [e]
    return e


def ex_tokens(e):
    """tokens of a tree with NO implicit parentheses (the tree shape is forgotten)"""
    if e == 0:
        return [T_NUM]
    if len(e) == 1:
        return [T_LP] + ex_tokens(e[0]) + [T_RP]
    return ex_tokens(e[1]) + [3 + e[0]] + ex_tokens(e[2])


def render(rng, toks, case):
    out = []
    for i, t in enumerate(toks):
        if t == T_NUM:
            s = str(rng.randrange(0, 1000)) if case["num_kind"] == "regex" else "n"
            # two adjacent numbers must stay two tokens
            if out and (out[-1][-1:].isdigit() or out[-1][-1:] == "n") and case["num_kind"] == "regex":
                out.append(" ")
        elif t == T_LP:
            s = "("
        elif t == T_RP:
            s = ")"
        else:
            s = case["ops"][t - 3][0]
            # keep multi-character / letter operators apart from a preceding operator char
            if out and not out[-1].isspace() and not (out[-1][-1:].isdigit() or out[-1][-1:] in "n()"):
                out.append(" ")
        out.append(s)
        r = rng.random()
        if r < 0.3:
            out.append(" ")
        elif r < 0.35:
            out.append("\n\t")
    if toks and rng.random() < 0.2:
        out.insert(0, "  ")
    return "".join(out)


def gen_inputs(rng, case, quick):
    """list of token lists: exhaustive small + random + corrupted"""
    n = len(case["ops"])
    seen = set()
    toks_list = []

    def add(toks, kind):
        k = tuple(toks)
        if k not in seen:
            seen.add(k)
            toks_list.append((toks, kind))

    # exhaustive: all operator sequences of length <= kmax without parentheses
    import itertools
    kmax = 3 if n <= 3 else 2
    if not quick:
        kmax += 1
    budget = 90 if quick else 300
    seqs = []
    for k in range(0, kmax + 1):
        seqs.extend(itertools.product(range(n), repeat=k))
    if len(seqs) > budget:
        rng.shuffle(seqs)
        seqs = seqs[:budget]
    for seq in seqs:
        toks = [T_NUM]
        for o in seq:
            toks += [3 + o, T_NUM]
        add(toks, "exhaustive")
    # random with parentheses
    for _ in range(25 if quick else 100):
        size = rng.choice([1, 2, 3, 4, 5, 6, 8, 10, 14])
        add(ex_tokens(gen_ex(rng, n, size, rng.choice([0.0, 0.1, 0.3]))), "random")
    # one long chain (deep stack)
    size = 40 if quick else 150
    add(ex_tokens(gen_ex(rng, n, size, 0.05)), "long")
    # corrupted
    good = [t for t, _ in toks_list]
    for _ in range(12 if quick else 40):
        t = list(rng.choice(good))
        r = rng.random()
        i = rng.randrange(len(t) + 1)
        if r < 0.35 and t:
            del t[min(i, len(t) - 1)]
        elif r < 0.7:
            t.insert(i, rng.choice([T_NUM, T_LP, T_RP, 3 + rng.randrange(n)]))
        elif t:
            t[min(i, len(t) - 1)] = rng.choice([T_NUM, T_LP, T_RP, 3 + rng.randrange(n)])
        add(t, "corrupted")
    return toks_list


STRATIFIED = [
    ("strat2", "E: E '+' T | T; T: T '*' F | F; F: '(' E ')' | 'n';", ["n", "+", "*", "(", ")"]),
    ("strat_r", "E: T '+' E | T; T: 'n' | '(' E ')';", ["n", "+", "(", ")"]),
    ("list", "L: L ',' 'x' | 'x';", ["x", ","]),
    ("stmt", "S: 'i' S 'e' S 'f' | 'x' | 'b' L 'd'; L: S | L ',' S;", ["i", "e", "f", "x", "b", "d", ","]),
]


def decorate(rng, prods, style):
    """grammar text with random meta-data on every production"""
    out = []
    for lhs, alts in prods:
        rule_md = []
        if style == "rule" or (style == "mixed" and rng.random() < 0.5):
            rule_md = rng.sample(["left", "right", str(rng.randrange(0, 30)), "nops", "nopse"],
                                 rng.randint(1, 3))
            if "left" in rule_md and "right" in rule_md:
                rule_md.remove("right")
        parts = []
        for a in alts:
            md = []
            if style != "rule":
                md = rng.sample([rng.choice(["left", "right", "shift", "reduce"]),
                                 str(rng.randrange(0, 30)), "nops", "nopse"], rng.randint(0, 3))
            parts.append((" ".join(a) if a else "EMPTY") + ((" {%s}" % ", ".join(md)) if md else ""))
        out.append("%s%s: %s;" % (lhs, (" {%s}" % ", ".join(rule_md)) if rule_md else "", " | ".join(parts)))
    return "\n".join(out)


# ------------------------------------------------------------------ impl side
def _patient(f, seconds):
    """run f() under a wall-clock limit; a timeout is retried once with 15x the limit so that
    starvation on a loaded machine is not mistaken for non-termination"""
    from lib import impl
    try:
        with impl.time_limit(seconds):
            return f()
    except impl.Timeout:
        pass
    with impl.time_limit(seconds * 15):
        return f()


def _dump_states(table, gi, g, tables_kind):
    """per state: the inputs of the reduce phase and its observable results"""
    from parglare.grammar import STOP, NonTerminal
    from parglare.tables import SHIFT, SLR, first, follow
    fol = None
    if tables_kind == SLR:
        fol = follow(g, first(g))
    sdump = []
    bykernel = {}
    for s in table.states:
        k = (gi.sym(s.symbol)[0], gi.sym(s.symbol)[1],
             frozenset((i.production.prod_id, i.position) for i in s.kernel_items))
        bykernel.setdefault(k, s.state_id)
    for s in table.states:
        items = []
        per_next = {}
        order = []
        for it in s.items:
            if it.is_at_end:
                fs = list(it.follow) if fol is None else list(fol[it.production.symbol])
                items.append([it.production.prod_id, it.position, [gi.term_index(t) for t in fs]])
            else:
                items.append([it.production.prod_id, it.position, []])
                sym = it.symbol_at_position
                if sym not in per_next:
                    per_next[sym] = []
                    order.append(sym)
                per_next[sym].append((it.production.prod_id, it.position + 1))
        shifts = []
        for sym in order:
            if isinstance(sym, NonTerminal):
                continue
            if sym is STOP:
                shifts.append([gi.term_index(sym), [[2]]])
                continue
            # the SHIFT survives in the final cell unless a reduction removed it; then the
            # target is found by its kernel (first state with that kernel, as the impl's lookup)
            tgt = None
            for a in s.actions.get(sym, []):
                if a.action == SHIFT:
                    tgt = a.state.state_id
            if tgt is None:
                k = (0, gi.term_index(sym), frozenset(per_next[sym]))
                tgt = bykernel.get(k)
            if tgt is None:
                return None
            shifts.append([gi.term_index(sym), [[0, tgt]]])
        from lib import impl
        final = {gi.term_index(t): [impl.dump_action(a) for a in al] for t, al in s.actions.items()}
        mp_ = sorted([gi.sym(k), v] for k, v in s._max_prior_per_symbol.items())
        sdump.append({"items": items, "shifts": shifts, "final": final, "maxprior": mp_})
    return sdump


def _metas(g):
    return [[p.prior, p.assoc, 1 if p.nops else 0, 1 if p.nopse else 0] for p in g.productions]


def _conv_node(n, alts):
    kind = alts[n.production.prod_id - 1]
    if kind[0] == "op":
        return [kind[1], _conv_node(n.children[0], alts), _conv_node(n.children[2], alts)]
    if kind[0] == "par":
        return [_conv_node(n.children[1], alts)]
    return 0


def _conv_tree(t, alts):
    kind = alts[t.root.production.prod_id - 1]
    ch = t.children
    if kind[0] == "op":
        return [kind[1], _conv_tree(ch[0], alts), _conv_tree(ch[2], alts)]
    if kind[0] == "par":
        return [_conv_tree(ch[1], alts)]
    return 0


def _conv_list(x, opidx):
    if isinstance(x, str):
        return 0
    if len(x) == 3 and x[0] == "(":
        return [_conv_list(x[1], opidx)]
    return [opidx[x[1]], _conv_list(x[0], opidx), _conv_list(x[2], opidx)]


def _worker_optable(case):
    import sys
    sys.setrecursionlimit(20000)
    import parglare
    from parglare import GLRParser, Grammar, Parser
    from parglare.tables import LALR, SLR
    from lib import impl
    out = {"case": case, "gerr": None, "variants": []}
    try:
        g = _patient(lambda: Grammar.from_string(case["text"]), 20)
    except BaseException as e:  # noqa
        out["gerr"] = impl.exc_kind(e) + ": " + str(e)[:200]
        return out
    gi = impl.GInfo(g)
    out["grammar"] = gi.productions()       # production 0 keeps its STOP
    out["metas"] = _metas(g)
    out["state_syms"] = None
    alts = case["alts"]
    # front end: meta-data landed on the productions
    fe = []
    for i, a in enumerate(alts):
        p = g.productions[i + 1]
        if a[0] == "op":
            _, prior, asc = case["ops"][a[1]]
            if p.prior != prior or p.assoc != asc:
                fe.append([i + 1, str(p), p.prior, p.assoc, prior, asc])
    out["frontend_mismatch"] = fe
    out["op_term"] = [gi.term_index(g.get_terminal(s)) for s, _, _ in case["ops"]]
    opidx = {s: i for i, (s, _, _) in enumerate(case["ops"])}
    for tk in (LALR, SLR):
        v = {"tables": tk, "results": []}
        def build3():
            with impl.quiet():
                return (Parser(g, build_tree=True, prefer_shifts=False, prefer_shifts_over_empty=False,
                               tables=tk),
                        Parser(g, prefer_shifts=False, prefer_shifts_over_empty=False, tables=tk),
                        GLRParser(g, prefer_shifts=False, prefer_shifts_over_empty=False, tables=tk))
        try:
            p, p2, gl = _patient(build3, 30)
            v["outcome"] = "ok"
        except BaseException as e:  # noqa
            v["outcome"] = impl.exc_kind(e)
            out["variants"].append(v)
            continue
        v["state_syms"] = [gi.sym(s.symbol) for s in p.table.states]
        v["states"] = _dump_states(p.table, gi, g, tk)
        v["conflicts"] = [len(p.table.sr_conflicts), len(p.table.rr_conflicts)]
        for (toks, kind, w) in case["inputs"]:
            r = {}
            try:
                r["lr"] = _patient(lambda: _conv_node(p.parse(w), alts), 10)
            except parglare.SyntaxError:
                r["lr"] = "SyntaxError"
            except BaseException as e:  # noqa
                r["lr"] = "exc:" + impl.exc_kind(e)
            try:
                r["lr_list"] = _patient(lambda: _conv_list(p2.parse(w), opidx), 10)
            except parglare.SyntaxError:
                r["lr_list"] = "SyntaxError"
            except BaseException as e:  # noqa
                r["lr_list"] = "exc:" + impl.exc_kind(e)
            def glr_all():
                f = gl.parse(w)
                return (len(f), f.ambiguities, _conv_tree(f[0], alts),
                        _conv_list(gl.call_actions(f[0]), opidx))
            try:
                r["glr_len"], r["glr_amb"], r["glr"], r["glr_list"] = _patient(glr_all, 10)
            except parglare.SyntaxError:
                r["glr"] = "SyntaxError"
            except BaseException as e:  # noqa
                r["glr"] = "exc:" + impl.exc_kind(e)
            v["results"].append(r)
        out["variants"].append(v)
    return out


def _worker_noop(job):
    import sys
    sys.setrecursionlimit(20000)
    import parglare
    from parglare import GLRParser, Grammar, Parser
    from parglare.tables import LALR
    from lib import impl
    name, plain, decorated, inputs = job
    out = {"name": name, "plain": plain, "skip": None, "variants": []}

    def build(text):
        g = Grammar.from_string(text)
        with impl.quiet():
            p = Parser(g, build_tree=True, prefer_shifts=False, prefer_shifts_over_empty=False)
        return g, p

    try:
        # no retry here: LALR construction is known to diverge on some random grammars (C05)
        with impl.time_limit(10):
            g0, p0 = build(plain)
    except BaseException as e:  # noqa
        out["skip"] = impl.exc_kind(e)
        return out
    gi0 = impl.GInfo(g0)
    t0 = impl.dump_table(p0.table, gi0)
    if not all(len(al) == 1 for s in p0.table.states for al in s.actions.values()):
        out["skip"] = "not-deterministic"
        return out

    def results(g, p, gi):
        res = []
        with impl.quiet():
            gl = GLRParser(g, prefer_shifts=False, prefer_shifts_over_empty=False)
        for w in inputs:
            try:
                a = _patient(lambda: impl.node_sx(p.parse(w), gi), 10)
            except parglare.SyntaxError as e:
                a = ["SyntaxError", e.location.start_position]
            except BaseException as e:  # noqa
                a = "exc:" + impl.exc_kind(e)
            def glr2():
                f = gl.parse(w)
                return [len(f), impl.tree_sx(f[0], gi)]
            try:
                b = _patient(glr2, 10)
            except parglare.SyntaxError as e:
                b = ["SyntaxError", e.location.start_position]
            except BaseException as e:  # noqa
                b = "exc:" + impl.exc_kind(e)
            res.append([a, b])
        return res

    out["table"] = t0
    out["results"] = results(g0, p0, gi0)
    out["accepted"] = sum(1 for a, _ in out["results"] if isinstance(a, list) and a[0] != "SyntaxError")
    for text in decorated:
        v = {"text": text}
        try:
            g1, p1 = _patient(lambda: build(text), 20)
            v["outcome"] = "ok"
        except BaseException as e:  # noqa
            v["outcome"] = impl.exc_kind(e) + ": " + str(e)[:200]
            out["variants"].append(v)
            continue
        gi1 = impl.GInfo(g1)
        v["table_equal"] = impl.dump_table(p1.table, gi1) == t0
        v["results_equal"] = results(g1, p1, gi1) == out["results"]
        v["grammar"] = gi1.productions()
        v["metas"] = _metas(g1)
        v["nondefault"] = sum(1 for m in v["metas"] if m != [10, 0, 0, 0])
        v["state_syms"] = [gi1.sym(s.symbol) for s in p1.table.states]
        v["states"] = _dump_states(p1.table, gi1, g1, LALR)
        out["variants"].append(v)
    return out


def _worker_rand(job):
    """arbitrary decorated grammar, arbitrary strategies: only the reduce phase is compared"""
    from parglare import Grammar
    from parglare.closure import LR_0, LR_1
    from parglare.tables import SLR, create_table
    from lib import impl
    text, ps, pse, tk = job
    out = {"text": text, "ps": ps, "pse": pse, "tables": tk, "skip": None}
    try:
        with impl.time_limit(5), impl.quiet():
            g = Grammar.from_string(text)
            table = create_table(g, itemset_type=LR_0 if tk == SLR else LR_1, prefer_shifts=ps,
                                 prefer_shifts_over_empty=pse)
    except BaseException as e:  # noqa
        out["skip"] = impl.exc_kind(e)
        return out
    gi = impl.GInfo(g)
    out["grammar"] = gi.productions()
    out["metas"] = _metas(g)
    out["state_syms"] = [gi.sym(s.symbol) for s in table.states]
    out["states"] = _dump_states(table, gi, g, tk)
    return out


# ------------------------------------------------------------------ the run
def _final_canon(cells):
    return {int(k): v for k, v in cells.items()}


def run(ctx):
    rng = ctx.rng
    quick = ctx.quick()
    n_tables = 200 if quick else 1000
    cases = []
    for i in range(n_tables):
        c = gen_optable(rng, i)
        ins = gen_inputs(rng, c, quick)
        c["inputs"] = [(t, k, render(rng, t, c)) for t, k in ins]
        cases.append(c)
    # no-op jobs
    noop_jobs = []
    bases = [(n, t, a) for n, t, a in STRATIFIED]
    for name, text in gramgen.CURATED:
        bases.append((name, text, gramgen.alphabet_of(text)))
    for i in range(200 if quick else 2000):
        r = gramgen.random_grammar(rng, max_nt=3, max_alts=3, max_rhs=3, p_empty=rng.choice([0.0, 0.15]))
        if r is not None:
            bases.append(("rand%d" % i, r[1], ["a", "b"]))
    for name, text, alpha in bases:
        prods = gramgen.parse_text_prods(text)
        decorated = [decorate(rng, prods, st) for st in ("prod", "rule", "mixed", "prod")]
        inputs = list(gramgen.all_strings(alpha, 4 if len(alpha) <= 3 else 3))
        if len(inputs) > 150:
            rng.shuffle(inputs)
            inputs = inputs[:150]
        for _ in range(10):
            s = gramgen.random_sentence(rng, prods, max_depth=6, max_len=14)
            if s is not None and s not in inputs:
                inputs.append(s)
        noop_jobs.append((name, text, decorated, inputs))

    rand_jobs = []
    for i in range(150 if quick else 3000):
        r = gramgen.random_grammar(rng, max_nt=3, max_alts=4, max_rhs=3,
                                   p_empty=rng.choice([0.0, 0.15, 0.3]))
        if r is None:
            continue
        rand_jobs.append((decorate(rng, r[0], rng.choice(["prod", "rule", "mixed"])),
                          rng.random() < 0.4, rng.random() < 0.5, rng.choice([1, 1, 0])))

    import time
    t_start = time.time()
    with mp.Pool(common.NPROC) as pool:
        res_op = pool.map(_worker_optable, cases, chunksize=1)
        res_noop = pool.map(_worker_noop, noop_jobs, chunksize=1)
        res_rand = pool.map(_worker_rand, rand_jobs, chunksize=4)

    st = {"operator_tables": 0, "by_n_ops": {}, "by_n_levels": {}, "rule_level_metadata": 0,
          "constructed": 0, "states_compared": 0, "operator_cells_checked": 0,
          "decisions": {"shift": 0, "reduce": 0}, "expressions": 0, "by_kind": {},
          "well_formed": 0, "ill_formed": 0, "lr_compared": 0, "glr_compared": 0,
          "noop_bases": 0, "noop_bases_deterministic": 0, "noop_variants": 0,
          "noop_variants_with_metadata": 0, "noop_states_compared": 0, "noop_inputs_accepted": 0,
          "model_reduce_crash": 0}
    mcases = []
    meta = []
    for r in res_op:
        case = r["case"]
        st["operator_tables"] += 1
        rep0 = {"grammar": case["text"], "operators": case["ops"]}
        if r["gerr"]:
            ctx.violation("operator grammar rejected by Grammar.from_string: %s" % r["gerr"], rep0,
                          key="grammar-error")
            continue
        n = len(case["ops"])
        st["by_n_ops"][n] = st["by_n_ops"].get(n, 0) + 1
        nl = len(set(p for _, p, _ in case["ops"]))
        st["by_n_levels"][nl] = st["by_n_levels"].get(nl, 0) + 1
        st["rule_level_metadata"] += 1 if case["rule_level"] else 0
        if r["frontend_mismatch"]:
            ctx.violation("declared priority/associativity did not land on the production: %r"
                          % r["frontend_mismatch"][0], rep0, key="frontend")
        opsx = [[p, a] for _, p, a in case["ops"]]
        mcases.append((63, [opsx]))
        meta.append(("dec", r, None, None))
        for (toks, kind, w) in case["inputs"]:
            mcases.append((61, [opsx, 3 * len(toks) + 10, toks]))
            meta.append(("climb", r, (toks, kind, w), None))
            mcases.append((62, [opsx, toks]))
            meta.append(("opm", r, (toks, kind, w), None))
        for v in r["variants"]:
            tname = "LALR" if v["tables"] == 1 else "SLR"
            if v["outcome"] != "ok":
                ctx.violation("Parser/GLRParser construction raised %s on an operator grammar with declared "
                              "priorities and associativities (%s, prefer_shifts off)" % (v["outcome"], tname),
                              dict(rep0, tables=tname), key="construct-" + v["outcome"])
                continue
            st["constructed"] += 1
            if v["conflicts"] != [0, 0]:
                ctx.violation("table has conflicts %r" % v["conflicts"], dict(rep0, tables=tname),
                              key="conflicts")
            if v["states"] is None:
                ctx.violation("could not reconstruct the shift targets of the impl table",
                              dict(rep0, tables=tname), no_input=True, key="dump")
                continue
            for si, sd in enumerate(v["states"]):
                mcases.append((60, [r["grammar"], r["metas"], 0, 0, v["state_syms"], sd["items"],
                                    sd["shifts"]]))
                meta.append(("reduce", r, v, si))
    for r in res_noop:
        st["noop_bases"] += 1
        if r["skip"]:
            continue
        st["noop_bases_deterministic"] += 1
        st["noop_inputs_accepted"] += r["accepted"]
        for v in r["variants"]:
            st["noop_variants"] += 1
            rep = {"grammar_without_metadata": r["plain"], "grammar": v["text"]}
            if v["outcome"] != "ok":
                ctx.violation("grammar is conflict-free without meta-data but construction with meta-data "
                              "raised %s" % v["outcome"], rep, key="noop-construct")
                continue
            if v["nondefault"]:
                st["noop_variants_with_metadata"] += 1
            if not v["table_equal"]:
                ctx.violation("adding priorities/associativities to a conflict-free grammar changed the table",
                              rep, key="noop-table")
            if not v["results_equal"]:
                ctx.violation("adding priorities/associativities to a conflict-free grammar changed a parse "
                              "result (LR or GLR)", rep, key="noop-results")
            if v["states"] is None:
                continue
            for si, sd in enumerate(v["states"]):
                mcases.append((60, [v["grammar"], v["metas"], 0, 0, v["state_syms"], sd["items"],
                                    sd["shifts"]]))
                meta.append(("noop-reduce", r, v, si))

    st.update({"rand_grammars": 0, "rand_skipped": {}, "rand_states_compared": 0,
               "rand_states_where_resolution_acted": 0, "rand_cells_multi_action": 0,
               "rand_cells_rr_override": 0})
    for r in res_rand:
        st["rand_grammars"] += 1
        if r["skip"] or r["states"] is None:
            k = r["skip"] or "dump"
            st["rand_skipped"][k] = st["rand_skipped"].get(k, 0) + 1
            continue
        for si, sd in enumerate(r["states"]):
            mcases.append((60, [r["grammar"], r["metas"], r["ps"], r["pse"], r["state_syms"], sd["items"],
                                sd["shifts"]]))
            meta.append(("rand-reduce", r, r, si))

    t_impl = time.time()
    outs = common.model_run(mcases)
    t_model = time.time()
    nx, xok, xlog = common.coq_crosscheck("C06", mcases, outs, ctx.rng, sample=60 if quick else 200)
    t_x = time.time()
    st["phase_seconds"] = {"impl_workers": round(t_impl - t_start, 1), "model": round(t_model - t_impl, 1),
                           "vm_compute_crosscheck": round(t_x - t_model, 1)}
    if not xok:
        ctx.violation("extraction cross-check failed: OCaml driver and vm_compute disagree",
                      {"log": xlog}, no_input=True)

    samples = []
    distinct = set()
    decs = {}
    climbs = {}
    for (kind, r, a, b), o in zip(meta, outs):
        if kind == "dec":
            decs[id(r)] = o
        elif kind == "climb":
            climbs[(id(r), tuple(a[0]))] = o
    for (kind, r, a, b), o in zip(meta, outs):
        if kind == "opm":
            cl = climbs[(id(r), tuple(a[0]))]
            if cl != [] and o != cl:
                ctx.violation("extracted OPM and climb disagree (contradicts C06_opm_climb)",
                              {"operators": r["case"]["ops"], "tokens": a[0], "opm": o, "climb": cl},
                              no_input=True, key="opm-climb")
            continue
        if kind in ("reduce", "noop-reduce", "rand-reduce"):
            v, si = a, b
            sd = v["states"][si]
            if kind == "rand-reduce":
                st["rand_states_compared"] += 1
                rep = {"grammar": v["text"], "prefer_shifts": v["ps"], "prefer_shifts_over_empty": v["pse"],
                       "tables": "LALR" if v["tables"] == 1 else "SLR", "state": si}
                if o[0] != [] and o[0][0] != o[2]:
                    st["rand_states_where_resolution_acted"] += 1
                    un = {c[0]: c[1] for c in o[2]}
                    for c in o[0][0]:
                        if len(c[1]) > 1:
                            st["rand_cells_multi_action"] += 1
                        nred_un = sum(1 for x in un.get(c[0], []) if x[0] == 1)
                        nred = sum(1 for x in c[1] if x[0] == 1)
                        if nred_un >= 2 and nred < nred_un:
                            st["rand_cells_rr_override"] += 1
            elif kind == "reduce":
                st["states_compared"] += 1
                rep = {"grammar": r["case"]["text"], "tables": "LALR" if v["tables"] == 1 else "SLR",
                       "state": si}
            else:
                st["noop_states_compared"] += 1
                rep = {"grammar": v["text"], "state": si}
            if o[0] == []:
                st["model_reduce_crash"] += 1
                ctx.violation("reduce-phase model hit a KeyError path on an impl state", dict(rep, dump=sd),
                              no_input=True, key="reduce-crash")
                continue
            mfinal = {c[0]: c[1] for c in o[0][0]}
            if mfinal != _final_canon(sd["final"]):
                ctx.violation("ACTION cells of the impl state differ from the reduce-phase model",
                              dict(rep, model=mfinal, impl=sd["final"]), no_input=True, key="diff-cells")
            if sorted(o[1]) != sd["maxprior"]:
                ctx.violation("_max_prior_per_symbol differs from the model",
                              dict(rep, model=sorted(o[1]), impl=sd["maxprior"]), no_input=True,
                              key="diff-maxprior")
            if kind == "noop-reduce":
                mun = {c[0]: c[1] for c in o[2]}
                if o[3] != 1 or mun != mfinal:
                    ctx.violation("conflict-free base grammar but the unresolved cells of the decorated grammar "
                                  "have conflicts / differ (model)", dict(rep, unresolved=mun), no_input=True,
                                  key="noop-model")
            continue
    # operator cells of the impl tables vs dec_of
    for r in res_op:
        if r["gerr"]:
            continue
        case = r["case"]
        dm = decs[id(r)]
        alts = case["alts"]
        prod_op = {i + 1: a[1] for i, a in enumerate(alts) if a[0] == "op"}
        for v in r["variants"]:
            if v["outcome"] != "ok" or v["states"] is None:
                continue
            tname = "LALR" if v["tables"] == 1 else "SLR"
            for si, sd in enumerate(v["states"]):
                ends = [it[0] for it in sd["items"] if it[0] in prod_op and it[1] == 3]
                if len(ends) != 1:
                    continue
                p = ends[0]
                o1 = prod_op[p]
                for it in sd["items"]:
                    if it[0] in prod_op and it[1] == 1:
                        o2 = prod_op[it[0]]
                        t2 = r["op_term"][o2]
                        cell = _final_canon(sd["final"]).get(t2)
                        d = dm[o1][o2]
                        st["operator_cells_checked"] += 1
                        okc = (d == 1 and cell == [[1, p]]) or \
                              (d == 0 and cell is not None and len(cell) == 1 and cell[0][0] == 0)
                        st["decisions"]["reduce" if d == 1 else "shift"] += 1
                        if not okc:
                            ctx.violation(
                                "state after 'E %s E' on lookahead %r: cell %r, conventional decision is %s"
                                % (case["ops"][o1][0], case["ops"][o2][0], cell,
                                   {0: "SHIFT", 1: "REDUCE", 2: "CONFLICT"}[d]),
                                {"grammar": case["text"], "operators": case["ops"], "tables": tname,
                                 "state": si, "input": "1 %s 2 %s 3" % (case["ops"][o1][0], case["ops"][o2][0])},
                                key="cell-decision")
    # results vs climb
    pcases = []
    pmeta = []
    for r in res_op:
        if r["gerr"]:
            continue
        case = r["case"]
        opsx = [[p, a] for _, p, a in case["ops"]]
        for v in r["variants"]:
            if v["outcome"] != "ok":
                continue
            tname = "LALR" if v["tables"] == 1 else "SLR"
            for (toks, kind, w), res in zip(case["inputs"], v["results"]):
                cl = climbs[(id(r), tuple(toks))]
                st["expressions"] += 1
                st["by_kind"][kind] = st["by_kind"].get(kind, 0) + 1
                rep = {"grammar": case["text"], "operators": case["ops"], "tables": tname, "input": w,
                       "tokens": toks}
                if cl == []:
                    st["ill_formed"] += 1
                    exp = "SyntaxError"
                else:
                    st["well_formed"] += 1
                    exp = cl[0]
                    distinct.add((case["text"], w))
                if kind != "corrupted" and cl == []:
                    ctx.violation("climb (fuel 3n+10) fails on a generated well-formed expression",
                                  rep, no_input=True, key="climb-fuel")
                    continue
                st["lr_compared"] += 1
                for which in ("lr", "lr_list"):
                    if res[which] != exp:
                        ctx.violation("Parser.parse (%s, %s) differs from the precedence-climbing tree"
                                      % (tname, "build_tree" if which == "lr" else "default actions"),
                                      dict(rep, expected=exp, got=res[which]), key="lr-" + which)
                st["glr_compared"] += 1
                if exp == "SyntaxError":
                    if res["glr"] != "SyntaxError":
                        ctx.violation("GLRParser accepts an ill-formed expression",
                                      dict(rep, got=res["glr"]), key="glr-accept")
                else:
                    if res["glr"] != exp or res.get("glr_len") != 1 or res.get("glr_amb") != 0 or \
                            res.get("glr_list") != exp:
                        ctx.violation("GLRParser (%s): len=%r ambiguities=%r, tree/call_actions differ from the "
                                      "precedence-climbing tree" % (tname, res.get("glr_len"), res.get("glr_amb")),
                                      dict(rep, expected=exp, got=res["glr"], got_actions=res.get("glr_list")),
                                      key="glr-tree")
                    if isinstance(res["lr"], (list, int)) and res["lr"] != "SyntaxError" and v["tables"] == 1:
                        pcases.append((64, [opsx, res["lr"]]))
                        pmeta.append(rep)
                    if len(samples) < 3 and kind == "random" and len(toks) >= 9:
                        samples.append(dict(rep, tree=exp))
    pouts = common.model_run(pcases)
    st["prec_ok_checked"] = len(pcases)
    for rep, o in zip(pmeta, pouts):
        if o != 1:
            ctx.violation("Parser tree violates 'higher priority binds tighter / equal priority groups as declared'"
                          " (prec_ok)", rep, key="prec-ok")
    cov = {
        "evaluations": st["lr_compared"] + st["glr_compared"] + st["states_compared"] + st["noop_states_compared"]
        + st["rand_states_compared"],
        "distinct_nontrivial": len(distinct),
        "rule": "seeded operator tables: 1..6 operators (pool of 12 symbols incl. multi-character), 1..6 priority levels "
                "mapped to random priorities 0..24 (crossing DEFAULT_PRIORITY), left/right per level, shuffled "
                "alternatives incl. the parenthesis and operand alternatives, production- or rule-level meta-data, "
                "left/reduce and right/shift spellings, regex or string operand; first 36 tables enumerate "
                "(n_ops, n_levels); LALR and SLR; LR with build_tree, LR default actions, GLR. Inputs: all "
                "parenthesis-free expressions up to 2-4 operators (sampled above a budget), random expressions with "
                "parentheses up to 14 operators, one long expression, corrupted token sequences; random layout. "
                "no-op stream: stratified/curated/random grammars that are conflict-free without meta-data, each with 4 "
                "random decorations. resolution stream: random grammars with random meta-data (priorities, left/right, nops, nopse, "
                "rule level) under random prefer_shifts/prefer_shifts_over_empty, LALR or SLR, conflicts allowed -- only the "
                "reduce phase (S/R and R/R resolution) is compared with the model. non-trivial = distinct (grammar, well-formed expression)",
        "samples": samples,
        "traces_validated_against_impl": st["states_compared"] + st["noop_states_compared"]
        + st["rand_states_compared"],
        "distribution": st,
        "crosscheck_vm_compute_cases": nx,
        "exhaustive": False,
    }
    return cov


def replay(ctx, rep):
    import parglare
    from parglare import GLRParser, Grammar, Parser
    from parglare.tables import LALR, SLR
    from lib import impl
    g = Grammar.from_string(rep["grammar"])
    tk = SLR if rep.get("tables") == "SLR" else LALR
    try:
        with impl.quiet():
            p = Parser(g, prefer_shifts=False, prefer_shifts_over_empty=False, tables=tk)
            gl = GLRParser(g, prefer_shifts=False, prefer_shifts_over_empty=False, tables=tk)
    except BaseException as e:  # noqa
        print("construction:", impl.exc_kind(e))
        return 1
    if "input" in rep:
        for name, f in (("LR", p.parse), ("GLR", lambda w: gl.call_actions(gl.parse(w)[0]))):
            try:
                print(name, f(rep["input"]))
            except parglare.SyntaxError as e:
                print(name, "SyntaxError", e.location.start_position)
    print("expected", rep.get("expected"))
    return 0
