"""Correspondence between the extracted GLR driver model (coq/theories/Model/GLR.v, command
210) and the implementation's GLRParser.parse: same grammar, table, match matrix, input and
options on both sides; accept/reject and the whole forest graph (every Parent reachable
from the root, alternatives in order, spans, children) are compared.

Called from props/c02.py (consume_input on) and props/c17.py (consume_input off)."""
import multiprocessing as mp
import time

from . import common, glrcases, gramgen, refparse

FUEL_QUICK = 60000
FUEL_THOROUGH = 400000
WS = glrcases.WS
KEY = "glr_model_correspondence"

LAYOUT_GRAMMARS = [
    ("lay_comment", "S: S 'a' | 'a';\nLAYOUT: LayoutItem | LAYOUT LayoutItem | EMPTY;\n"
                    "LayoutItem: WS | Comment;\nterminals\nWS: /\\s+/;\nComment: /#[^\\n]*/;",
     ["a a", "a #x\na", " a", "a#", "#\n", "", "aa a ", "a # a", "a\n#b\n a#c"]),
    ("lay_amb", "S: A S | A; A: 'a' | 'a' 'a';\nLAYOUT: L | EMPTY; L: L W | W;\nterminals\nW: /[ _]/;",
     ["a_a", "aa a", "a__a_", "_a", "aaa", "a a a", ""]),
]


# grammars on which the iteration order of the revisit set (a CPython set of state ids) changes
# the forest: found by running the impl with the native, ascending and descending order
ORDER_SENSITIVE = [
    ("ord1", "S: EMPTY | 'a' S | B S;\nA: EMPTY | 'a' B | 'a' 'a';\nB: EMPTY | 'b' | S A;", "ab", 3),
    ("ord2", "S: A B | A;\nA: 'b' 'b' | EMPTY;\nB: S | 'a' | S S;", "ab", 3),
    ("ord3", "S: B A | S S;\nA: EMPTY | 'b' 'b' 'b' | A S;\nB: 'a' 'a' 'b' | A 'b' S | EMPTY;", "ab", 3),
    ("ord4", "S: 'b' 'b' | 'b' | A;\nA: S A S | A A | EMPTY;", "b", 4),
]


# ----------------------------------------------------------------------------- impl side
def graph_of(forest, gi, cap):
    """all Parent objects reachable from the root: (root index, nodes); None when > cap"""
    root = forest.result
    ids = {id(root): 0}
    order = [root]
    i = 0
    while i < len(order):
        par = order[i]
        i += 1
        for poss in par.possibilities:
            if poss.is_nonterm():
                for ch in poss.children:
                    if id(ch) not in ids:
                        ids[id(ch)] = len(order)
                        order.append(ch)
                        if len(order) > cap:
                            return None
    nodes = []
    for par in order:
        alts = []
        for poss in par.possibilities:
            if poss.is_term():
                alts.append([0, gi.term_index(poss.symbol), poss.start_position, poss.end_position])
            else:
                alts.append([1, poss.production.prod_id, poss.start_position, poss.end_position,
                             [ids[id(c)] for c in poss.children]])
        nodes.append(alts)
    return [0, nodes]


def worker(job):
    """job = (gname, gtext, inputs, opts); opts: tables, consume_input, lexdis (None/bool),
    ws (None = default), position"""
    gname, gtext, inputs, opts = job
    import parglare
    from parglare import GLRParser, Grammar
    from . import impl
    out = {"gname": gname, "gtext": gtext, "opts": opts, "cases": [], "gerr": None}
    try:
        with impl.time_limit(20):
            g = Grammar.from_string(gtext)
            kw = {"tables": opts.get("tables", 1), "consume_input": opts.get("consume_input", True)}
            if opts.get("lexdis") is not None:
                kw["lexical_disambiguation"] = opts["lexdis"]
            if "ws" in opts:
                kw["ws"] = opts["ws"]
            with impl.quiet():
                p = GLRParser(g, **kw)
    except BaseException as e:  # noqa
        out["gerr"] = impl.exc_kind(e)
        return out
    gi = impl.GInfo(g)
    out["grammar"] = impl.model_grammar(gi)
    out["terms"] = impl.dump_terms(gi)
    out["stop"] = impl.stop_id(gi)
    if not impl.state_ids_ok(p.table):
        # state ids that are not positions in table.states: the GLR driver keys its stack by
        # state_id, the model by position (uniqueness of the ids is C05's subject)
        out["gerr"] = "table-not-positional"
        return out
    out["table"] = impl.dump_table(p.table, gi)
    out["lexdis"] = bool(p.lexical_disambiguation)
    out["ws"] = [ord(ch) for ch in (p.ws or "")]
    out["layout"] = []
    if p.layout_parser is not None:
        lgi = impl.GInfo(g)
        out["layout"] = [impl.dump_table(p.layout_parser.table, lgi)]
    out["nullable"] = any(len(pr[1]) == 0 for pr in out["grammar"][1:])
    out["plain"] = all(pr.prior == 10 and pr.assoc == 0 for pr in g.productions) and \
        all(t.prior == 10 for t in gi.terms)
    n_to = 0
    for w in inputs:
        c = {"input": w, "rx": impl.rx_matrix(gi, w), "chars": impl.chars(w)}
        if n_to >= 2:
            c["status"] = "skipped-after-timeouts"
            out["cases"].append(c)
            continue
        try:
            with impl.time_limit(opts.get("limit", 6)):
                forest = p.parse(w, position=opts.get("position", 0))
            c["status"] = "forest"
        except parglare.SyntaxError as e:
            c["status"] = "SyntaxError"
            out["cases"].append(c)
            continue
        except BaseException as e:  # noqa
            c["status"] = "exc:" + impl.exc_kind(e)
            if c["status"] == "exc:Timeout":
                n_to += 1
            out["cases"].append(c)
            continue
        try:
            with impl.time_limit(20):
                c["graph"] = graph_of(forest, gi, opts.get("cap", 3000))
                if c["graph"] is None:
                    c["status"] = "toolarge"
                else:
                    try:
                        c["solutions"] = forest.solutions
                        c["ambiguities"] = forest.ambiguities
                        c["cyclic"] = False
                    except parglare.exceptions.LoopError:
                        c["cyclic"] = True
        except BaseException as e:  # noqa
            c["status"] = "exc-post:" + impl.exc_kind(e)
        out["cases"].append(c)
    return out


# ----------------------------------------------------------------------------- comparison
def model_case(r, c, fuel):
    pconf = [r["grammar"], r["table"], r["terms"], r["stop"],
             1 if r["opts"].get("consume_input", True) else 0, 1 if r["lexdis"] else 0,
             r["ws"], r["layout"]]
    return (210, [pconf, [c["chars"], c["rx"]], fuel, r["opts"].get("position", 0)])


def iso(impl_graph, model_out):
    """None if the two rooted ordered graphs are isomorphic, else a description.
    impl_graph = [root, nodes]; model_out = [0, root, nodes]"""
    ir, inodes = impl_graph
    mr, mnodes = model_out[1], model_out[2]
    fwd, bwd = {ir: mr}, {mr: ir}
    work = [(ir, mr)]
    while work:
        a, b = work.pop()
        if b >= len(mnodes):
            return "model child index out of range"
        ia, mb = inodes[a], mnodes[b]
        if len(ia) != len(mb):
            return "packed node with %d alternatives in the impl, %d in the model" % (len(ia), len(mb))
        for x, y in zip(ia, mb):
            if x[:4] != y[:4]:
                return "alternative differs: impl %r model %r" % (x[:4], y[:4])
            if x[0] == 1:
                if len(x[4]) != len(y[4]):
                    return "children count differs"
                for cx, cy in zip(x[4], y[4]):
                    if cx in fwd or cy in bwd:
                        if fwd.get(cx) != cy or bwd.get(cy) != cx:
                            return "sharing differs (child maps inconsistently)"
                    else:
                        fwd[cx] = cy
                        bwd[cy] = cx
                        work.append((cx, cy))
    return None


def topo(root, nodes):
    """post-order renumbering of the part reachable from root (None if cyclic)"""
    ids, out, state = {}, [], {}
    stack = [(root, 0)]
    while stack:
        k, ph = stack.pop()
        if ph == 0:
            if state.get(k) == 2:
                continue
            if state.get(k) == 1:
                return None
            state[k] = 1
            stack.append((k, 1))
            for a in nodes[k]:
                if a[0] == 1:
                    for ch in a[4]:
                        if state.get(ch) == 1:
                            return None
                        if state.get(ch) is None:
                            stack.append((ch, 0))
        else:
            if state.get(k) == 2:
                continue
            ids[k] = len(out)
            out.append(k)
            state[k] = 2
    return [[a[:4] + ([[ids[ch] for ch in a[4]]] if a[0] == 1 else []) for a in nodes[k]] for k in out]


MODEL_STATUS = {1: "reject", 2: "out-of-fuel", 3: "crash", 4: "layout-error"}


def compare(r, c, mo):
    """-> (kind, detail); kind in agree | skip-* | DISAGREE"""
    st = c["status"]
    if st in ("skipped-after-timeouts", "toolarge") or st.startswith("exc-post"):
        return "skip-" + st, None
    if st == "exc:Timeout":
        return ("agree-timeout" if mo[0] == 2 else "skip-impl-timeout"), None
    if mo[0] == 2:
        return "skip-model-out-of-fuel", None
    if st == "SyntaxError":
        if mo[0] == 1:
            return "agree", None
        if mo[0] == 4:
            return "agree", None       # the layout sub-parser's SyntaxError
        return "DISAGREE", "impl rejects, model: %s" % (MODEL_STATUS.get(mo[0], "forest"))
    if st.startswith("exc:"):
        return "DISAGREE", "impl raised %s, model: %s" % (st, MODEL_STATUS.get(mo[0], "forest"))
    if mo[0] != 0:
        return "DISAGREE", "impl returns a forest, model: %s %r" % (MODEL_STATUS.get(mo[0]), mo[1:])
    d = iso(c["graph"], mo)
    if d is not None:
        return "DISAGREE", d
    return "agree", None


def property_failure(r, c):
    """Does the impl's own behaviour on this case violate the text of C01/C02/C03/C17
    (decided with the untrusted reference enumerator; only used to choose how a
    model/impl disagreement is reported)?  Returns a description or None."""
    w = c["input"]
    consume = r["opts"].get("consume_input", True)
    if not r.get("plain") or r["lexdis"] or r["layout"] or r["opts"].get("position"):
        return None
    sk = glrcases.sk_ws(w, "".join(map(chr, r["ws"])))
    try:
        ref = refparse.Ref(r["grammar"], None, c["rx"], sk, len(w))
        if c["status"] == "SyntaxError":
            ok = ref.is_sentence() if consume else bool(ref.sentence_ends())
            return "raises SyntaxError although %s is a sentence" % ("the input" if consume else "a prefix") \
                if ok else None
        if c["status"] != "forest" or c.get("cyclic", True):
            return None
        tp = topo(*c["graph"])
        if tp is None:
            return None
        trees = common.model_run([(7, [tp, 2000])])[0]
        if trees[0] != 1:
            return None
        if consume:
            want = ref.sentence_trees(limit=500)
        else:
            want = [t for q, ts in sorted(ref.prefix_trees(limit=500).items()) for t in ts]
    except refparse.TooMany:
        return None
    have = [refparse.shape_of_sx(t) for t in trees[1]]
    hs, ws_ = set(have), set(want)
    miss = [t for t in want if t not in hs]
    extra = [t for t in have if t not in ws_]
    if miss:
        return "returns a forest that lacks %d derivation(s) of the input" % len(miss)
    if extra:
        return "returns a forest with a tree that is not a derivation of the input"
    if len(have) != len(hs):
        return "returns a forest in which a derivation appears more than once"
    return None


def baseline_same(r, c):
    """the frozen baseline implementation behaves identically on this case (None: unknown)"""
    job = (r["gname"], r["gtext"], [c["input"]], r["opts"])
    res = common.baseline_run("lib.glrcorr", "worker", [job], timeout=120)
    if res is None or res[0]["gerr"] or not res[0]["cases"]:
        return None
    b = res[0]["cases"][0]
    return b["status"] == c["status"] and b.get("graph") == c.get("graph")


def gen_jobs(rng, quick, consume):
    lim = 3 if quick else 4
    o1 = {"tables": 1, "consume_input": consume, "limit": lim}
    o0 = {"tables": 0, "consume_input": consume, "limit": lim}
    ol = {"tables": 1, "consume_input": consume, "lexdis": True, "limit": lim}
    opts = [o1, o0]
    jobs = glrcases.gen_jobs(rng, True, opts, nrand=(30 if quick else (300 if consume else 100)),
                             maxlen=(4 if quick else 6), layout_variants=True)
    if quick:
        # keep the quick tier small: sample the inputs of every job
        small = []
        for (n, t, inputs, o) in jobs:
            inputs = list(inputs)
            if len(inputs) > 9:
                keep = inputs[:3]
                rest = inputs[3:]
                rng.shuffle(rest)
                inputs = keep + rest[:6]
            small.append((n, t, inputs, o))
        jobs = small
    for name, text, alpha in glrcases.LEXICAL:
        jobs.append((name + "_ld", text, list(gramgen.all_strings(list(alpha), 4 if quick else 5)), ol))
    for name, text, inputs in LAYOUT_GRAMMARS:
        for o in (o1, ol):
            jobs.append((name, text, inputs, o))
    for name, text, alpha, ml in ORDER_SENSITIVE:
        inputs = list(gramgen.all_strings(list(alpha), ml if quick else ml + 2))
        for o in (o1, o0):
            jobs.append((name, text, inputs, o))
    # no ws at all, and a start position
    jobs.append(("ss_nows", "S: S S | 'a';", ["aaa", "a a", " aa"], dict(o1, ws="")))
    jobs.append(("ss_pos", "S: S S | 'a';", ["baaa", "b a a"], dict(o1, position=1)))
    return jobs


def pyset_selftest(rng, n):
    """the model of CPython's set iteration order against the running interpreter"""
    cases, want = [], []
    for _ in range(n):
        k = rng.choice([0, 1, 2, 3, 4, 5, 6, 8, 10, 15, 22, 30, 45])
        hi = rng.choice([8, 16, 40, 100, 300])
        keys = list(dict.fromkeys(rng.randrange(hi) for _ in range(k)))
        trav = set(rng.sample(keys, rng.randint(0, len(keys)))) if keys else set()
        other = [rng.choice(keys) if keys and rng.random() < 0.8 else rng.randrange(hi)
                 for _ in range(rng.choice([0, 0, 1, 2, 5, 12]))]
        d = dict.fromkeys(keys)
        want.append(list(trav.intersection(d.keys()) - set(o for o in other)))
        cases.append((211, [[x for x in keys if x in trav], other]))
    outs = common.model_run(cases)
    bad = [(c[1], w, o) for c, w, o in zip(cases, want, outs) if w != o]
    return len(cases), bad


def _batch(ctx, consume, quick, results, st, xsample_c, xsample_o):
    """model runs and comparison for the impl results of one batch of jobs"""
    fuel = FUEL_QUICK if quick else FUEL_THOROUGH
    mcases, meta = [], []
    gerrs = st["grammars_not_built"]
    for r in results:
        if r["gerr"]:
            gerrs[r["gerr"]] = gerrs.get(r["gerr"], 0) + 1
            continue
        for c in r["cases"]:
            if c["status"] in ("skipped-after-timeouts",):
                continue
            mcases.append(model_case(r, c, fuel))
            meta.append((r, c))
    t1 = time.time()
    outs = common.model_run(mcases)
    st["timing_s"]["model"] += time.time() - t1
    for mc, mo in zip(mcases, outs):
        if len(xsample_c) < 400 and len(common.sx_dump(mc[1])) < 6000:
            xsample_c.append(mc)
            xsample_o.append(mo)
    stat_cases, stat_meta = [], []
    for (r, c), mo in zip(meta, outs):
        kind, detail = compare(r, c, mo)
        if kind.startswith("skip"):
            st["skipped"][kind] = st["skipped"].get(kind, 0) + 1
            continue
        st["glr_model_cases"] += 1
        if r["nullable"]:
            st["nullable_grammar_cases"] += 1
        if kind == "DISAGREE":
            st["glr_model_disagree"] += 1
            rep = {"grammar": r["gtext"], "options": r["opts"], "input": c["input"]}
            pf = None
            if st["glr_model_disagree"] <= 25:
                try:
                    pf = property_failure(r, c)
                    if pf is not None and baseline_same(r, c) is True:
                        pf = None       # the pristine behaviour: the model should have reproduced it
                except Exception:       # noqa
                    pf = None
            if pf is not None:
                st["impl_property_failures"] = st.get("impl_property_failures", 0) + 1
                ctx.violation("GLRParser.parse %s (the GLR driver model, like the baseline, behaves differently)"
                              % pf, rep, key="glr-model-property")
                continue
            ctx.violation("%s: GLR driver model and GLRParser.parse disagree: %s" % (KEY, detail),
                          {"correspondence": KEY, "grammar": r["gtext"], "options": r["opts"],
                           "input": c["input"], "impl": c["status"], "detail": detail},
                          no_input=True, key=KEY)
            continue
        st["glr_model_agree"] += 1
        if c["status"] == "forest" and mo[0] == 0:
            st["forests"] += 1
            n = len(c["graph"][1])
            b = "1-5" if n <= 5 else "6-20" if n <= 20 else "21-100" if n <= 100 else ">100"
            st["forest_sizes"][b] += 1
            if c.get("cyclic"):
                st["cyclic_forests"] += 1
            # lexical ambiguity: some position carries two different terminals in the forest
            spans = {}
            for alts in mo[2]:
                for a in alts:
                    if a[0] == 0:
                        spans.setdefault(a[2], set()).add((a[1], a[3]))
            if any(len(v) > 1 for v in spans.values()):
                st["lexical_ambiguity_cases"] += 1
            if not c.get("cyclic") and "solutions" in c and len(mo[2]) <= 400:
                tp = topo(mo[1], mo[2])
                if tp is not None:
                    stat_cases.append((1, tp))
                    stat_meta.append((r, c))
        else:
            st["rejects"] += 1
    # hypotheses of the model theorems on the tables used: table_struct (soundness) and
    # table_progress (no-crash), evaluated once per built table
    hcases, hmeta = [], []
    for r in results:
        if r["gerr"]:
            continue
        start = r["grammar"][0][1][0][1]
        hcases.append((3, [r["grammar"], r["table"], start]))
        hcases.append((12, [r["grammar"], r["table"], r["stop"]]))
    houts = common.model_run(hcases)
    st["tables"] += len(hcases) // 2
    st["tables_table_struct_ok"] += sum(1 for o in houts[0::2] if o == 1)
    st["tables_table_progress_ok"] += sum(1 for o in houts[1::2] if o == 1)
    st["model_crash_results"] += sum(1 for mo in outs if mo[0] == 3)
    # the tokenisation theorems (C01_glr_model_valid_full / C17_glr_model_prefix_valid): their
    # boolean conditions are evaluated on every case (command 212 with consume_input on, 213 with
    # it off); where they hold and the model returns a forest, the verified validator forest_ok
    # must accept that forest (an instance of the theorem, re-checked)
    if True:
        tcases = [(212 if consume else 213, [mc[1][0], mc[1][1]]) for mc in mcases]
        touts = common.model_run(tcases)
        st["tok_theorem_applicable"] += sum(1 for o in touts if o == 1)
        vcases, vmeta = [], []
        wsl = None
        for (r, c), mo, to in zip(meta, outs, touts):
            if to == 1 and mo[0] == 0 and len(mo[2]) <= 400 and not r["opts"].get("position"):
                tp = topo(mo[1], mo[2])
                if tp is not None:
                    start = r["grammar"][0][1][0][1]
                    vcases.append((6, [r["grammar"], tp, c["chars"], c["rx"], r["ws"], start, 0,
                                       1 if consume else 0, 0]))
                    vmeta.append((r, c))
        st["tok_theorem_instances_checked"] += len(vcases)
        for (r, c), vo in zip(vmeta, common.model_run(vcases)):
            if vo != 1:
                ctx.violation("%s: forest_ok rejects a model forest although the conditions of "
                              "the tokenisation theorem hold" % KEY,
                              {"correspondence": KEY, "grammar": r["gtext"], "options": r["opts"],
                               "input": c["input"]}, no_input=True, key=KEY + "-tok")
    # len(forest) and ambiguities of the model's forest through the forest model (C03)
    souts = common.model_run(stat_cases)
    for (r, c), so in zip(stat_meta, souts):
        st["solutions_checked"] += 1
        if so[1] != c["solutions"] or so[2] != c["ambiguities"]:
            ctx.violation("%s: solutions/ambiguities of the model's forest (%d/%d) differ from the impl's (%d/%d)"
                          % (KEY, so[1], so[2], c["solutions"], c["ambiguities"]),
                          {"correspondence": KEY, "grammar": r["gtext"], "options": r["opts"],
                           "input": c["input"]}, no_input=True, key=KEY + "-count")


def run(ctx, consume):
    """Runs the correspondence.  A disagreement is reported as a violation of the correspondence
    glr_model_correspondence (no failing input) -- unless the impl's behaviour on that very case violates the
    property text (decided by the reference enumerator) and is not the frozen baseline's
    behaviour: then it is reported as a property violation with the input.
    The jobs are processed in batches to bound memory.  Returns the coverage sub-dict."""
    quick = ctx.quick()
    rng = ctx.rng
    t0 = time.time()
    jobs = gen_jobs(rng, quick, consume)
    t_gen = time.time() - t0
    st = {"glr_model_cases": 0, "glr_model_agree": 0, "glr_model_disagree": 0, "skipped": {},
          "forests": 0, "rejects": 0, "lexical_ambiguity_cases": 0, "nullable_grammar_cases": 0,
          "cyclic_forests": 0, "forest_sizes": {"1-5": 0, "6-20": 0, "21-100": 0, ">100": 0},
          "grammars": len(jobs), "grammars_not_built": {},
          "solutions_checked": 0, "tables": 0, "tables_table_struct_ok": 0, "tables_table_progress_ok": 0,
          "model_crash_results": 0, "timing_s": {"impl": 0.0, "model": 0.0}}
    st["tok_theorem_applicable"] = 0
    st["tok_theorem_instances_checked"] = 0
    xsample_c, xsample_o = [], []
    B = 90
    with mp.Pool(common.NPROC) as pool:
        for b0 in range(0, len(jobs), B):
            t1 = time.time()
            results = pool.map(worker, jobs[b0:b0 + B], chunksize=1)
            st["timing_s"]["impl"] += time.time() - t1
            t2 = time.time()
            _batch(ctx, consume, quick, results, st, xsample_c, xsample_o)
            st["timing_s"]["batch"] = round(st["timing_s"].get("batch", 0.0) + time.time() - t2, 1)
            del results
    st["timing_s"]["impl"] = round(st["timing_s"]["impl"], 1)
    st["timing_s"]["model"] = round(st["timing_s"]["model"], 1)
    mcases, outs = xsample_c, xsample_o
    # cross-check a sample of the extracted model's outputs inside Coq
    st["timing_s"]["gen_jobs"] = round(t_gen, 1)
    t3 = time.time()
    nx, xok, xlog = common.coq_crosscheck(ctx.pid + "glr", mcases, outs, rng, sample=12 if quick else 40)
    st["timing_s"]["crosscheck"] = round(time.time() - t3, 1)
    if not xok:
        ctx.violation("extraction cross-check of the GLR model failed", {"log": xlog}, no_input=True,
                      key="glr-xcheck")
    st["crosscheck_vm_compute_cases"] = nx
    np_, bad = pyset_selftest(rng, 300 if quick else 5000)
    st["pyset_order_cases"] = np_
    if bad:
        ctx.violation("%s: model of CPython's set iteration order differs from the interpreter" % KEY,
                      {"correspondence": KEY, "case": bad[0]}, no_input=True, key="pyset")
    st["timing_s"]["total"] = round(time.time() - t0, 1)
    return st
