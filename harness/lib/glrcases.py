"""Shared GLR case generation and impl worker (C01, C02, C08, C17)."""
from . import gramgen

WS = "\n\r\t "

LEXICAL = [
    ("lex_phrase", "S: X S | X; X: PHRASE | WORD;\nterminals\nPHRASE: /[a-z]+([ ][a-z]+)*/;\nWORD: /[a-z]+/ {prefer};", "a "),
    ("lex_overlap", "S: X S | X; X: 'a' | 'ab' | 'b';", "ab"),
    ("lex_regex", "S: A B; A: AS; B: BS | EMPTY;\nterminals\nAS: /a+/;\nBS: /a*b/;", "ab"),
    ("lex_kw", "S: I S | I; I: ID | 'if';\nterminals\nID: /[a-z]+/;", "if "),
    ("lex_num", "S: E; E: E '+' E | N;\nterminals\nN: /[0-9]+(\\.[0-9]+)?/;", "1.+"),
]


# terminals with different priorities that never match at the same position: the priorities
# must not matter (they order the scan and may cut it short, nothing else)
PRIO_DISJOINT = [
    ("prio_ab", "S: X S | X; X: A | B;\nterminals\nA: 'a' {15};\nB: 'b' {5};", "ab"),
    ("prio_num", "S: N S | N; N: NUM | 'a' | W;\nterminals\nNUM: /[0-9]+/ {5};\nW: /[x-z]+/ {12};", "a1x"),
    ("prio_list", "S: S 'a' | S B | 'a';\nterminals\nB: 'b' {3};", "ab"),
]


def sk_ws(w, ws=WS):
    def sk(p):
        while p < len(w) and w[p] in ws:
            p += 1
        return p
    return sk


def worker(job):
    """job = (gname, gtext, inputs, opts) with opts = dict(tables=0|1, consume_input=bool,
    lexdis=None|bool).  Returns forests dumped in the model's format."""
    gname, gtext, inputs, opts = job
    import parglare
    from parglare import GLRParser, Grammar
    from . import impl
    out = {"gname": gname, "gtext": gtext, "opts": opts, "cases": [], "gerr": None}
    try:
        with impl.time_limit(20):
            g = Grammar.from_string(gtext)
            kw = {"tables": opts.get("tables", 1), "consume_input": opts.get("consume_input", True)}
            if opts.get("lexdis") is not None:
                kw["lexical_disambiguation"] = opts["lexdis"]
            if sum(map(ord, gname)) % 2 == 0:
                # GLRParser's default, spelled out (half of the grammars): giving one of the two
                # strategy options explicitly must not change the other's default
                kw["prefer_shifts"] = False
                out["explicit_prefer_shifts_false"] = True
            with impl.quiet():
                p = GLRParser(g, **kw)
    except BaseException as e:  # noqa
        out["gerr"] = impl.exc_kind(e)
        return out
    gi = impl.GInfo(g)
    out["grammar"] = impl.model_grammar(gi)
    out["stop"] = impl.stop_id(gi)
    out["table"] = impl.dump_table(p.table, gi)
    out["plain"] = all(pr.prior == 10 and pr.assoc == 0 for pr in g.productions) and \
        (all(t.prior == 10 for t in gi.terms) or bool(opts.get("disjoint_prio")))
    for w in inputs:
        c = {"input": w, "rx": impl.rx_matrix(gi, w)}
        try:
            with impl.time_limit(6):
                forest = p.parse(w)
            c["status"] = "forest"
        except parglare.SyntaxError as e:
            c["status"] = "SyntaxError"
            c["pos"] = e.location.start_position
            out["cases"].append(c)
            continue
        except BaseException as e:  # noqa
            c["status"] = "exc:" + impl.exc_kind(e)
            out["cases"].append(c)
            continue
        try:
            with impl.time_limit(20):
                try:
                    c["nodes"] = impl.dump_forest(forest, gi)
                    c["cyclic"] = False
                    if len(c["nodes"]) > 2500:
                        c["status"] = "toolarge"
                        c["nodes"] = None
                except impl.Cyclic:
                    c["cyclic"] = True
                    c["nodes"] = None
                    g_nodes = impl.dump_forest_graph(forest, gi)
                    if len(g_nodes) <= 1500:
                        c["graph_nodes"] = g_nodes
                if not c.get("cyclic"):
                    c["solutions"] = forest.solutions
                    if opts.get("chart") and c.get("nodes") is not None and len(c["nodes"]) <= 1200:
                        from . import chart
                        c["chart"] = chart.closed_chart(out["grammar"], c["rx"], sk_ws(w))
        except BaseException as e:  # noqa
            c["status"] = "exc-post:" + impl.exc_kind(e)
        out["cases"].append(c)
    return out


def _has_split(text):
    """does the impl's LALR construction keep two states with equal kernels apart (a refused
    merge)?  Such tables are where state identity matters: GLR keys its stack by state_id."""
    import os
    from parglare import Grammar
    from parglare.tables import create_table
    from . import impl
    os.environ["PARGLARE_VERIF_MAX_STATES"] = "150"
    try:
        with impl.time_limit(5), impl.quiet():
            g = Grammar.from_string(text)
            tab = create_table(g)
    except BaseException:  # noqa
        return False
    finally:
        os.environ.pop("PARGLARE_VERIF_MAX_STATES", None)
    seen = set()
    for st in tab.states:
        k = frozenset((it.production.prod_id, it.position) for it in st.kernel_items)
        if k in seen:
            return True
        seen.add(k)
    return False


def split_state_grammars(rng, tries, want):
    """random small grammars whose LALR table contains split (same-kernel) states"""
    import multiprocessing as mp
    cands = []
    for _ in range(tries):
        r = gramgen.random_grammar(rng, max_nt=3, max_alts=3, max_rhs=3, p_empty=rng.choice([0.0, 0.0, 0.15]))
        if r is not None:
            cands.append(r)
    with mp.Pool(min(16, mp.cpu_count())) as pool:
        flags = pool.map(_has_split, [t for _, t in cands], chunksize=16)
    out = [c for c, f in zip(cands, flags) if f]
    return out[:want]


def gss_identity_check(max_frontier=40, max_state=60):
    """The GLR driver (and its Gallina model, which identifies a stack node with the pair
    (frontier, state)) relies on GSSNode.id being injective on such pairs: links are keyed by the id
    of their root.  Evaluated on the impl's own GSSNode objects for a grid of pairs; returns the
    colliding pairs (None when GSSNode cannot be constructed this way)."""
    try:
        from parglare.glr import GSSNode

        class _St:
            def __init__(self, i):
                self.state_id = i
                self.symbol = None
        seen = {}
        bad = []
        for f in range(max_frontier + 1):
            for s_ in range(max_state + 1):
                n = GSSNode(None, "", _St(s_), 0, f, None)
                k = n.id
                if k in seen and seen[k] != (f, s_):
                    bad.append([list(seen[k]), [f, s_], repr(k)])
                seen.setdefault(k, (f, s_))
        return bad
    except Exception:  # noqa
        return None


def corpus():
    import json
    import os
    p = os.path.join(os.path.dirname(os.path.dirname(os.path.abspath(__file__))), "corpus", "glr_grammars.json")
    return json.load(open(p))


def gen_jobs(rng, quick, opts_list, with_lexical=True, nrand=None, maxlen=None, layout_variants=True):
    """list of worker jobs: corpus (past findings, run first) + curated + lexical + random
    grammars, each under each opts"""
    jobs = []
    for e in corpus():
        inputs = list(gramgen.all_strings(list(e["alphabet"]), e["maxlen"] if not quick else min(e["maxlen"], 6)))
        if len(e["alphabet"]) == 1:
            inputs = [e["alphabet"] * k for k in range(e["maxlen"] + 1)]
        for o in opts_list:
            jobs.append((e["name"], e["text"], inputs, o))
    maxlen = maxlen or (5 if quick else 6)
    variants = [lambda s: s, lambda s: " " + " ".join(s) + " ", lambda s: "\n".join(s) + "\t"]
    fams = list(gramgen.CURATED)
    for name, text in fams:
        alpha = gramgen.alphabet_of(text)
        ml = maxlen if len(alpha) <= 2 else maxlen - 1
        if len(alpha) >= 4:
            ml = maxlen - 2
        base = list(gramgen.all_strings(alpha, ml))
        cap = 250 if quick else 2500
        if len(base) > cap:
            rng.shuffle(base)
            base = base[:cap]
        inputs = []
        for i, s in enumerate(base):
            if layout_variants and s and i % 4 == 3:
                inputs.append(variants[1 + (i // 4) % 2](s))
            else:
                inputs.append(s)
        for o in opts_list:
            jobs.append((name, text, sorted(set(inputs)), o))
    # long inputs (more than ten frontiers) of small ambiguous grammars: anything that depends on
    # frontier numbers with two digits, or on many frontiers being alive, shows only here
    for name, text, mk in [("long_ss", "S: S S | 'a';", lambda k: "a" * k),
                           ("long_expr", "E: E '+' E | E '*' E | 'n';", lambda k: "n" + "+n*n" * (k // 4)),
                           ("long_lex", "S: A S | A; A: 'a' | 'a' 'a';", lambda k: "a" * k),
                           ("long_null", "S: A S 'b' | EMPTY; A: 'a' | EMPTY;", lambda k: "a" * (k // 2) + "b" * (k // 2))]:
        ins = [mk(k) for k in ((11, 13) if quick else (11, 12, 13, 14, 16))]
        jobs.append((name, text, ins, opts_list[0]))
    if with_lexical:
        for name, text, alpha in PRIO_DISJOINT:
            inputs = list(gramgen.all_strings(list(alpha), 4 if quick else 5))
            for o in opts_list:
                jobs.append((name, text, inputs, dict(o, disjoint_prio=True)))
        for name, text, alpha in LEXICAL:
            inputs = list(gramgen.all_strings(list(alpha), 4 if quick else 5))
            for o in opts_list:
                jobs.append((name, text, inputs, o))
    nrand = nrand if nrand is not None else (120 if quick else 1500)
    for i in range(nrand):
        r = gramgen.random_grammar(rng, max_nt=3, max_alts=3, max_rhs=3,
                                   p_empty=rng.choice([0.0, 0.15, 0.3]))
        if r is None:
            continue
        prods, text = r
        base = list(gramgen.all_strings(["a", "b"], 4 if quick else 5))
        for _ in range(8):
            s = gramgen.random_sentence(rng, prods, max_depth=5, max_len=9)
            if s is not None and s not in base:
                base.append(s)
        inputs = [variants[rng.randrange(3)](s) if (layout_variants and rng.random() < 0.2) else s
                  for s in base]
        o = opts_list[i % len(opts_list)]
        jobs.append(("rand%d" % i, text, sorted(set(inputs)), o))
    nun = (nrand // 2) if nrand else 0
    for i in range(nun):
        r = gramgen.unary_nullable_grammar(rng)
        if r is None:
            continue
        prods, text = r
        inputs = ["b" * k for k in range(0, (6 if quick else 8))]
        o = opts_list[i % len(opts_list)]
        jobs.append(("unary%d" % i, text, inputs, o))
    for i in range(nun):
        r = gramgen.nullable2_grammar(rng)
        if r is None:
            continue
        prods, text = r
        inputs = list(gramgen.all_strings(["a", "b"], 4 if quick else 6))
        if quick:
            longer = [s for s in gramgen.all_strings(["a", "b"], 6) if len(s) > 4]
            rng.shuffle(longer)
            inputs += longer[:40]
        jobs.append(("null2_%d" % i, text, inputs, opts_list[i % len(opts_list)]))
    for i in range(6 if quick else 40):
        prods, text = gramgen.epsilon_chain_grammar(rng)
        ins = []
        for _ in range(14):
            sen = gramgen.random_sentence(rng, prods, max_depth=7, max_len=8)
            if sen is not None:
                ins.append(sen)
        ins = sorted(set(ins)) or ["xyr"]
        jobs.append(("epschain%d" % i, text, ins + [" ".join(x) for x in ins[:4]], opts_list[i % len(opts_list)]))
    if nrand:
        # LALR tables with split same-kernel states (about 1% of the small random grammars)
        for i, (prods, text) in enumerate(split_state_grammars(rng, min(1500, 12 * nrand) if quick else 12000, 12 if quick else 80)):
            inputs = list(gramgen.all_strings(["a", "b"], 6 if quick else 7))
            jobs.append(("split%d" % i, text, inputs, {**opts_list[0], "tables": 1} if "tables" in opts_list[0]
                         else opts_list[0]))
    if with_lexical:
        for i in range(nun // 2):
            r = gramgen.lexlen_grammar(rng)
            if r is None:
                continue
            prods, text = r
            inputs = list(gramgen.all_strings(["a", "b"], 5 if quick else 6))
            jobs.append(("lexlen%d" % i, text, inputs, opts_list[i % len(opts_list)]))
        for i in range(nun // 2):
            r = gramgen.lexamb_grammar(rng)
            if r is None:
                continue
            inputs = list(gramgen.all_strings(["a", "b"], 4 if quick else 5))
            jobs.append(("lexamb%d" % i, r[1], inputs, opts_list[i % len(opts_list)]))
    return jobs
