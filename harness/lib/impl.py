"""Access to the implementation (/repo/parglare): construction under budgets and
dumps of its live objects into the model's case format.  Imported in worker
processes started with PYTHONPATH=/repo."""
import contextlib
import io
import os
import signal
import sys


class Timeout(Exception):
    pass


def _alarm(signum, frame):
    raise Timeout()


@contextlib.contextmanager
def time_limit(seconds):
    """limit on the CPU time of this process (ITIMER_PROF): a loaded machine must not turn a
    short call into a spurious Timeout, a looping impl still burns CPU; a generous wall-clock
    limit (ITIMER_REAL) stays as a backstop against blocking calls"""
    old = signal.signal(signal.SIGALRM, _alarm)
    oldp = signal.signal(signal.SIGPROF, _alarm)
    signal.setitimer(signal.ITIMER_REAL, seconds * 10 + 30)
    signal.setitimer(signal.ITIMER_PROF, seconds)
    try:
        yield
    finally:
        signal.setitimer(signal.ITIMER_PROF, 0)
        signal.setitimer(signal.ITIMER_REAL, 0)
        signal.signal(signal.SIGPROF, oldp)
        signal.signal(signal.SIGALRM, old)


@contextlib.contextmanager
def quiet():
    """Parser() prints the whole table on conflicts; keep stdout clean."""
    old = sys.stdout
    sys.stdout = io.StringIO()
    try:
        yield
    finally:
        sys.stdout = old


def exc_kind(e):
    import parglare
    import parglare.exceptions as pe
    for name in ("SyntaxError", "DisambiguationError", "SRConflicts", "RRConflicts",
                 "GrammarError", "LoopError", "DynamicDisambiguationConflict",
                 "ParserInitError"):
        cls = getattr(pe, name, None)
        if cls is not None and isinstance(e, cls):
            return name
    if isinstance(e, Timeout):
        return "Timeout"
    return type(e).__name__


# ------------------------------------------------------------------ grammar dump
class GInfo:
    """Numbering of the symbols of a live Grammar object."""

    def __init__(self, g):
        self.g = g
        self.terms = list(g.terminals.values())
        self.nonterms = list(g.nonterminals.values())
        self.tid = {id(t): i for i, t in enumerate(self.terms)}
        self.nid = {id(n): i for i, n in enumerate(self.nonterms)}

    def sym(self, s):
        """(0, tid) for terminals, (1, nid) for nonterminals"""
        if id(s) in self.tid:
            return [0, self.tid[id(s)]]
        if id(s) in self.nid:
            return [1, self.nid[id(s)]]
        # symbols are unified by fqn
        for i, t in enumerate(self.terms):
            if t.fqn == s.fqn and type(t) is type(s):
                return [0, i]
        for i, n in enumerate(self.nonterms):
            if n.fqn == s.fqn and type(n) is type(s):
                return [1, i]
        raise KeyError(s)

    def term_index(self, s):
        k, i = self.sym(s)
        assert k == 0
        return i

    def productions(self):
        """[(lhs nid, [sym...] with EMPTY removed)] indexed by prod_id"""
        from parglare.grammar import EMPTY
        out = []
        for p in self.g.productions:
            rhs = [self.sym(s) for s in list.__iter__(p.rhs) if s is not EMPTY]
            out.append([self.sym(p.symbol)[1], rhs])
        return out


# ------------------------------------------------------------------ forest dump
class Cyclic(Exception):
    pass


def dump_forest(forest, gi):
    """Post-order numbering of the Parent objects reachable from the root.
    Returns the list of packed nodes in the model's format; raises Cyclic."""
    root = forest.result
    ids = {}
    nodes = []
    state = {}
    stack = [(root, 0)]
    # iterative DFS: (parent, phase)
    while stack:
        par, phase = stack.pop()
        pid = id(par)
        if phase == 0:
            st = state.get(pid)
            if st == 2:
                continue
            if st == 1:
                raise Cyclic()
            state[pid] = 1
            stack.append((par, 1))
            for poss in par.possibilities:
                if poss.is_nonterm():
                    for ch in poss.children:
                        st2 = state.get(id(ch))
                        if st2 == 1:
                            raise Cyclic()
                        if st2 is None:
                            stack.append((ch, 0))
        else:
            if state.get(pid) == 2:
                continue
            alts = []
            for poss in par.possibilities:
                if poss.is_term():
                    alts.append([0, gi.term_index(poss.symbol), poss.start_position,
                                 poss.end_position])
                else:
                    alts.append([1, poss.production.prod_id, poss.start_position,
                                 poss.end_position, [ids[id(c)] for c in poss.children]])
            ids[pid] = len(nodes)
            nodes.append(alts)
            state[pid] = 2
    return nodes


def tree_sx(t, gi):
    """A parglare.trees.Tree / LazyTree as the model's tree s-expression."""
    # iterative to survive deep trees
    def conv(t):
        if t.root.is_term():
            return [0, gi.term_index(t.root.symbol), t.start_position, t.end_position]
        return [1, t.root.production.prod_id, t.start_position, t.end_position,
                [conv(c) for c in t.children]]
    return conv(t)


def node_sx(n, gi):
    """NodeTerm / NodeNonTerm (LR build_tree, get_first_tree) as tree sx."""
    if n.is_term():
        return [0, gi.term_index(n.symbol), n.start_position, n.end_position]
    return [1, n.production.prod_id, n.start_position, n.end_position,
            [node_sx(c, gi) for c in n.children]]


# ------------------------------------------------------------------ table dump
def model_grammar(gi, start_nt=None):
    """productions in the model's format; production 0 is S' -> start"""
    prods = gi.productions()
    if start_nt is None:
        # productions[0].rhs is [start, STOP] outside create_table
        start_nt = prods[0][1][0][1]
    prods[0] = [prods[0][0], [[1, start_nt]]]
    return prods


def dump_action(a, idx=None):
    from parglare.tables import ACCEPT, REDUCE, SHIFT
    if a.action == SHIFT:
        return [0, _state_index(a.state, idx)]
    if a.action == REDUCE:
        return [1, a.prod.prod_id]
    assert a.action == ACCEPT
    return [2]


def _state_index(st, idx):
    if idx is not None and id(st) in idx:
        return idx[id(st)]
    return st.state_id


def dump_table(table, gi):
    """states are numbered by their position in table.states and targets resolved by object
    identity, so the dump is the automaton the LR driver walks whatever the state_id fields say
    (GLR keys its stack by state_id: uniqueness of the ids is checked by C05)"""
    states = []
    idx = {id(s): i for i, s in enumerate(table.states)}
    for i, s in enumerate(table.states):
        acts = [[gi.term_index(t), [dump_action(a, idx) for a in al]] for t, al in s.actions.items()]
        gotos = [[gi.sym(nt)[1], _state_index(st, idx)] for nt, st in s.gotos.items()]
        flags = [1 if f else 0 for f in getattr(s, "finish_flags", [False] * len(acts))]
        items = [[it.production.prod_id, it.position] for it in (s.items or [])]
        states.append([gi.sym(s.symbol), acts, gotos, flags, items])
    return states


def state_ids_ok(table):
    """every state carries its own distinct id, equal to its position"""
    return [s.state_id for s in table.states] == list(range(len(table.states)))


def dump_terms(gi):
    return [[t.prior, 1 if t.prefer else 0] for t in gi.terms]


def stop_id(gi):
    from parglare.grammar import STOP
    return gi.term_index(STOP)


def rx_matrix(gi, w):
    """terminal x position -> match length (0 = none), using the impl's own
    recognizer objects"""
    from parglare.grammar import EMPTY, STOP
    rows = []
    for t in gi.terms:
        row = []
        if t is STOP or t is EMPTY or t.name in ("STOP", "EMPTY"):
            rows.append([0] * len(w))
            continue
        for p in range(len(w)):
            try:
                r = t.recognizer(w, p)
            except TypeError:
                r = None
            if type(r) is tuple:
                r = r[0]
            row.append(len(r) if r else 0)
        rows.append(row)
    return rows


def chars(w):
    return [ord(c) for c in w] if isinstance(w, str) else [0] * len(w)


def lr_tree_trace(node):
    """leaves with their layout_content, in order: (sym name, start, end, layout)"""
    out = []

    def go(n):
        if n.is_term():
            out.append((n.start_position, n.end_position, n.layout_content))
        else:
            for c in n.children:
                go(c)
    go(node)
    return out


def dump_annotation(table, gi, slr, start_nt=None):
    """LR(1) annotation of the impl's table: per state the items with their lookahead
    sets (LALR: item.follow after construction; SLR: FOLLOW(lhs)), plus the impl's FIRST
    sets and nullability per nonterminal id."""
    from parglare.grammar import EMPTY
    from parglare.tables import first, follow
    g = gi.g
    fs = first(g)
    fol = follow(g, fs) if slr else None
    ann = []
    for s in table.states:
        its = []
        for it in s.items:
            if slr:
                la = fol.get(it.production.symbol, set())
            else:
                la = it.follow
            its.append([it.production.prod_id, it.position,
                        sorted(gi.term_index(t) for t in la if t is not EMPTY)])
        ann.append(its)
    first_tab, nul_tab = [], []
    for nt in gi.nonterms:
        f = fs.get(nt, set())
        first_tab.append(sorted(gi.term_index(t) for t in f if t is not EMPTY))
        nul_tab.append(1 if EMPTY in f else 0)
    # the model grammar's production 0 is S' -> start (without STOP): give the augmented
    # symbol the start symbol's entries (the annotation is only a certificate for the checker)
    aug = gi.sym(g.productions[0].symbol)[1]
    start = start_nt if start_nt is not None else gi.sym(list.__getitem__(g.productions[0].rhs, 0))[1]
    first_tab[aug] = list(first_tab[start])
    nul_tab[aug] = nul_tab[start]
    return ann, first_tab, nul_tab


def dump_forest_graph(forest, gi):
    """Numbering of ALL Parent objects reachable from the root, cycles allowed; the root is
    the last node.  Returns the packed nodes in the model's format."""
    root = forest.result
    order = []
    seen = {id(root)}
    work = [root]
    while work:
        par = work.pop()
        order.append(par)
        for poss in par.possibilities:
            if poss.is_nonterm():
                for ch in poss.children:
                    if id(ch) not in seen:
                        seen.add(id(ch))
                        work.append(ch)
    order.reverse()            # root last
    ids = {id(p): i for i, p in enumerate(order)}
    nodes = []
    for par in order:
        alts = []
        for poss in par.possibilities:
            if poss.is_term():
                alts.append([0, gi.term_index(poss.symbol), poss.start_position, poss.end_position])
            else:
                alts.append([1, poss.production.prod_id, poss.start_position, poss.end_position,
                             [ids[id(c)] for c in poss.children]])
        nodes.append(alts)
    return nodes
