"""Untrusted reference parser used as an oracle.  Every positive claim it makes
(a derivation tree) is certified afterwards by the Coq-verified checker
[tree_ok] (+ the leaf/token check), so a bug here can only lose detection power,
never raise a false alarm.

Positions: a "normalised" position p satisfies p == sk(p) (layout skipped).
d(X, p) = set of normalised end positions q such that X derives the tokens
between p and q."""
import sys


class TooMany(Exception):
    pass


class Ref:
    def __init__(self, prods, nterms, rx, sk, n):
        """prods: [[lhs, [[kind, id]...]]...] indexed by prod_id (0 = augmented)
        rx[t][p] = match length or 0; sk: function position -> position; n: len"""
        self.prods = prods
        self.rx = rx
        self.sk = sk
        self.n = n
        self.by_lhs = {}
        for pid, (lhs, rhs) in enumerate(prods):
            if pid == 0:
                continue
            self.by_lhs.setdefault(lhs, []).append(pid)
        self.start = prods[0][1][0][1]
        self._ends = None

    # ---- recognition: least fixpoint of ends[(X, p)] ---------------------
    def _compute(self):
        ends = {}
        positions = sorted(set(self.sk(p) for p in range(self.n + 1)))
        nts = list(self.by_lhs)
        for a in nts:
            for p in positions:
                ends[(a, p)] = set()
        changed = True
        while changed:
            changed = False
            for a in nts:
                for pid in self.by_lhs[a]:
                    rhs = self.prods[pid][1]
                    for p in positions:
                        cur = {p}
                        for kind, x in rhs:
                            nxt = set()
                            for q in cur:
                                if kind == 0:
                                    if q < self.n:
                                        l = self.rx[x][q] if x < len(self.rx) else 0
                                        if l:
                                            nxt.add(self.sk(q + l))
                                else:
                                    nxt |= ends.get((x, q), set())
                            cur = nxt
                            if not cur:
                                break
                        if not cur <= ends[(a, p)]:
                            ends[(a, p)] |= cur
                            changed = True
        self._ends = ends

    def ends(self, a, p):
        if self._ends is None:
            self._compute()
        return self._ends.get((a, p), set())

    def sentence_ends(self):
        """normalised end positions q such that start derives [sk(0), q)"""
        return self.ends(self.start, self.sk(0))

    def is_sentence(self):
        return self.n in self.sentence_ends() or any(
            self.sk(q) == self.n and q == self.n for q in self.sentence_ends())

    # ---- enumeration of derivation trees ---------------------------------
    def trees(self, a, p, q, limit=2000):
        """All derivation trees of nonterminal a from p to q as
        ('N', pid, (children...)) / ('L', t, s, e).  Raises TooMany when more than
        limit trees exist or the ambiguity is infinite (a cycle)."""
        memo = {}
        active = set()

        def nt(a, p, q):
            key = (a, p, q)
            if key in memo:
                return memo[key]
            if key in active:
                raise TooMany("cycle")
            if q not in self.ends(a, p):
                memo[key] = []
                return []
            active.add(key)
            res = []
            for pid in self.by_lhs.get(a, []):
                rhs = self.prods[pid][1]
                for kids in seq(rhs, 0, p, q):
                    res.append(("N", pid, kids))
                    if len(res) > limit:
                        raise TooMany("limit")
            active.discard(key)
            memo[key] = res
            return res

        def seq(rhs, i, p, q):
            if i == len(rhs):
                return [()] if p == q else []
            kind, x = rhs[i]
            out = []
            if kind == 0:
                if p < self.n and x < len(self.rx) and self.rx[x][p]:
                    l = self.rx[x][p]
                    m = self.sk(p + l)
                    for rest in seq(rhs, i + 1, m, q):
                        out.append((("L", x, p, p + l),) + rest)
            else:
                for m in sorted(self.ends(x, p)):
                    if m > q:
                        continue
                    rests = seq(rhs, i + 1, m, q)
                    if not rests:
                        continue
                    for t in nt(x, p, m):
                        for rest in rests:
                            out.append((t,) + rest)
                            if len(out) > limit:
                                raise TooMany("limit")
            return out

        old = sys.getrecursionlimit()
        sys.setrecursionlimit(10000)
        try:
            return nt(a, p, q)
        finally:
            sys.setrecursionlimit(old)

    def sentence_trees(self, limit=2000):
        return self.trees(self.start, self.sk(0), self.n, limit)

    def prefix_trees(self, limit=2000):
        """derivations of every prefix that is a sentence: {q: [trees]}"""
        out = {}
        for q in sorted(self.sentence_ends()):
            out[q] = self.trees(self.start, self.sk(0), q, limit)
        return out


def shape_of_sx(t):
    """tree s-expression (with node positions) -> reference shape"""
    if t[0] == 0:
        return ("L", t[1], t[2], t[3])
    return ("N", t[1], tuple(shape_of_sx(c) for c in t[4]))


def shape_to_sx(t, default_pos=0):
    """reference shape -> tree s-expression; interior spans are synthesised from
    the leaves (first leaf start .. last leaf end; empty nodes get the position
    of their left neighbour's end)"""
    def go(t, pos):
        if t[0] == "L":
            return [0, t[1], t[2], t[3]], t[3]
        kids = []
        cur = pos
        first = None
        for c in t[2]:
            k, cur2 = go(c, cur)
            kids.append(k)
            if first is None:
                first = k[2]
            cur = cur2
        s = first if first is not None else pos
        return [1, t[1], s, cur, kids], cur
    return go(t, default_pos)[0]


def leaves_of_shape(t):
    if t[0] == "L":
        return [(t[1], t[2], t[3])]
    out = []
    for c in t[2]:
        out.extend(leaves_of_shape(c))
    return out


def one_tree(ref, a=None, p=None, q=None):
    """Some derivation tree of [p,q) from a (default: a sentence derivation), found by a
    search that never re-enters the same (nonterminal, span) on one path -- works for
    cyclic grammars too.  Returns a shape or None."""
    if a is None:
        a, p, q = ref.start, ref.sk(0), ref.n
    path = set()
    budget = [200000]

    def nt(a, p, q):
        key = (a, p, q)
        if key in path or q not in ref.ends(a, p):
            return None
        budget[0] -= 1
        if budget[0] < 0:
            return None
        path.add(key)
        try:
            for pid in ref.by_lhs.get(a, []):
                kids = seq(ref.prods[pid][1], 0, p, q)
                if kids is not None:
                    return ("N", pid, kids)
            return None
        finally:
            path.discard(key)

    def seq(rhs, i, p, q):
        if i == len(rhs):
            return () if p == q else None
        kind, x = rhs[i]
        if kind == 0:
            if p < ref.n and x < len(ref.rx) and ref.rx[x][p]:
                l = ref.rx[x][p]
                rest = seq(rhs, i + 1, ref.sk(p + l), q)
                if rest is not None:
                    return (("L", x, p, p + l),) + rest
            return None
        for m in sorted(ref.ends(x, p)):
            if m > q:
                continue
            t = nt(x, p, m)
            if t is None:
                continue
            rest = seq(rhs, i + 1, m, q)
            if rest is not None:
                return (t,) + rest
        return None

    old = sys.getrecursionlimit()
    sys.setrecursionlimit(10000)
    try:
        return nt(a, p, q)
    finally:
        sys.setrecursionlimit(old)


def propose_labels(nodes, prods, sk, strict=False):
    """Certificate for forest_ok_labelled_full: one summary (sym, s, e, first/last leaf) per
    packed node of a possibly cyclic forest, computed by propagation (untrusted: the extracted
    checker decides whether the labelling is consistent)."""
    n = len(nodes)
    labels = [None] * n

    def alt_label(a):
        if a[0] == 0:
            return ([0, a[1]], a[2] if strict else 0, a[3] if strict else 0, (a[2], a[3]))
        cur = None
        for c in a[4]:
            lc = labels[c]
            if lc is None:
                return None
            fl = lc[3]
            if fl is None:
                continue
            if cur is None:
                cur = fl
            else:
                if sk(cur[1]) != fl[0]:
                    return "bad"
                cur = (cur[0], fl[1])
        return ([1, prods[a[1]][0]], a[2] if strict else 0, a[3] if strict else 0, cur)

    changed = True
    while changed:
        changed = False
        for k in range(n):
            if labels[k] is not None:
                continue
            for a in nodes[k]:
                l = alt_label(a)
                if l is not None and l != "bad":
                    labels[k] = l
                    changed = True
                    break
    out = []
    for l in labels:
        if l is None:
            out.append([])
        else:
            out.append([l[0], l[1], l[2], [] if l[3] is None else [l[3][0], l[3][1]]])
    return out
