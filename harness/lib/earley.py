"""Untrusted reference: Earley sets over a token-symbol sequence.  Used for the viable-prefix
questions of C10 (longest viable prefix, terminals that may legally come next).
Grammar: prods[pid] = [lhs, [[kind, id]...]], prods[0] = S' -> start."""


class Earley:
    def __init__(self, prods):
        self.prods = prods
        self.by_lhs = {}
        for pid, (l, _) in enumerate(prods):
            self.by_lhs.setdefault(l, []).append(pid)

    def closure(self, items, k, sets):
        """predict + complete to a fixpoint; items are (pid, dot, origin)"""
        work = list(items)
        S = set(items)
        while work:
            (p, d, o) = work.pop()
            rhs = self.prods[p][1]
            if d < len(rhs):
                kind, x = rhs[d]
                if kind == 1:
                    for q in self.by_lhs.get(x, []):
                        it = (q, 0, k)
                        if it not in S:
                            S.add(it)
                            work.append(it)
                    # nullable completion inside the same set
                    for (q, dq, oq) in list(S):
                        if oq == k and self.prods[q][0] == x and dq == len(self.prods[q][1]):
                            it = (p, d + 1, o)
                            if it not in S:
                                S.add(it)
                                work.append(it)
            else:
                lhs = self.prods[p][0]
                src = S if o == k else sets[o]
                for (q, dq, oq) in list(src):
                    rq = self.prods[q][1]
                    if dq < len(rq) and rq[dq] == [1, lhs]:
                        it = (q, dq + 1, oq)
                        if it not in S:
                            S.add(it)
                            work.append(it)
        return S

    def run(self, toks):
        """returns the list of Earley sets; stops at the first empty one"""
        sets = []
        S0 = self.closure({(0, 0, 0)}, 0, sets)
        sets.append(S0)
        for k, t in enumerate(toks):
            nxt = set()
            for (p, d, o) in sets[k]:
                rhs = self.prods[p][1]
                if d < len(rhs) and rhs[d] == [0, t]:
                    nxt.add((p, d + 1, o))
            if not nxt:
                break
            sets.append(self.closure(nxt, k + 1, sets))
        return sets

    def expected(self, S):
        """terminals that can be scanned from set S"""
        out = set()
        for (p, d, o) in S:
            rhs = self.prods[p][1]
            if d < len(rhs) and rhs[d][0] == 0:
                out.add(rhs[d][1])
        return out

    def accepts(self, S):
        return any(p == 0 and d == len(self.prods[0][1]) and o == 0 for (p, d, o) in S)
