"""Untrusted reference: canonical LR(1) automaton, LALR(1) lookaheads, FIRST/nullable.
Grammar in the model's format: prods[pid] = [lhs, [[kind, id]...]], prods[0] = S' -> start.
Terminals are ints; STOP is passed explicitly."""


def first_nullable(prods):
    nts = set(l for l, _ in prods)
    nullable = {a: False for a in nts}
    first = {a: set() for a in nts}
    changed = True
    while changed:
        changed = False
        for lhs, rhs in prods:
            alln = True
            for kind, x in rhs:
                if kind == 0:
                    if x not in first[lhs]:
                        first[lhs].add(x)
                        changed = True
                    alln = False
                    break
                new = first[x] - first[lhs]
                if new:
                    first[lhs] |= new
                    changed = True
                if not nullable[x]:
                    alln = False
                    break
            if alln and not nullable[lhs]:
                nullable[lhs] = True
                changed = True
    return first, nullable


def first_of_seq(seq, la, first, nullable):
    out = set()
    for kind, x in seq:
        if kind == 0:
            out.add(x)
            return out
        out |= first[x]
        if not nullable[x]:
            return out
    out.add(la)
    return out


class LR1:
    def __init__(self, prods, stop, max_states=20000):
        self.prods = prods
        self.stop = stop
        self.first, self.nullable = first_nullable(prods)
        self.by_lhs = {}
        for pid, (l, _) in enumerate(prods):
            self.by_lhs.setdefault(l, []).append(pid)
        self.states = []          # frozenset of (p, d, a)
        self.index = {}
        self.trans = []           # dict (kind, x) -> state
        self.too_big = False
        start = self.closure({(0, 0, stop)})
        self.index[start] = 0
        self.states.append(start)
        self.trans.append({})
        work = [0]
        while work:
            i = work.pop()
            groups = {}
            for (p, d, a) in self.states[i]:
                rhs = prods[p][1]
                if d < len(rhs):
                    groups.setdefault(tuple(rhs[d]), set()).add((p, d + 1, a))
            for symk, kernel in groups.items():
                st = self.closure(kernel)
                j = self.index.get(st)
                if j is None:
                    j = len(self.states)
                    if j >= max_states:
                        self.too_big = True
                        return
                    self.index[st] = j
                    self.states.append(st)
                    self.trans.append({})
                    work.append(j)
                self.trans[i][symk] = j

    def closure(self, items):
        items = set(items)
        work = list(items)
        while work:
            (p, d, a) = work.pop()
            rhs = self.prods[p][1]
            if d < len(rhs) and rhs[d][0] == 1:
                b = rhs[d][1]
                las = first_of_seq(rhs[d + 1:], a, self.first, self.nullable)
                for q in self.by_lhs.get(b, []):
                    for la in las:
                        it = (q, 0, la)
                        if it not in items:
                            items.add(it)
                            work.append(it)
        return frozenset(items)

    def actions(self, i):
        """dict terminal -> set of ('s',) / ('r', p) / ('a',)"""
        acts = {}
        for (p, d, a) in self.states[i]:
            rhs = self.prods[p][1]
            if d < len(rhs):
                if rhs[d][0] == 0:
                    acts.setdefault(rhs[d][1], set()).add(("s",))
            elif p == 0:
                acts.setdefault(self.stop, set()).add(("a",))
            else:
                acts.setdefault(a, set()).add(("r", p))
        return acts

    def core(self, i):
        return frozenset((p, d) for (p, d, a) in self.states[i] if d > 0 or p == 0)

    def lalr_lookaheads(self):
        """dict core -> dict (p) -> set of terminals, for items with the dot at the end"""
        out = {}
        for i, st in enumerate(self.states):
            c = self.core(i)
            d0 = out.setdefault(c, {})
            for (p, d, a) in st:
                if d == len(self.prods[p][1]) and p != 0:
                    d0.setdefault(p, set()).add(a)
        return out
