"""table_build_correspondence: the Gallina model of create_table (Model/First.v, Closure.v,
Automaton.v, TableBuild.v; extracted commands 220..223) against the implementation.

For generated grammars x {LALR, SLR} x {prefer_shifts, prefer_shifts_over_empty} x
lexical_disambiguation the impl's table (impl.dump_table), its per-state items with follow
sets, FIRST and FOLLOW, the conflict lists and state.dynamic are compared with the model's.
A grammar on which the impl hits the state budget (VerifStateBudgetExceeded: the known finding
KF-C05-lalr-divergence) is compared as well: the model must exceed the same budget with the
same number of states.  Called from harness/props/c05.py."""
import multiprocessing as mp
import os
import re
import time

from . import common, gramgen

BUDGET = 250                   # PARGLARE_VERIF_MAX_STATES for these runs
FUELS = [4000, 30000, 600, 4000]   # FIRST/FOLLOW rounds, closure steps, states, LALR rounds

EXTRA = [
    # (name, text): shapes the c05 families do not contain
    ("empty_mid", "S: A EMPTY B | 'c'; A: 'a'; B: 'b';"),
    ("empty_front", "S: EMPTY A B; A: 'a'; B: 'b';"),
    ("empty_tail", "S: A B EMPTY; A: 'a'; B: 'b';"),
    ("empty_twice", "S: A | EMPTY EMPTY; A: 'a';"),
    ("empty_unreach", "S: 'a'; A: 'b' EMPTY 'c';"),
    ("inf_rec", "S: A 'x'; A: A 'a';"),
    ("inf_rec2", "S: 'x' A | 'y'; A: B 'a'; B: A 'b';"),
    ("unproductive_ok", "S: 'a' X | 'b'; X: 'a' Z; Z: 'a' X;"),
    ("kw", "S: 'for' X | X; X: 'x' | 'while' | Id;\nterminals\nKEYWORD: /\\w+/;\nId: /[a-z]+/;"),
    ("prior_terms", "S: A B | B A | C;\nterminals\nA: 'a' {15};\nB: /b+/ {3, finish};\nC: 'ab' {nofinish, dynamic};"),
    ("dyn_prod", "E: E '+' E {dynamic, left} | E '*' E {dynamic, 12} | 'n';"),
    ("zero_prior", "S: A | B | C;\nterminals\nA: 'a' {0};\nB: /a+/ {0};\nC: /a*b/ {1};"),
    ("rr_empty", "S: A 'x' | B 'x'; A: EMPTY; B: EMPTY;"),
    ("rr_mixed", "S: A 'x' | B 'x' | C 'x'; A: EMPTY; B: 'b' | EMPTY; C: 'b';"),
    ("long_string_prior", "S: A | B | A B;\nterminals\nA: 'a' {11};\nB: '" + "b" * 150 + "' {10};"),
    ("layout_user", "S: 'a' S | 'a';\nLAYOUT: LayoutItem | LAYOUT LayoutItem | EMPTY;\nLayoutItem: WS | Comment;\n"
                    "terminals\nWS: /\\s+/;\nComment: /\\/\\/.*/;"),
]


def term_meta_grammar(rng):
    """random grammar over DECLARED terminals carrying priorities, prefer, finish/nofinish,
    dynamic; string, regex and (with a KEYWORD rule) keyword recognizers of different lengths"""
    pool = [("A", "'a'"), ("AA", "'aa'"), ("AB", "'ab'"), ("B", "/b+/"), ("W", "'while'"),
            ("ID", "/[a-z]+/"), ("N", "/\\d+/"), ("X", "'x'"), ("LONG", "'abcdefghijklmnop'")]
    for _ in range(100):
        terms = rng.sample(pool, rng.randint(2, 5))
        tn = [t for t, _ in terms]
        nts = ["S", "P", "Q"][: rng.randint(1, 3)]
        prods = []
        for l in nts:
            alts = []
            for _ in range(rng.randint(1, 3)):
                if rng.random() < 0.12:
                    a = []
                else:
                    a = [rng.choice(nts) if rng.random() < 0.4 else rng.choice(tn)
                         for _ in range(rng.randint(1, 3))]
                if a not in alts:
                    alts.append(a)
            prods.append((l, alts))
        q = [(l, [["'%s'" % x if x in tn else x for x in a] for a in alts]) for l, alts in prods]
        if not gramgen.productive_reachable(q):
            continue
        style = rng.choice(["plain", "alt", "mixed"])
        if style == "plain":
            text = gramgen.gr_text(prods)
        else:
            text = decorate(rng, prods, style)
        lines = ["terminals"]
        if rng.random() < 0.4:
            lines.append("KEYWORD: /\\w+/;")
        for t, r in terms:
            md = []
            if rng.random() < 0.5:
                md.append(str(rng.choice([0, 1, 5, 9, 10, 11, 15, 30])))
            if rng.random() < 0.25:
                md.append("prefer")
            if rng.random() < 0.3:
                md.append(rng.choice(["finish", "nofinish"]))
            if rng.random() < 0.25:
                md.append("dynamic")
            rng.shuffle(md)
            lines.append("%s: %s%s;" % (t, r, (" {%s}" % ", ".join(md)) if md else ""))
        return text + "\n" + "\n".join(lines)
    return None


def decorate(rng, prods, style):
    """grammar text with random meta-data (priority, associativity, nops, nopse, dynamic)"""
    out = []
    for lhs, alts in prods:
        rule_md = []
        if style == "rule" or (style == "mixed" and rng.random() < 0.5):
            rule_md = rng.sample(["left", "right", str(rng.randrange(0, 30)), "nops", "nopse"],
                                 rng.randint(1, 3))
            if "left" in rule_md and "right" in rule_md:
                rule_md.remove("right")
        parts = []
        for a in alts:
            md = []
            if style != "rule":
                md = rng.sample([rng.choice(["left", "right", "shift", "reduce"]),
                                 str(rng.randrange(0, 30)), "nops", "nopse", "dynamic"], rng.randint(0, 3))
            parts.append((" ".join(a) if a else "EMPTY") + ((" {%s}" % ", ".join(md)) if md else ""))
        out.append("%s%s: %s;" % (lhs, (" {%s}" % ", ".join(rule_md)) if rule_md else "", " | ".join(parts)))
    return "\n".join(out)


LAYOUT_TAIL = ("\nLAYOUT: LayoutItem | LAYOUT LayoutItem | EMPTY;\nLayoutItem: WS | Comment;\n"
               "terminals\nWS: /\\s+/;\nComment: /\\/\\/.*/;")


def gen_jobs(ctx, quick):
    """[(family, name, text, start_rule, kind, ps, pse, lexdis)]"""
    rng = ctx.rng
    base = []
    from props import c05 as c05mod
    for n, t in c05mod.CLASSICS:
        base.append(("classic", n, t, None))
    for n, t in gramgen.CURATED:
        base.append(("curated", n, t, None))
    for n, t in EXTRA:
        base.append(("extra", n, t, None))
    for n, t in gramgen.CURATED[:4]:
        base.append(("layout", n + "+layout", t + LAYOUT_TAIL, "LAYOUT"))
        base.append(("layout", n + "+layout-main", t + LAYOUT_TAIL, None))
    k = 1 if quick else 12
    for i in range(12 * k):
        base.append(("twin", "twin%d" % i, gramgen.lr1_twin_grammar(rng)[1], None))
        base.append(("ctx", "ctx%d" % i, gramgen.ctx_nullable_grammar(rng)[1], None))
    for i in range((16 if quick else 300)):
        r = gramgen.nullable2_grammar(rng)
        if r:
            base.append(("nullable", "null%d" % i, r[1], None))
        r = gramgen.unary_nullable_grammar(rng)
        if r:
            base.append(("nullable", "unull%d" % i, r[1], None))
    for i in range((50 if quick else 2500)):
        big = i % 3 == 0
        r = gramgen.random_grammar(rng, max_nt=5 if big else 3, max_alts=3, max_rhs=3,
                                   terms=("'a'", "'b'", "'c'") if big else ("'a'", "'b'"),
                                   p_empty=rng.choice([0.0, 0.1, 0.25]), p_nt=rng.choice([0.4, 0.55]))
        if r is None:
            continue
        prods, text = r
        if i % 5 == 0:
            prods = [prods[0]] + list(reversed(prods[1:]))
            text = gramgen.gr_text(prods)
        base.append(("random", "rand%d" % i, text, None))
    for i in range((30 if quick else 1200)):
        r = gramgen.random_grammar(rng, max_nt=3, max_alts=3, max_rhs=3, terms=("'a'", "'b'", "'c'"),
                                   p_empty=rng.choice([0.0, 0.15]), p_nt=0.5)
        if r is None:
            continue
        base.append(("decorated", "deco%d" % i, decorate(rng, r[0], rng.choice(["rule", "alt", "mixed"])), None))
    for i in range((24 if quick else 800)):
        t = term_meta_grammar(rng)
        if t:
            base.append(("termmeta", "tm%d" % i, t, None))
    for i in range(8 if quick else 100):
        base.append(("imports", "imp%d" % i, import_grammar(rng), None))
    jobs = []
    for fam, name, text, start in base:
        combos = [(a, b) for a in (False, True) for b in (False, True)]
        if quick and fam not in ("classic", "extra"):
            combos = [rng.choice(combos)]
        elif not quick and fam in ("random", "decorated", "termmeta", "nullable"):
            combos = rng.sample(combos, 2)
        for ps, pse in combos:
            for kind in ("LALR", "SLR"):
                if start is not None and kind == "SLR":
                    continue        # the LAYOUT sub-parser is always LALR
                lexdis = rng.random() < 0.8
                jobs.append((fam, name, text, start, kind, ps, pse, lexdis))
    return jobs


# ------------------------------------------------------------------ impl side
def _term_info(t):
    from parglare.grammar import RegExRecognizer, StringRecognizer
    r = t.recognizer
    if type(r) is StringRecognizer:
        kind, ln, nl = 0, len(r.value), 0
    elif type(r) is RegExRecognizer and t.keyword:
        kind, ln, nl = 1, len(r.name), len(r.name)
    else:
        kind, ln, nl = 2, 0, 0
    fin = 0 if t.finish is None else (2 if t.finish else 1)
    return [[ord(ch) for ch in t.fqn], t.prior, kind, ln, nl, fin]


def _raw_prods(gi):
    return [[gi.sym(p.symbol)[1], [gi.sym(s) for s in list.__iter__(p.rhs)]] for p in gi.g.productions]


def model_case(gi, g, sp, kind, ps, pse, lexdis, budget=BUDGET, prods=None):
    """the argument of command 220 for a live grammar"""
    from parglare.grammar import EMPTY, STOP
    return [prods if prods is not None else _raw_prods(gi), len(gi.terms), len(gi.nonterms),
            gi.term_index(EMPTY), gi.term_index(STOP), sp,
            1 if kind == "LALR" else 0, 1 if ps else 0, 1 if pse else 0, 1 if lexdis else 0,
            [[p.prior, p.assoc, 1 if p.nops else 0, 1 if p.nopse else 0] for p in g.productions],
            [1 if p.dynamic else 0 for p in g.productions],
            [_term_info(t) for t in gi.terms],
            [1 if t.dynamic else 0 for t in gi.terms],
            [budget] if budget is not None else [], FUELS]


def _sets(d, syms, gi):
    return [sorted(gi.term_index(t) for t in d.get(s, ())) for s in syms]


def _worker(job):
    fam, name, text, start_rule, kind, ps, pse, lexdis = job
    from parglare import Grammar
    from parglare.closure import LR_0, LR_1
    from parglare.exceptions import GrammarError
    from parglare.grammar import EMPTY
    from parglare.tables import VerifStateBudgetExceeded, create_table, first, follow
    from . import impl
    out = {"job": job, "gerr": None}
    try:
        with impl.time_limit(20):
            g = _mk_grammar(text)
    except BaseException as e:  # noqa
        out["gerr"] = impl.exc_kind(e)
        return out
    gi = impl.GInfo(g)
    sp = 1 if start_rule is None else g.get_production_id(start_rule)
    out["case"] = model_case(gi, g, sp, kind, ps, pse, lexdis)
    raw = out["case"][0]
    e_id = out["case"][3]
    inner = any([0, e_id] in rhs for _, rhs in raw)
    out["has_empty"] = inner
    # EMPTY only as trailing symbols: the stripped grammar must give the same result
    trailing_only = True
    for _, rhs in raw:
        seen = False
        for s in rhs:
            if s == [0, e_id]:
                seen = True
            elif seen:
                trailing_only = False
    out["stripped"] = None
    if inner and trailing_only:
        sprods = [[l, [s for s in rhs if s != [0, e_id]]] for l, rhs in raw]
        out["stripped"] = model_case(gi, g, sp, kind, ps, pse, lexdis, prods=sprods)
    exp = None
    tab = fs = None
    os.environ["PARGLARE_VERIF_MAX_STATES"] = str(BUDGET)
    t0 = time.time()
    import traceback
    try:
        with impl.time_limit(30), impl.quiet():
            fs = first(g)
            tab = create_table(g, itemset_type=LR_1 if kind == "LALR" else LR_0, start_production=sp,
                               prefer_shifts=ps, prefer_shifts_over_empty=pse,
                               lexical_disambiguation=lexdis)
    except GrammarError as e:
        exp = [1, _gerr_nt(e, gi)]
    except VerifStateBudgetExceeded as e:
        exp = [2, int(e.args[0])]
    except AttributeError:
        exp = [3, 1]
        out["trace"] = traceback.format_exc()[-1500:]
    except ValueError:
        exp = [3, 2]
        out["trace"] = traceback.format_exc()[-1500:]
    except KeyError:
        exp = [3, 3]
        out["trace"] = traceback.format_exc()[-1500:]
    except impl.Timeout:
        exp = ["timeout"]
    except BaseException as e:  # noqa
        exp = ["exception", impl.exc_kind(e)]
        out["trace"] = traceback.format_exc()[-1500:]
    finally:
        os.environ.pop("PARGLARE_VERIF_MAX_STATES", None)
    if tab is not None:
        # the dump is outside the try block: an error here is the harness's, not create_table's
        fo = follow(g, fs)
        items = [[[it.production.prod_id, it.position, sorted(gi.term_index(t) for t in it.follow)]
                  for it in s.items] for s in tab.states]
        sr = [[c.state.state_id, gi.term_index(c.term), [p.prod_id for p in c.productions]]
              for c in tab.sr_conflicts]
        rr = [[c.state.state_id, gi.term_index(c.term), [p.prod_id for p in c.productions]]
              for c in tab.rr_conflicts]
        dyn = [sorted(gi.term_index(t) for t in s.dynamic) for s in tab.states]
        exp = [0, impl.dump_table(tab, gi), items, _sets(fs, gi.nonterms, gi), _sets(fo, gi.nonterms, gi),
               sr, rr, dyn]
        out["n_states"] = len(tab.states)
        out["conflicts"] = len(sr) + len(rr)
    out["impl_s"] = time.time() - t0
    out["expected"] = exp
    return out


def _mk_grammar(text):
    """Grammar from a text, or from files {"files": {name: text}, "root": name} written to a fresh
    temporary directory (import-based grammars: symbol names differ from their fqn)"""
    from parglare import Grammar
    if isinstance(text, str):
        return Grammar.from_string(text)
    import shutil
    import tempfile
    d = tempfile.mkdtemp(prefix="tabcorr_")
    try:
        for name, t in text["files"].items():
            with open(os.path.join(d, name), "w") as f:
                f.write(t)
        g = Grammar.from_file(os.path.join(d, text["root"]))
        g.file_path = None
        return g
    finally:
        shutil.rmtree(d, ignore_errors=True)


def import_grammar(rng):
    """terminals with the same unqualified name in two imported modules (fqn m1.W / m2.W)"""
    r1, r2 = rng.sample([r"[a-z]+", r"[a-z0-9]+", r"\\w+", r"[a-c]+", r"[a-z]\\w*"], 2)
    nm = rng.choice(["W", "WORD", "Tok", "id"])
    rules = ["S: A m1.%s | A m2.%s | m1.X | m2.Y" % (nm, nm), "A: 'x'"]
    if rng.random() < 0.5:
        rules[0] += " | A B m2.%s m1.%s" % (nm, nm)
        rules.append("B: 'x' | EMPTY")
    md = lambda: rng.choice(["", " {%d}" % rng.choice([5, 10, 15]), " {prefer}"])
    files = {"root.pg": "import 'm1.pg' as m1;\nimport 'm2.pg' as m2;\n" + ";\n".join(rules) + ";\n",
             "m1.pg": "X: 'p' %s;\nterminals\n%s: /%s/%s;\n" % (nm, nm, r1, md()),
             "m2.pg": "Y: 'q' %s;\nterminals\n%s: /%s/%s;\n" % (nm, nm, r2, md())}
    return {"files": files, "root": "root.pg"}


def _gerr_nt(e, gi):
    """the nonterminal named in 'First set empty for grammar symbol "X"'"""
    import re
    m = re.search(r'First set empty for grammar symbol "([^"]*)"', str(e))
    if not m:
        return -1
    for i, n in enumerate(gi.nonterms):
        if n.name == m.group(1) or n.fqn == m.group(1):
            return i
    return -1


def canon(o):
    """model output -> comparable with the impl dump: sets sorted"""
    if not isinstance(o, list) or not o:
        return o
    if o[0] == 0:
        table, items, fs, fo, sr, rr, dyn = o[1:8]
        items = [[[p, d, sorted(f)] for p, d, f in st] for st in items]
        return [0, table, items, [sorted(x) for x in fs], [sorted(x) for x in fo], sr, rr,
                [sorted(x) for x in dyn]]
    return o


def diff(exp, got):
    """short description of the first difference"""
    if not isinstance(exp, list) or not isinstance(got, list) or not exp or not got:
        return "result kinds differ: impl %r model %r" % (exp, got)
    if exp[0] != got[0] or exp[0] != 0:
        return "outcome: impl %r model %r" % (exp[:3], got[:3])
    names = ["", "table", "items", "FIRST", "FOLLOW", "sr_conflicts", "rr_conflicts", "dynamic"]
    for i in (3, 4):
        if exp[i] != got[i]:
            return "%s differ: impl %r model %r" % (names[i], exp[i], got[i])
    if len(exp[1]) != len(got[1]):
        return "state count: impl %d model %d" % (len(exp[1]), len(got[1]))
    for s, (a, b) in enumerate(zip(exp[2], got[2])):
        if a != b:
            return "items/follows of state %d: impl %r model %r" % (s, a, b)
    parts = ["symbol", "actions", "gotos", "finish flags", "items"]
    for s, (a, b) in enumerate(zip(exp[1], got[1])):
        for j in range(5):
            if a[j] != b[j]:
                return "%s of state %d: impl %r model %r" % (parts[j], s, a[j], b[j])
    for i in (5, 6, 7):
        if exp[i] != got[i]:
            return "%s differ: impl %r model %r" % (names[i], exp[i], got[i])
    return None


def run(ctx, skip_texts=()):
    """returns the coverage dict of the correspondence; reports violations through ctx"""
    t0 = time.time()
    quick = ctx.quick()
    jobs = gen_jobs(ctx, quick)
    with mp.Pool(common.NPROC) as pool:
        results = pool.map(_worker, jobs, chunksize=8)
    st = {"jobs": len(jobs), "grammar_errors": 0, "compared": 0, "agree": 0, "disagree": 0,
          "by_family": {}, "by_outcome": {}, "by_kind": {"LALR": 0, "SLR": 0}, "impl_timeouts": 0,
          "budget_exceeded_both": 0, "states_max": 0, "with_conflicts": 0, "strip_checked": 0,
          "strip_agree": 0, "options": {}, "theorem_candidates": 0, "plain_ok": 0, "plain_ok_tables": 0,
          "theorem_instances_confirmed": 0}
    mcases, idx = [], []
    for i, r in enumerate(results):
        if r["gerr"]:
            st["grammar_errors"] += 1
            # every generated text is a valid grammar; Grammar.from_string parses it with a parser
            # whose table create_table built from parglare's own grammar of the grammar language
            if r["gerr"] != "Timeout":
                ctx.violation("table_build_correspondence: a valid grammar text cannot be loaded (%s); the parser of "
                              "the grammar language is itself built by create_table" % r["gerr"],
                              {"correspondence": "table_build_correspondence", "grammar": r["job"][2],
                               "error": r["gerr"]}, no_input=True, key="tabcorr-grammar-load")
            continue
        if r["expected"] == ["timeout"]:
            st["impl_timeouts"] += 1
            continue
        idx.append((i, "raw"))
        mcases.append((220, r["case"]))
        if not r["job"][5] and not r["job"][6]:
            # no prefer-shifts strategy: a candidate for the class of the end-to-end theorems
            idx.append((i, "theorem"))
            mcases.append((224, r["case"]))
        if r["stripped"] is not None:
            idx.append((i, "stripped"))
            mcases.append((220, r["stripped"]))
    outs = common.model_run(mcases)
    raw_out = {}
    samples = []
    for (i, what), o in zip(idx, outs):
        r = results[i]
        fam, name, text, start, kind, ps, pse, lexdis = r["job"]
        if what == "theorem":
            # C05_model_table_complete / C05_model_table_struct: plain_ok and a table => both validators
            # accept the model's table with the model's own annotation.  Evaluated on the generated
            # grammars (how large the class is in practice; a failure would be a bug in the glue)
            st["theorem_candidates"] += 1
            if o[0] == 1:
                st["plain_ok"] += 1
                if o[1]:
                    st["plain_ok_tables"] += 1
                    if o[1] == [1, 1]:
                        st["theorem_instances_confirmed"] += 1
                    else:
                        ctx.violation("the extracted validators reject a table for which C05_model_table_complete/"
                                      "_struct apply (plain_ok holds): glue or extraction is broken",
                                      {"grammar": text, "table_kind": kind, "result": o}, no_input=True,
                                      key="tabcorr-theorem-instance")
            continue
        got = canon(o)
        if what == "stripped":
            st["strip_checked"] += 1
            if got == raw_out.get(i):
                st["strip_agree"] += 1
            else:
                ctx.violation("table_build_correspondence: the model's result changes when trailing EMPTY "
                              "symbols are removed from the right-hand sides",
                              {"grammar": text, "table_kind": kind, "prefer_shifts": ps,
                               "prefer_shifts_over_empty": pse, "start_rule": start,
                               "difference": diff(raw_out.get(i), got)},
                              no_input=True, key="tabcorr-strip")
            continue
        raw_out[i] = got
        exp = r["expected"]
        st["compared"] += 1
        st["by_family"][fam] = st["by_family"].get(fam, 0) + 1
        st["by_kind"][kind] += 1
        ok_name = {0: "table", 1: "GrammarError", 2: "budget", 3: "crash"}.get(exp[0], str(exp[0]))
        st["by_outcome"][ok_name] = st["by_outcome"].get(ok_name, 0) + 1
        okey = "ps=%d pse=%d lexdis=%d" % (ps, pse, lexdis)
        st["options"][okey] = st["options"].get(okey, 0) + 1
        if exp[0] == 0:
            st["states_max"] = max(st["states_max"], r["n_states"])
            if r["conflicts"]:
                st["with_conflicts"] += 1
        if exp == got:
            st["agree"] += 1
            if exp[0] == 2:
                st["budget_exceeded_both"] += 1
            if exp[0] == 0 and len(samples) < 2 and r["n_states"] <= 6:
                samples.append({"grammar": text, "kind": kind, "states": r["n_states"], "table": exp[1]})
            continue
        # a disagreement is re-evaluated once in this process before it is reported (a worker of the
        # pool under heavy machine load once produced an exception that could not be reproduced)
        r2 = _worker(r["job"])
        if not r2["gerr"] and r2["expected"] == got:
            st["not_reproduced"] = st.get("not_reproduced", 0) + 1
            ctx.notes.append("table_build_correspondence: a disagreement was not reproduced on re-evaluation: %r %s "
                             "impl first said %r; traceback: %s" % (text, kind, exp[:2], r.get("trace")))
            st["agree"] += 1
            continue
        st["disagree"] += 1
        if isinstance(text, str) and text in skip_texts:
            continue
        d = diff(exp, got)
        ctx.violation("table_build_correspondence: create_table and its Gallina model disagree (%s)"
                      % (d.split(":")[0] if d else "?"),
                      {"correspondence": "table_build_correspondence", "grammar": text, "table_kind": kind,
                       "prefer_shifts": ps, "prefer_shifts_over_empty": pse, "lexical_disambiguation": lexdis,
                       "start_rule": start, "difference": d, "family": fam, "impl_traceback": r.get("trace")},
                      no_input=True, key="tabcorr-" + re.sub(r"\d+", "N", (d.split(":")[0] if d else "?"))[:40])
    # extraction cross-check of a sample of the model runs
    nx, xok, xlog = common.coq_crosscheck("TAB", mcases, outs, ctx.rng, sample=6 if quick else 40)
    if not xok:
        ctx.violation("table_build_correspondence: extraction cross-check failed", {"log": xlog}, no_input=True,
                      key="tabcorr-xcheck")
    st["crosscheck_vm_compute_cases"] = nx
    st["wall_s"] = round(time.time() - t0, 1)
    st["samples"] = samples
    return st


def run_seeds(ctx, seeds=(1, 7), n_jobs=160):
    """The same correspondence with the impl running under other PYTHONHASHSEEDs (separate
    interpreter processes): the model is a function of the ordered grammar, so a dependence of
    create_table on set iteration order shows up here (called from harness/props/c16.py)."""
    import pickle
    import subprocess
    t0 = time.time()
    jobs = gen_jobs(ctx, True)
    ctx.rng.shuffle(jobs)
    jobs = jobs[:n_jobs]
    st = {"seeds": list(seeds), "jobs": len(jobs), "compared": 0, "agree": 0, "disagree": 0, "failed_processes": 0}
    per_seed = {}
    import threading

    def one(seed):
        env = dict(os.environ)
        env["PYTHONPATH"] = common.REPO
        env["PYTHONHASHSEED"] = str(seed)
        env["PARGLARE_VERIF"] = "1"
        env["VERIF_JOBS"] = str(max(2, common.NPROC // max(1, len(seeds))))
        try:
            p = subprocess.run(["/venv/bin/python", os.path.join(common.VERIF, "harness", "run_worker.py"),
                                "lib.tabcorr", "_worker"], input=pickle.dumps(jobs), stdout=subprocess.PIPE,
                               stderr=subprocess.PIPE, env=env, timeout=900)
            per_seed[seed] = pickle.loads(p.stdout)["results"] if p.returncode == 0 else None
        except Exception:
            per_seed[seed] = None

    ths = [threading.Thread(target=one, args=(sd,)) for sd in seeds]
    for th in ths:
        th.start()
    for th in ths:
        th.join()
    for seed in seeds:
        if per_seed.get(seed) is None:
            st["failed_processes"] += 1
            ctx.violation("table_build_correspondence: worker process under PYTHONHASHSEED=%d failed" % seed,
                          {"seed": seed}, no_input=True, key="tabcorr-seedproc")
    ref = [r for r in per_seed.values() if r is not None]
    if not ref:
        return st
    mcases = [(220, r["case"]) for r in ref[0] if not r["gerr"]]
    outs = iter(common.model_run(mcases))
    model = [None if r["gerr"] else canon(next(outs)) for r in ref[0]]
    for seed, res in per_seed.items():
        if res is None:
            continue
        for r, got in zip(res, model):
            if r["gerr"] or r["expected"] == ["timeout"]:
                continue
            st["compared"] += 1
            if r["expected"] == got:
                st["agree"] += 1
                continue
            st["disagree"] += 1
            fam, name, text, start, kind, ps, pse, lexdis = r["job"]
            d = diff(r["expected"], got)
            ctx.violation("table_build_correspondence under PYTHONHASHSEED=%d: create_table and its Gallina model "
                          "disagree (%s)" % (seed, d.split(":")[0] if d else "?"),
                          {"correspondence": "table_build_correspondence", "hash_seed": seed, "grammar": text,
                           "table_kind": kind, "prefer_shifts": ps, "prefer_shifts_over_empty": pse,
                           "lexical_disambiguation": lexdis, "start_rule": start, "difference": d},
                          no_input=True, key="tabcorr-seed-" + re.sub(r"\d+", "N", (d.split(":")[0] if d else "?"))[:40])
    st["wall_s"] = round(time.time() - t0, 1)
    return st


def replay_one(text, start_rule, kind, ps, pse, lexdis):
    r = _worker(("replay", "replay", text, start_rule, kind, ps, pse, lexdis))
    if r["gerr"]:
        print("grammar error", r["gerr"])
        return
    o = canon(common.model_run([(220, r["case"])])[0])
    print(kind, "impl:", r["expected"][:1], "model:", o[:1], "difference:", diff(r["expected"], o))
