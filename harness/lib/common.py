"""Shared machinery of the checks: build, model runner, evidence, verdicts."""
import fcntl
import hashlib
import json
import os
import random
import re
import subprocess
import sys
import time

VERIF = os.path.dirname(os.path.dirname(os.path.dirname(os.path.abspath(__file__))))
REPO = os.environ.get("VERIF_REPO", "/repo")
COQ = os.path.join(VERIF, "coq")
BUILD = os.path.join(VERIF, "build")
EVID = os.path.join(VERIF, "evidence")
REPLAYS = os.path.join(VERIF, "replays")
MODEL_BIN = os.path.join(BUILD, "model_main")
NPROC = int(os.environ.get("VERIF_JOBS", "16"))

FORBIDDEN = re.compile(
    r"\b(Admitted|admit|Axiom|Axioms|Parameter|Parameters|Conjecture|Conjectures|"
    r"Unset\s+Guard|Unset\s+Positivity|Unset\s+Universe|bypass_check|Admit\s+Obligations|"
    r"type-in-type|impredicative-set)\b")


# ---------------------------------------------------------------- s-expressions
def sx_dump(x):
    out = []

    def go(x):
        if isinstance(x, bool):
            out.append("1" if x else "0")
        elif isinstance(x, int):
            if x < 0:
                raise ValueError("negative atom")
            out.append(str(x))
        else:
            out.append("(")
            first = True
            for y in x:
                if not first:
                    out.append(" ")
                first = False
                go(y)
            out.append(")")

    go(x)
    return "".join(out)


def sx_parse(s):
    pos = 0
    n = len(s)
    stack = [[]]
    while pos < n:
        c = s[pos]
        if c == "(":
            stack.append([])
            pos += 1
        elif c == ")":
            top = stack.pop()
            stack[-1].append(top)
            pos += 1
        elif c.isdigit():
            j = pos
            while j < n and s[j].isdigit():
                j += 1
            stack[-1].append(int(s[pos:j]))
            pos = j
        else:
            pos += 1
    return stack[0][0]


def sx_coq(x):
    """Coq literal of type sx."""
    if isinstance(x, bool):
        x = 1 if x else 0
    if isinstance(x, int):
        return "A %d" % x
    return "L [" + "; ".join(sx_coq(y) for y in x) + "]"


# ---------------------------------------------------------------- build
def sh(cmd, cwd=None, timeout=1800, env=None):
    p = subprocess.run(cmd, cwd=cwd, shell=isinstance(cmd, str), timeout=timeout,
                       stdout=subprocess.PIPE, stderr=subprocess.STDOUT, env=env,
                       text=True)
    return p.returncode, p.stdout


class BuildError(Exception):
    def __init__(self, stage, log):
        super().__init__(stage)
        self.stage = stage
        self.log = log


def scan_forbidden():
    bad = []
    for root, _, files in os.walk(os.path.join(COQ, "theories")):
        for f in files:
            if f.endswith(".v"):
                p = os.path.join(root, f)
                txt = open(p).read()
                # strip comments (non-nested is enough for our sources)
                txt2 = re.sub(r"\(\*.*?\*\)", " ", txt, flags=re.S)
                for m in FORBIDDEN.finditer(txt2):
                    bad.append((p, m.group(0)))
    return bad


def write_coqproject():
    """_CoqProject lists every .v file under coq/theories (coqdep orders them)."""
    files = []
    for root, _, fs in os.walk(os.path.join(COQ, "theories")):
        for f in fs:
            if f.endswith(".v"):
                files.append(os.path.relpath(os.path.join(root, f), COQ))
    txt = "-Q theories PV\n" + "\n".join(sorted(files)) + "\n"
    path = os.path.join(COQ, "_CoqProject")
    if not os.path.exists(path) or open(path).read() != txt:
        open(path, "w").write(txt)


def ensure_built(targets=None):
    """Regenerate Gen/Consts.v from /repo, make the Coq project, extract and
    compile the OCaml driver.  Serialised by a file lock; incremental."""
    os.makedirs(BUILD, exist_ok=True)
    lock = open(os.path.join(BUILD, ".lock"), "w")
    fcntl.flock(lock, fcntl.LOCK_EX)
    try:
        from . import consts_gen
        consts_gen.regenerate()
        write_coqproject()
        rc, out = sh("coq_makefile -f _CoqProject -o Makefile", cwd=COQ)
        if rc != 0:
            raise BuildError("coq_makefile", out)
        rc, out = sh("timeout 1500 make -j%d" % NPROC, cwd=COQ, timeout=1600)
        if rc != 0:
            raise BuildError("coq make", out[-6000:])
        src = os.path.join(COQ, "model.ml")
        dst = os.path.join(BUILD, "model.ml")
        need = (not os.path.exists(MODEL_BIN) or not os.path.exists(dst)
                or open(src).read() != open(dst).read()
                or os.path.getmtime(os.path.join(VERIF, "ocaml", "model_main.ml"))
                > os.path.getmtime(MODEL_BIN))
        if need:
            for f in ("model.ml", "model.mli"):
                open(os.path.join(BUILD, f), "w").write(open(os.path.join(COQ, f)).read())
            open(os.path.join(BUILD, "model_main.ml"), "w").write(
                open(os.path.join(VERIF, "ocaml", "model_main.ml")).read())
            rc, out = sh("ocamlfind ocamlopt -package zarith -linkpkg -w -a "
                         "model.mli model.ml model_main.ml -o model_main", cwd=BUILD)
            if rc != 0:
                raise BuildError("ocaml", out[-4000:])
        bad = scan_forbidden()
        if bad:
            raise BuildError("forbidden vernacular", repr(bad))
    finally:
        fcntl.flock(lock, fcntl.LOCK_UN)
        lock.close()


def property_transcript(pid):
    """Re-check Properties/<pid>.v alone and return (theorems, assumptions text)."""
    src = os.path.join(COQ, "theories", "Properties", pid + ".v")
    tmpdir = os.path.join(BUILD, "prop_" + pid)
    os.makedirs(tmpdir, exist_ok=True)
    rc, out = sh(["timeout", "600", "coqc", "-Q", "theories", "PV", "-o",
                  os.path.join(tmpdir, pid + ".vo"), src], cwd=COQ, timeout=700)
    if rc != 0:
        raise BuildError("Properties/%s.v" % pid, out[-4000:])
    txt = open(src).read()
    txt_nc = re.sub(r"\(\*.*?\*\)", " ", txt, flags=re.S)
    theorems = re.findall(r"\b(?:Theorem|Example)\s+([A-Za-z0-9_']+)", txt_nc)
    n_print = len(re.findall(r"Print Assumptions", txt_nc))
    closed = out.count("Closed under the global context")
    axioms = []
    for blk in re.findall(r"Axioms:\n((?:.+\n?)+?)(?:\n|$)", out):
        for line in blk.splitlines():
            m = re.match(r"^([A-Za-z0-9_.']+)\s*:", line)
            if m:
                axioms.append(m.group(1))
    return {"theorems": theorems, "print_assumptions": n_print, "closed": closed,
            "axioms": sorted(set(axioms)), "raw": out[-3000:]}


# ---------------------------------------------------------------- model runner
def model_run(cases, jobs=None):
    """cases: list of (cmd:int, sx).  Returns list of parsed outputs."""
    if not cases:
        return []
    jobs = jobs or NPROC
    jobs = max(1, min(jobs, (len(cases) + 19) // 20))
    chunks = [[] for _ in range(jobs)]
    for i, c in enumerate(cases):
        chunks[i % jobs].append((i, c))
    procs = []
    for ch in chunks:
        data = "\n".join("%d %s" % (cmd, sx_dump(arg)) for _, (cmd, arg) in ch) + "\n"
        p = subprocess.Popen(["bash", "-c", "ulimit -s unlimited 2>/dev/null; exec " + MODEL_BIN],
                             stdin=subprocess.PIPE, stdout=subprocess.PIPE, text=True)
        procs.append((p, ch, data))
    # feed and collect (threads to avoid pipe deadlock)
    import threading
    results = [None] * len(cases)
    errs = []

    def work(p, ch, data):
        out, _ = p.communicate(data)
        lines = out.splitlines()
        if len(lines) != len(ch):
            errs.append("model_main produced %d lines for %d cases (rc=%s)"
                        % (len(lines), len(ch), p.returncode))
            return
        for (i, _), line in zip(ch, lines):
            results[i] = sx_parse(line)

    ths = [threading.Thread(target=work, args=a) for a in procs]
    for t in ths:
        t.start()
    for t in ths:
        t.join()
    if errs:
        raise RuntimeError("; ".join(errs))
    return results


def coq_crosscheck(tag, cases, outputs, rng, sample=120):
    """Evaluate a sample of the cases inside Coq with vm_compute and compare with
    what the extracted OCaml driver printed.  Returns (n_checked, ok, log)."""
    idx = list(range(len(cases)))
    rng.shuffle(idx)
    # keep literals small: skip very large cases
    idx = [i for i in idx if len(sx_dump(cases[i][1])) < 6000][:sample]
    if not idx:
        return 0, True, ""
    d = os.path.join(BUILD, "xcheck_" + tag)
    os.makedirs(d, exist_ok=True)
    lines = ["From Coq Require Import NArith List Bool.",
             "From PV Require Import Base.Sx Extract.Run.",
             "Import ListNotations. Local Open Scope N_scope.",
             "Definition cases : list (N * sx * sx) := ["]
    items = []
    for i in idx:
        cmd, arg = cases[i]
        items.append("  (%d, %s, %s)" % (cmd, sx_coq(arg), sx_coq(outputs[i])))
    lines.append(";\n".join(items))
    lines.append("].")
    lines.append("Definition ok := forallb (fun c => match c with (cmd, a, o) => "
                 "sx_eqb (run cmd a) o end) cases.")
    lines.append("Eval vm_compute in ok.")
    path = os.path.join(d, "cases.v")
    open(path, "w").write("\n".join(lines) + "\n")
    rc, out = sh(["bash", "-c", "ulimit -s unlimited 2>/dev/null; timeout 600 coqc -Q %s PV %s"
                  % (os.path.join(COQ, "theories"), path)], cwd=d, timeout=700)
    ok = rc == 0 and "= true" in out
    return len(idx), ok, out[-2000:]


# ---------------------------------------------------------------- verdicts / evidence
class Ctx:
    def __init__(self, pid, tier, seed):
        self.pid = pid
        self.tier = tier
        self.seed = seed
        self.rng = random.Random((seed, pid).__repr__())
        self.t0 = time.time()
        self.violations = []      # (replay_path, no_input_found: bool, what)
        self._viol = {}
        self._known = {}
        self.known = []           # strings
        self.notes = []
        self.cov = {}
        self.kf = load_known_findings(pid)

    def quick(self):
        return self.tier == "quick"

    def violation(self, what, replay, no_input=False, key=None, size=None):
        """Record a violation.  Violations with the same key (default: the message with
        digits normalised) are reported once, keeping the smallest case."""
        key = key or re.sub(r"\d+", "N", what)
        if size is None:
            size = len(json.dumps(replay, default=str))
        cur = self._viol.get(key)
        if cur is None or size < cur[0]:
            self._viol[key] = (size, what, dict(replay), no_input, (cur[4] if cur else 0) + 1)
        else:
            self._viol[key] = cur[:4] + (cur[4] + 1,)

    def flush_violations(self):
        os.makedirs(REPLAYS, exist_ok=True)
        for key, (size, what, replay, no_input, count) in sorted(self._viol.items()):
            replay["property"] = self.pid
            replay["what"] = what
            replay["occurrences_in_this_run"] = count
            replay["tier"] = self.tier
            replay["seed"] = self.seed
            body = json.dumps(replay, sort_keys=True, indent=1, default=str)
            h = hashlib.sha256(body.encode()).hexdigest()[:12]
            path = os.path.join(REPLAYS, "%s-%s.json" % (self.pid, h))
            open(path, "w").write(body)
            self.violations.append((path, no_input, what))

    def known_finding(self, kf_id, what):
        """one line per listed finding, however many instances the run met"""
        if kf_id in self._known:
            self._known[kf_id][1] += 1
        else:
            self._known[kf_id] = [what, 1]
            self.known.append(kf_id)


def load_known_findings(pid):
    p = os.path.join(VERIF, "known_findings.json")
    if not os.path.exists(p):
        return []
    data = json.load(open(p))
    return [e for e in data.get("findings", []) if e.get("property") == pid]


TRUSTED_BASE = [
    "Coq 8.16.1 kernel (coqc); vm_compute used in witnesses/cross-check; native_compute not used",
    "extraction: ExtrOcamlBasic only, N/positive/nat kept as Coq datatypes; OCaml 4.13.1 + zarith (decimal I/O only)",
    "hand-written OCaml driver ocaml/model_main.ml (s-expression I/O), cross-checked against vm_compute each run",
    "harness/lib/consts_gen.py (fail-closed constant translator) and the Python harness: generators, dump of impl objects, canonicalisation",
    "the impl itself is modelled, not verified: the tie is the differential run of model/validators against /repo on generated cases",
]


def finish(ctx, level, obligations, coverage, assumptions, checker_cmd):
    ctx.flush_violations()
    wall = time.time() - ctx.t0
    cov = dict(coverage)
    cov.setdefault("obligations", obligations["total"])
    cov.setdefault("discharged", obligations["discharged"])
    cov.setdefault("checker_cmd", checker_cmd)
    cov.setdefault("trusted_base", TRUSTED_BASE)
    cov["theorems"] = obligations.get("theorems", [])
    cov["axioms_reported_by_Print_Assumptions"] = obligations.get("axioms", [])
    ctx.known = ["%s %s (instances in this run: %d)" % (k, v[0], v[1])
                 for k, v in ctx._known.items()]
    cov["known_findings_seen"] = ctx.known
    cov["notes"] = ctx.notes
    ev = {
        "property_id": ctx.pid,
        "tier": ctx.tier,
        "seed": ctx.seed,
        "level": level,
        "coverage": cov,
        "assumptions": assumptions,
        "wall_s": round(wall, 2),
        "violations": len(ctx.violations),
    }
    os.makedirs(EVID, exist_ok=True)
    open(os.path.join(EVID, ctx.pid + ".json"), "w").write(
        json.dumps(ev, indent=1, sort_keys=True, default=str))
    for k in ctx.known:
        print("KNOWN-FINDING: property=%s %s" % (ctx.pid, k))
    for path, no_input, what in ctx.violations:
        print("VIOLATION property=%s replay=%s%s"
              % (ctx.pid, path, " no-failing-input-found" if no_input else ""))
    sys.stdout.flush()
    return 1 if ctx.violations else 0


# ---------------------------------------------------------------- baseline implementation
BASELINE = os.path.join(VERIF, "harness", "baseline")


def baseline_run(modname, fname, jobs, timeout=1200):
    """Evaluate worker jobs on the frozen baseline copy of parglare (pinned commit + fix
    commits).  Only used to decide whether a failure observed on /repo is an instance of a
    listed known finding.  Returns the list of results or None (fail closed: no suppression)."""
    import pickle
    env = dict(os.environ)
    env["PYTHONPATH"] = BASELINE
    env["PYTHONHASHSEED"] = "0"
    try:
        p = subprocess.run(["/venv/bin/python", os.path.join(VERIF, "harness", "run_worker.py"),
                            modname, fname], input=pickle.dumps(jobs), stdout=subprocess.PIPE,
                           stderr=subprocess.PIPE, env=env, timeout=timeout)
        if p.returncode != 0:
            return None
        out = pickle.loads(p.stdout)
        if not out["parglare_file"].startswith(BASELINE):
            return None
        return out["results"]
    except Exception:
        return None
