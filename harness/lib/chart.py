"""Chart certificate for the verified forest-completeness validator (Validators/ForestComplete.v):
the least set of items (symbol, fl) closed under the tokens of the match matrix and the
productions, fl = None (empty stretch) or (start of first token, end of last token), consecutive
stretches separated by layout only.  Untrusted: the validator checks closedness itself."""


def closed_chart(grammar, rx, sk, cap=20000):
    """grammar: model grammar [[lhs, [[kind, id], ...]], ...]; rx: matrix terminal x position ->
    length; sk: position -> position after layout.  Returns a list of [[kind, id], [] | [s, e]]
    or None when the chart grows beyond cap."""
    by_sym = {}

    def add(sym, fl):
        s = by_sym.setdefault(sym, set())
        if fl in s:
            return False
        s.add(fl)
        return True
    for y, row in enumerate(rx):
        for b, l in enumerate(row):
            if l:
                add((0, y), (b, b + l))
    changed = True
    total = 0
    while changed:
        changed = False
        for lhs, rhs in grammar:
            curs = {None}
            for kind, ident in rhs:
                new = set()
                its = by_sym.get((kind, ident), ())
                for cur in curs:
                    for fl in its:
                        if fl is None:
                            new.add(cur)
                        elif cur is None:
                            new.add(fl)
                        elif sk(cur[1]) == fl[0]:
                            new.add((cur[0], fl[1]))
                curs = new
                if not curs:
                    break
            for fl in curs:
                if add((1, lhs), fl):
                    changed = True
                    total += 1
                    if total > cap:
                        return None
    out = []
    for (kind, ident), fls in sorted(by_sym.items()):
        for fl in sorted(fls, key=lambda f: (-1, -1) if f is None else f):
            out.append([[kind, ident], [] if fl is None else [fl[0], fl[1]]])
    return out
