"""Grammar and input generators (all random choices come from the rng passed in)."""
import itertools

NT_NAMES = ["S", "A", "B", "C", "D"]

CURATED = [
    # (name, text) -- classic shapes: ambiguous, nullable, hidden recursion, cyclic
    ("expr", "E: E '+' E | E '*' E | 'n';"),
    ("ss", "S: S S | 'a';"),
    ("sss", "S: S S S | S S | 'a';"),
    ("dangling", "S: 'i' S | 'i' S 'e' S | 'x';"),
    ("aa", "S: A A; A: 'a' | 'a' 'a';"),
    ("nullable3", "S: A A A | EMPTY; A: S 'b' | EMPTY;"),
    ("dup", "S: 'b' 'b' | A; A: 'a' | S A;"),
    ("hidden_left", "S: A S 'a' | 'a'; A: EMPTY | 'b';"),
    ("hidden_right", "S: 'a' S A | 'a'; A: EMPTY | 'b';"),
    ("opt_list", "S: L; L: L 'a' | EMPTY;"),
    ("right_null", "S: 'a' A B; A: EMPTY | 'a'; B: EMPTY | 'a';"),
    ("palin", "S: 'a' S 'a' | 'b' S 'b' | 'a' | 'b' | EMPTY;"),
    ("lr1", "S: 'a' A 'd' | 'b' B 'd' | 'a' B 'e' | 'b' A 'e'; A: 'c'; B: 'c';"),
    ("cyclic1", "S: A | 'a'; A: S | 'b';"),
    ("cyclic2", "S: S S | 'a' | EMPTY;"),
    ("unit_chain", "S: A; A: B; B: 'a' | 'a' B;"),
    ("ambig_null", "S: A B; A: 'a' | EMPTY; B: 'a' | EMPTY;"),
    ("g_bounded", "S: A 'a' | B 'a'; A: 'b'; B: 'b';"),
]


def gr_text(prods):
    """prods: list of (lhs_name, [[sym...] ...]) ; terminals are quoted strings
    already (e.g. "'a'"), EMPTY alternative is []."""
    out = []
    for lhs, alts in prods:
        out.append("%s: %s;" % (lhs, " | ".join(" ".join(a) if a else "EMPTY" for a in alts)))
    return "\n".join(out)


def productive_reachable(prods):
    nts = [l for l, _ in prods]
    prod = set()
    changed = True
    while changed:
        changed = False
        for l, alts in prods:
            if l in prod:
                continue
            for a in alts:
                if all((s.startswith("'") or s in prod) for s in a):
                    prod.add(l)
                    changed = True
                    break
    if set(nts) != prod:
        return False
    reach = {nts[0]}
    work = [nts[0]]
    d = dict(prods)
    while work:
        x = work.pop()
        for a in d[x]:
            for s in a:
                if not s.startswith("'") and s not in reach:
                    reach.add(s)
                    work.append(s)
    return reach == set(nts)


def random_grammar(rng, max_nt=3, max_alts=3, max_rhs=3, terms=("'a'", "'b'"),
                   p_empty=0.15, p_nt=0.5):
    """A random productive, reachable grammar as (prods, text)."""
    for _ in range(200):
        n_nt = rng.randint(1, max_nt)
        nts = NT_NAMES[:n_nt]
        prods = []
        for l in nts:
            n_alt = rng.randint(1, max_alts)
            alts = []
            for _ in range(n_alt):
                if rng.random() < p_empty:
                    a = []
                else:
                    k = rng.randint(1, max_rhs)
                    a = [rng.choice(nts) if rng.random() < p_nt else rng.choice(terms)
                         for _ in range(k)]
                if a not in alts:
                    alts.append(a)
            prods.append((l, alts))
        if productive_reachable(prods):
            return prods, gr_text(prods)
    return None


def all_strings(alphabet, max_len):
    for n in range(max_len + 1):
        for t in itertools.product(alphabet, repeat=n):
            yield "".join(t)


def alphabet_of(text):
    """single-character string terminals used in a grammar text"""
    import re
    return sorted(set(re.findall(r"'(.)'", text)))


def random_sentence(rng, prods, max_depth=6, max_len=12):
    """Random derivation from the first nonterminal; returns a string or None."""
    d = dict(prods)

    def go(sym, depth):
        if sym.startswith("'"):
            return sym[1:-1]
        alts = d[sym]
        if depth <= 0:
            # prefer alternatives without nonterminals
            flat = [a for a in alts if all(s.startswith("'") for s in a)]
            if not flat:
                return None
            alts = flat
        a = rng.choice(alts)
        out = []
        for s in a:
            r = go(s, depth - 1)
            if r is None:
                return None
            out.append(r)
        return "".join(out)

    for _ in range(20):
        r = go(prods[0][0], max_depth)
        if r is not None and len(r) <= max_len:
            return r
    return None


def parse_text_prods(text):
    """inverse of gr_text for the curated one-line grammars"""
    prods = []
    for rule in text.replace("\n", " ").split(";"):
        rule = rule.strip()
        if not rule:
            continue
        lhs, rhs = rule.split(":", 1)
        alts = []
        for a in rhs.split("|"):
            syms = a.split()
            alts.append([] if syms == ["EMPTY"] else syms)
        prods.append((lhs.strip(), alts))
    return prods


def unary_nullable_grammar(rng, two_nts=None):
    """Small grammars over the single terminal 'b' with many nullable/recursive shapes
    (S: 'b' 'b' | 'b' S S | EMPTY;  S: A A A | EMPTY; A: S 'b' | EMPTY; ...).  Long inputs are
    cheap (b^k), and these shapes are where GLR revisit logic is exercised."""
    for _ in range(200):
        nts = ["S", "A"] if (two_nts if two_nts is not None else rng.random() < 0.5) else ["S"]
        prods = []
        for l in nts:
            n_alt = rng.randint(2, 3)
            alts = []
            if rng.random() < 0.7:
                alts.append([])
            while len(alts) < n_alt:
                k = rng.randint(1, 3)
                a = [rng.choice(nts + ["'b'"]) if rng.random() < 0.6 else "'b'" for _ in range(k)]
                if a not in alts:
                    alts.append(a)
            rng.shuffle(alts)
            prods.append((l, alts))
        if productive_reachable(prods):
            return prods, gr_text(prods)
    return None


def nullable2_grammar(rng):
    """2-3 nonterminals over {'a','b'} where most nonterminals have an EMPTY alternative:
    right-nullable and hidden-recursive shapes that stack several nullable symbols on one
    GLR frontier."""
    for _ in range(200):
        nts = NT_NAMES[: rng.randint(2, 3)]
        prods = []
        for l in nts:
            alts = []
            if rng.random() < 0.7:
                alts.append([])
            n_alt = rng.randint(2, 3)
            while len(alts) < n_alt:
                k = rng.randint(1, 3)
                a = [rng.choice(nts) if rng.random() < 0.55 else rng.choice(["'a'", "'b'"]) for _ in range(k)]
                if a not in alts:
                    alts.append(a)
            rng.shuffle(alts)
            prods.append((l, alts))
        if productive_reachable(prods):
            return prods, gr_text(prods)
    return None


LEXLEN_TERMS = "\nterminals\nA: 'a';\nAA: 'aa';\nB: 'b';\nAB: 'ab';"


def lexlen_grammar(rng):
    """grammars over declared terminals that overlap with different lengths (A='a', AA='aa',
    B='b', AB='ab'): GLR heads at different positions meet in one frontier"""
    for _ in range(200):
        nts = ["S", "X", "Y"][: rng.randint(1, 3)]
        terms = ["A", "AA", "B", "AB"]
        prods = []
        for l in nts:
            alts = []
            n_alt = rng.randint(2, 3)
            while len(alts) < n_alt:
                k = rng.randint(1, 3)
                a = [rng.choice(nts) if rng.random() < 0.45 else rng.choice(terms) for _ in range(k)]
                if a not in alts:
                    alts.append(a)
            prods.append((l, alts))
        # productivity/reachability with terminal names instead of quoted strings
        q = [(l, [["'%s'" % x if x in terms else x for x in a] for a in alts]) for l, alts in prods]
        if productive_reachable(q):
            used = sorted(set(x for _, alts in prods for a in alts for x in a if x in terms))
            decl = "\nterminals\n" + "\n".join("%s: '%s';" % (t, t.lower()) for t in used)
            return prods, gr_text(prods) + decl
    return None


def lexamb_grammar(rng):
    """grammars over declared terminals that match the SAME text at the same position (A='a',
    B='b', X=/[ab]/, Y=/a/, Z=/b/): under GLR (no lexical disambiguation) one frontier is
    reduced once per lookahead symbol, so equal stretches of input are packed by several
    sub-frontiers; half of the time around a small ambiguous core"""
    tdecl = {"A": "'a'", "B": "'b'", "X": "/[ab]/", "Y": "/a/", "Z": "/b/"}
    for _ in range(200):
        nts = ["S", "E", "F"][: rng.randint(2, 3)]
        terms = rng.sample(["A", "B", "X", "Y", "Z"], rng.randint(3, 5))
        prods = []
        core = rng.random() < 0.5
        for l in nts:
            alts = []
            if core and l == "E":
                op = rng.choice(terms)
                alts = [["E", op, "E"], [rng.choice(terms)]] if rng.random() < 0.6 else \
                    [["E", "E"], [rng.choice(terms)]]
            elif core and l == "S":
                ts = rng.sample(terms, 2)
                alts = [["E", ts[0]], ["E", ts[1]]]
                if rng.random() < 0.4:
                    alts.append(["E"])
            else:
                n_alt = rng.randint(2, 3)
                while len(alts) < n_alt:
                    k = rng.randint(1, 3)
                    a = [rng.choice(nts) if rng.random() < 0.45 else rng.choice(terms) for _ in range(k)]
                    if a not in alts:
                        alts.append(a)
            prods.append((l, alts))
        q = [(l, [["'%s'" % x if x in tdecl else x for x in a] for a in alts]) for l, alts in prods]
        if productive_reachable(q):
            used = sorted(set(x for _, alts in prods for a in alts for x in a if x in tdecl))
            if len(used) < 2:
                continue
            decl = "\nterminals\n" + "\n".join("%s: %s;" % (t, tdecl[t]) for t in used)
            return prods, gr_text(prods) + decl
    return None


def lr1_twin_grammar(rng):
    """Grammars built around the classic LR(1)-but-not-LALR(1) core (two states with equal
    kernels whose merge would add a reduce/reduce conflict, so parglare keeps them apart),
    with optional outer contexts, extra items in the twin kernels and nullable tails: the
    shapes on which lookahead propagation between same-kernel states matters."""
    core = [["'a'", "A", "'d'"], ["'b'", "B", "'d'"], ["'a'", "B", "'e'"], ["'b'", "A", "'e'"]]
    prods = []
    extra_c = rng.random() < 0.6
    outer = rng.random() < 0.6
    s_alts = list(core)
    if extra_c:
        s_alts += [["'a'", "C"], ["'b'", "C"]]
    if rng.random() < 0.3:
        rng.shuffle(s_alts)
    if outer:
        prods.append(("G", [["'p'", "S", "'x'"], ["'q'", "S", "'y'"]] +
                      ([["S"]] if rng.random() < 0.3 else [])))
    prods.append(("S", s_alts))
    prods.append(("A", [["'c'"]]))
    prods.append(("B", [["'c'"]]))
    if extra_c:
        tail = rng.choice([["D"], ["D", "D"], ["'z'", "D"]])
        prods.append(("C", [["'c'"] + tail]))
        dalts = [["'z'"], []] if rng.random() < 0.7 else [["'z'"], ["'w'"]]
        rng.shuffle(dalts)
        prods.append(("D", dalts))
    return prods, gr_text(prods)


def ctx_nullable_grammar(rng):
    """Deterministic grammars in which one nonterminal with nullable tails is used in several
    contexts with different followers: LALR/SLR lookahead sets of its EMPTY reductions are the
    union over the contexts, so an EMPTY reduction can fire on a token that is invalid in the
    actual context (the error must still be reported at that token)."""
    ctxs = rng.sample([("'x'", "'y'"), ("'z'", "'w'"), ("'p'", "'q'"), ("'u'", "'v'")], rng.randint(2, 3))
    prods = [("S", [[a, "A", b] for a, b in ctxs])]
    tails = rng.choice([["Opt"], ["Opt", "Opt2"], ["'m'", "Opt"]])
    prods.append(("A", [["'a'"] + tails]))
    prods.append(("Opt", [["'o'"], []]))
    if "Opt2" in tails:
        prods.append(("Opt2", [["'n'"], []]))
    return prods, gr_text(prods)


def unit_chain_grammar(rng):
    """Deterministic LALR grammars in which one nonterminal is entered in one state from several
    items with different continuations (so its closure items get their lookaheads in several
    steps), sits on top of a chain of unit rules ending in a nullable rule, and is also used in a
    second context: the shapes on which re-queuing of widened closure items and the final LALR
    propagation both matter."""
    depth = rng.randint(1, 3)
    heads = rng.sample(["'p'", "'q'", "'r'"], rng.randint(2, 3))
    tails = rng.sample(["'t'", "'u'", "'v'"], rng.randint(2, 3))
    alts = []
    for t in tails[: rng.randint(2, len(tails))]:
        alts.append([heads[0], "B", t])
    for h in heads[1:]:
        if rng.random() < 0.7:
            alts.append([h, "B", rng.choice(tails)])
        else:
            alts.append([h, "B", "W"])
    if rng.random() < 0.3:
        rng.shuffle(alts)
    prods = [("S", alts)]
    if any("W" in a for a in alts):
        prods.append(("W", [[t] for t in tails[:2]]))
    names = ["B", "C", "D", "E2"][: depth + 1]
    for a, b in zip(names, names[1:]):
        prods.append((a, [[b]] if rng.random() < 0.8 else [[b], ["'k'", b]]))
    last = [["'e'"], []]
    if rng.random() < 0.3:
        last = [[], ["'e'"]]
    if rng.random() < 0.3:
        last.append(["'e'", "'e'"])
    prods.append((names[-1], last))
    return prods, gr_text(prods)


def follow_chain_grammar(rng):
    """Deterministic grammars in which FOLLOW has to travel down a chain of nonterminals that are
    declared bottom-up (X3 before X2 before X1), each the tail of the next one's production: the
    SLR FOLLOW fixpoint needs as many passes as the chain is long, and the first pass ends with a
    production that adds nothing."""
    depth = rng.randint(2, 4)
    tails = rng.sample(["'x'", "'y'", "'w'"], rng.randint(2, 3))
    s_alts = [["X1", tails[0]], ["'z'", "X1", tails[1]]]
    if len(tails) > 2:
        s_alts.append(["'q'", "X1", tails[2]])
    prods = [("S", s_alts)]
    letters = ["'a'", "'b'", "'c'", "'d'"]
    chain = []
    for i in range(1, depth + 1):
        if i < depth:
            alts = [[letters[i - 1], "X%d" % (i + 1)]]
            if rng.random() < 0.6:
                alts.append([letters[i - 1]])
        else:
            alts = [[letters[i - 1]]]
            if rng.random() < 0.4:
                alts.append([])
        chain.append(("X%d" % i, alts))
    prods += list(reversed(chain))
    return prods, gr_text(prods)


def epsilon_chain_grammar(rng):
    """Top-down written grammars whose nullability travels through a chain of pure-epsilon unit
    rules (L: 'a' | M; M: N; N: O; O: EMPTY) that is longer than the terminal propagation, the
    nullable symbol heading a rule that is used right after another nonterminal: FIRST (and with
    it SLR FOLLOW and LR(1) closure lookaheads) needs one pass per link of the chain."""
    depth = rng.randint(2, 4)
    names = ["M", "N", "O", "P"][:depth]
    prods = [("T0", [["'x'", "Y", "S"], ["'x'", "Z", "R"]] if rng.random() < 0.7 else
              [["Y", "S"], ["'x'", "Z", "R"]]),
             ("S", [["L", "R"]] if rng.random() < 0.7 else [["L", "R"], ["L", "'s'"]]),
             ("L", [["'a'"], [names[0]]])]
    for a, b in zip(names, names[1:]):
        prods.append((a, [[b]]))
    prods.append((names[-1], [[]]))
    prods.append(("R", [["'r'"]] if rng.random() < 0.6 else [["'r'"], ["'r'", "R"]]))
    prods.append(("Y", [["'y'"]]))
    prods.append(("Z", [["'y'"]] if rng.random() < 0.5 else [["'z'"]]))
    return prods, gr_text(prods)
